"""C05 - Event payloads are released exactly after their last reader.
Decides: the reader count is initialised from exactly what is iterated; spawn only if read; every end / abort
releases once (DESIGN.md section 4, C05)."""
import mir
from mir import op_fn, op_place, origins
import lib
import loops as LP
import anchors as A

EXPLANATION = (
    "In each scheduler that creates a payload entity, the number given to DataEntityCounter::new is decomposed into the "
    "lengths it sums (len() of a registration-table entry, EntityReactors::count of the target entity) and compared, as a "
    "multiset of canonical sources, with the collections iterated by the loops that queue commands carrying that payload "
    "entity; each such loop queues exactly one command per element and has no early exit (so count = commands queued). "
    "The payload is spawned only on the count != 0 arm. Every end function passes the entity returned by the tracker's "
    "end() to the release helper (decrement by the constant 1, despawn on the ==0 arm only) or despawns it (system "
    "events). The abort helper runs setup then cleanup on its only path, so skipped and discarded runs release too.")

NOT_DECIDED = [
    "listeners revoked between scheduling and running (the count is fixed at scheduling time; follows with C02, not separately decided)",
    "entity counts at quiescence over arbitrary histories",
]


def check(ctx):
    ctx.explanation = EXPLANATION
    ctx.not_decided = NOT_DECIDED
    prog = ctx.prog
    # ---- counter constructions ----
    sites = prog.callers_of(lambda n: lib.tail(n, 2) == "DataEntityCounter::new")
    ctx.floor("C05.a", len(sites), 2, "DataEntityCounter::new call sites")
    for (body, cb_, t, fr) in sites:
        ctx.touch(body, calls=len(list(body.iter_calls())))
        fk = lib.fkey(body)
        lens = LP.len_sources(prog, body, t["args"][0])
        if lens is None:
            ctx.fail("C05.a", "%s:count-not-understood" % fk, body.loc(cb_),
                     "the reader count is not a sum of len()/count() of registration lists (inconclusive)")
            continue
        # payload entity: the spawn that consumes this counter
        spawn = None
        for b2, t2, fr2 in body.iter_calls():
            if fr2 and lib.tail(mir.fn_name(fr2), 2) in ("Commands::spawn", "World::spawn"):
                agg = None
                for o in origins(body, t2["args"][1]):
                    if o[0] == "agg":
                        agg = body.blocks[o[1]]["stmts"][o[2]]["rv"]["agg"]
                if agg and any(lib.originates_from_call(body, x, cb_) for x in agg["ops"]):
                    spawn = b2
        if spawn is None:
            ctx.fail("C05.a", "%s:anchor-lost:payload-spawn" % fk, body.loc(cb_), "counter is not spawned with the payload")
            continue
        # loops that queue commands carrying the payload entity
        iters = []
        for L in LP.find_loops(body):
            if L.driver is None:
                continue
            qs = []
            for b2 in sorted(L.blocks):
                t2 = body.blocks[b2]["term"]
                fr2 = op_fn(t2["func"]) if t2["k"] == "call" else None
                if fr2 and lib.tail(mir.fn_name(fr2), 2) in ("Commands::queue",):
                    agg = None
                    for o in origins(body, t2["args"][1]):
                        if o[0] == "agg":
                            agg = body.blocks[o[1]]["stmts"][o[2]]["rv"]["agg"]
                    if agg and agg["kind"] == "adt" and "data_entity" in agg.get("fields", []):
                        de = agg["ops"][agg["fields"].index("data_entity")]
                        ok_ent = entity_from_spawn(body, de, spawn)
                        ctx.check(ok_ent, "C05.a", "%s:queued-command-carries-this-payload" % fk, body.loc(b2),
                                  "queued command carries the spawned payload entity", "queued command carries a different data entity")
                        qs.append(b2)
            if not qs:
                continue
            src = LP.coll_source(body, body.blocks[L.driver]["term"]["args"][0])
            counts, ns = LP.iteration_counts(body, L, qs)
            ctx.touch(body, states=ns)
            ctx.check(counts == {1}, "C05.a", "%s:one-command-per-listener" % fk, body.loc(L.driver),
                      "each iteration queues exactly one command", "an iteration queues %s commands for one listener" % sorted(counts))
            ctx.check(not L.exits, "C05.a", "%s:no-early-exit" % fk, body.loc(L.driver), "loop runs to exhaustion",
                      "the dispatch loop can be left early: %s" % ["bb%d->bb%d" % e for e in L.exits])
            if src is None:
                ctx.fail("C05.a", "%s:iteration-source-not-understood" % fk, body.loc(L.driver), "cannot canonicalise what the loop iterates")
            else:
                iters.append(src)
        key = lambda s: str(s)
        ctx.check(sorted(lens, key=key) == sorted(iters, key=key), "C05.a", "%s:count=iteration" % fk, body.loc(cb_),
                  "count sums %s = iterated %s" % (pretty(lens), pretty(iters)),
                  "the reader count sums the lengths of %s but the commands are queued from %s" % (pretty(lens), pretty(iters)))
        ctx.sample({"scheduler": fk, "count_sources": pretty(lens), "iteration_sources": pretty(iters)})
        # ---- C05.b spawn only if read ----
        zero_arm_ok = False
        for b2 in sorted(body.reachable):
            info = mir.switch_on(body, b2)
            if info and info["kind"] == "bin" and info["bin"]["op"] in ("Eq", "Ne", "Gt"):
                l, r = info["bin"]["l"], info["bin"]["r"]
                if lib.const_val(r) == 0 and origins(body, l) == origins(body, t["args"][0]):
                    tg = info["targets"]
                    # `num == 0` / `num != 0` / `num > 0` (unsigned): which arm is the zero arm
                    if info["bin"]["op"] == "Eq":
                        eq_t, ne_t = info["otherwise"], tg.get(0)
                    else:
                        eq_t, ne_t = tg.get(0), info["otherwise"]
                    if ne_t is not None and body.dominates(ne_t, spawn):
                        zero_arm_ok = True
                    # on the zero arm nothing is spawned or queued
                    if eq_t is not None:
                        region = body.reach_from(eq_t)
                        bad = [x for x in region if x == spawn]
                        ctx.check(not bad, "C05.b", "%s:nothing-spawned-when-nobody-listens" % fk, body.loc(b2), "",
                                  "the payload is spawned on the count == 0 arm")
        if not zero_arm_ok and len(lens) == 1:
            # `if handlers.is_empty() { return }` on the very list whose length is the count
            for b2, t2, fr2 in body.iter_calls():
                if fr2 is not None and lib.tail(mir.fn_name(fr2), 1) == "is_empty" and t2["args"] and LP.coll_source(body, t2["args"][0]) == lens[0]:
                    for (sb, tt, ft) in lib.bool_arms(body, b2):
                        if body.dominates(ft, spawn):
                            zero_arm_ok = True
                        ctx.check(spawn not in body.reach_from(tt), "C05.b", "%s:nothing-spawned-when-nobody-listens" % fk, body.loc(b2), "",
                                  "the payload is spawned on the empty-list arm")
        ctx.check(zero_arm_ok, "C05.b", "%s:spawn-only-if-read" % fk, body.loc(spawn),
                  "payload spawn is dominated by the count != 0 arm", "the payload entity is spawned even when the reader count is 0 (it would never be released)")

    # ---- C05.c every end releases ----
    trackers = A.tracker_types(prog)
    rel = ctx.anchor("C05.c", lambda: A.release_helper(prog), "release helper")
    n_end_uses = 0
    for ty in sorted(trackers):
        tname = ty.split("::")[-1]
        try:
            end = A.method(prog, tname, "end")
        except mir.AnchorLost:
            continue
        if end.local_ty(0) == "()":
            continue
        for (body, b, t, fr) in prog.callers_of(lambda n: n == end.path):
            ctx.touch(body)
            n_end_uses += 1
            fk = lib.fkey(body)
            sinks = []
            for b2, t2, fr2 in body.iter_calls():
                if fr2 is None or b2 == b:
                    continue
                for i, a in enumerate(t2["args"]):
                    if lib.originates_from_call(body, a, b):
                        sinks.append((b2, mir.fn_name(fr2), i))
            good = [s for s in sinks if (rel is not None and s[1] == rel.path) or lib.tail(s[1], 2) in ("World::despawn", "World::try_despawn")]
            w = lib.path_to_return_avoiding(body, [lib.call_target(body, b)], [s[0] for s in good])
            ctx.check(bool(good) and w is None, "C05.c", "%s:end-result-released" % fk, body.loc(b),
                      "the entity returned by %s::end() reaches %s on every path" % (tname, [lib.tail(s[1], 2) for s in good]),
                      "the data entity returned by %s::end() is dropped without being released/despawned" % tname)
    ctx.floor("C05.c", n_end_uses, 2, "uses of a tracker end() result")
    if rel is not None:
        ctx.touch(rel)
        # the counter's methods by what they do: *decrement* subtracts the constant 1 from the count, *done* returns `count == 0`
        # (one method may do both: `fn decrement(&mut self) -> bool`)
        def _subs(m_):
            out_ = []
            for b_, t_, fr_ in m_.iter_calls():
                if fr_ and lib.tail(mir.fn_name(fr_), 1) in ("saturating_sub", "wrapping_sub", "checked_sub"):
                    out_.append(lib.const_val(t_["args"][1]))
            for b_, i_, st_ in m_.iter_stmts():
                if st_["k"] == "assign" and "bin" in st_["rv"] and st_["rv"]["bin"]["op"].startswith("Sub"):
                    out_.append(lib.const_val(st_["rv"]["bin"]["r"]))
            return out_

        def _cmp0(m_):
            return [(st_["rv"]["bin"]["op"], lib.const_val(st_["rv"]["bin"]["r"])) for b_, i_, st_ in m_.iter_stmts()
                    if st_["k"] == "assign" and "bin" in st_["rv"] and st_["rv"]["bin"]["op"] in ("Eq", "Le", "Lt")]
        cm = [m_ for m_ in A.methods_of(prog, "DataEntityCounter")]
        dec_ms = [m_ for m_ in cm if _subs(m_)]
        done_ms = [m_ for m_ in cm if m_.local_ty(0) == "bool" and _cmp0(m_)]
        dec = [b for b, t, fr in rel.iter_calls() if fr and prog.resolve_local(fr) in dec_ms]
        done = [b for b, t, fr in rel.iter_calls() if fr and prog.resolve_local(fr) in done_ms]
        desp = [b for b, t, fr in rel.iter_calls() if fr and lib.tail(mir.fn_name(fr), 2) in ("World::despawn", "World::try_despawn")]
        ok = bool(dec) and bool(done) and bool(desp)
        if ok:
            arms = lib.bool_arms(rel, done[0])
            ok = bool(arms) and all(rel.dominates(arms[0][1], d) for d in desp) and rel.dominates(dec[0], done[0])
            for d in desp:
                ok = ok and lib.originates_from_arg(rel, rel.blocks[d]["term"]["args"][1], 2)
        ctx.check(ok, "C05.c", "release-helper:decrement-then-despawn-if-done", "%s:%d" % (rel.file, rel.line),
                  "decrement, then despawn the same entity only on the is_done() arm",
                  "release helper does not decrement then despawn its entity only when the count reached zero")
        if dec_ms and done_ms:
            decm, isd = dec_ms[0], done_ms[0]
            ctx.touch(decm)
            ctx.touch(isd)
            subs = [x for m_ in dec_ms for x in _subs(m_)]
            ctx.check(subs == [1], "C05.c", "DataEntityCounter::decrement:subtracts-one", "%s:%d" % (decm.file, decm.line),
                      "subtracts the constant 1", "decrement subtracts %s" % subs)
            cmp0 = _cmp0(isd)
            ctx.check(cmp0 in ([("Eq", 0)], [("Le", 0)], [("Lt", 1)]), "C05.c", "DataEntityCounter::is_done:compares-with-zero", "%s:%d" % (isd.file, isd.line),
                      "is_done() is count == 0", "is_done compares %s" % cmp0)
            # the zero test reads the count *after* the subtraction when one method does both
            if decm is isd:
                sub_b = [b_ for b_, t_, fr_ in decm.iter_calls() if fr_ and lib.tail(mir.fn_name(fr_), 1) in ("saturating_sub", "wrapping_sub", "checked_sub")] + \
                        [b_ for b_, i_, st_ in decm.iter_stmts() if st_["k"] == "assign" and "bin" in st_["rv"] and st_["rv"]["bin"]["op"].startswith("Sub")]
                cmp_b = [b_ for b_, i_, st_ in decm.iter_stmts() if st_["k"] == "assign" and "bin" in st_["rv"] and st_["rv"]["bin"]["op"] in ("Eq", "Le", "Lt")]
                ctx.check(all(decm.dominates(sb_, cb_) and sb_ != cb_ or sb_ == cb_ for sb_ in sub_b for cb_ in cmp_b) and all(
                    cb_ in decm.reach_from(sb_) for sb_ in sub_b for cb_ in cmp_b), "C05.c", "DataEntityCounter::decrement:zero-test-after-subtraction",
                    "%s:%d" % (decm.file, decm.line), "the zero test follows the subtraction", "the zero test precedes the subtraction (done would be reported one reader late)")
        else:
            ctx.fail("C05.c", "anchor-lost:DataEntityCounter", "", "no decrement / zero-test method found on the counter type")

    # system events: the payload entity that the command names is the one spawned with the caller's event, and the command
    # is for the caller's target system (so end_system_event despawns exactly that payload)
    senders = [b for b in prog.bodies if b.kind == "assoc_fn" and b.raw.get("name") == "send_system_event"]
    ctx.floor("C05.c", len(senders), 2, "send_system_event implementations")
    for s in senders:
        ctx.touch(s)
        sk = lib.fkey(s)
        sp = [(b, t) for b, t, fr in s.iter_calls() if fr and lib.tail(mir.fn_name(fr), 2) in ("World::spawn", "Commands::spawn")]
        newd = [(b, t) for b, t, fr in s.iter_calls() if fr and lib.tail(mir.fn_name(fr), 2) == "SystemEventData::new"]
        aggs = [st["rv"]["agg"] for b, i, st in s.iter_stmts() if st["k"] == "assign" and "agg" in st["rv"] and st["rv"]["agg"].get("adt", "").endswith("::EventCommand")]
        ok = len(sp) == 1 and len(newd) == 1 and len(aggs) == 1
        if ok:
            ag = aggs[0]
            ok = lib.originates_from_arg(s, newd[0][1]["args"][0], 3) and lib.originates_from_call(s, sp[0][1]["args"][1], newd[0][0]) \
                and lib.originates_from_arg(s, ag["ops"][ag["fields"].index("system")], 2) and entity_from_spawn(s, ag["ops"][ag["fields"].index("data_entity")], sp[0][0])
        ctx.check(ok, "C05.c", "%s:event-command-names-its-own-payload" % sk, "%s:%d" % (s.file, s.line),
                  "EventCommand{system: target, data_entity: id of spawn(SystemEventData::new(event))}",
                  "send_system_event does not build its command from the target system and the entity it spawned for this event's payload")

    # ---- C05.d aborted and discarded runs release too ----
    _discard_path(ctx)
    H = ctx.anchor("C05.d", lambda: A.abort_helper(prog), "abort helper")
    if H is not None:
        ctx.touch(H)
        si_, ci_ = A.abort_positions(prog)
        setup = [b for b, t, fr in H.iter_calls() if fr and lib.tail(mir.fn_name(fr), 2) == A.names(prog)["setup_run"] and lib.originates_from_arg(H, t["args"][0], si_)]
        clean = [b for b, t, fr in H.iter_calls() if fr and lib.tail(mir.fn_name(fr), 2) == A.names(prog)["cleanup_run"] and lib.originates_from_arg(H, t["args"][0], ci_)]
        cs, _, _ = lib.event_counts(H, setup)
        cc, _, _ = lib.event_counts(H, clean)
        ctx.check(cs == {1} and cc == {1} and all(any(H.dominates(s, c) for s in setup) for c in clean), "C05.d",
                  "%s:setup-then-cleanup" % lib.fkey(H), "%s:%d" % (H.file, H.line),
                  "abort helper runs its setup exactly once, then its cleanup exactly once, on every path",
                  "abort helper does not run setup (claims the pending entry) and then cleanup (releases it) exactly once each: setup %s cleanup %s" % (sorted(cs), sorted(cc)))


def _discard_path(ctx):
    """C05.d: postponed runs that can no longer happen are aborted with setup + cleanup (shared with C02.a / C02.c)"""
    import core, c02
    n = core.adopt(ctx, c02, lambda o: (o["rule"] == "C02.c" and any(k in o["key"] for k in ("discard", "run-path-always-replays", "detached-queue", "replays-element", "drop-only-after-run",
                                                                        # the root test decides who discards the postponed readers: a runner that
                                                                        # mistakes itself for the root aborts runs that are still due
                                                                        "counter-", "one-counter-increment", "root-", "pop_front loop on the root arm")))
                   or (o["rule"] == "C02.a" and any(k in o["key"] for k in ("single-disposition", "dispositions=", "abort-only"))), "C05.d")
    ctx.floor("C05.d", n, 8, "shared abort / discard obligations (C02.a, C02.c)")
    nd = core.adopt(ctx, c02, lambda o: o["rule"] == "C02.d" and "one-runner-call-per-path" in o["key"], "C05.d")
    # a postponed reader is neither run nor aborted if the queue loses it: the queue methods keep every entry (attach puts the
    # detached list back *in front of* what was pushed meanwhile, nothing is cleared; shared with C12.b)
    import c12 as _c12
    nd += core.adopt(ctx, _c12, lambda o: o["rule"] == "C12.b", "C05.d")
    ctx.floor("C05.d", nd, 3, "shared one-runner-call-per-apply-path obligations (C02.d): a counted reader always reaches the runner")
    # a postponed command that is given up is aborted through the abort helper (setup, then cleanup): running the cleanup of
    # a buffered command directly skips the setup that claims its pending metadata, so the cleanup releases the payload of
    # whatever reaction is current instead and the command's own payload is never released
    prog = ctx.prog
    NMc = A.names(prog)
    nrun = 0
    for body in prog.bodies:
        for b, t, fr in body.iter_calls():
            if fr is None or lib.tail(mir.fn_name(fr), 2) != NMc["cleanup_run"] or not t["args"]:
                continue
            nrun += 1
            os_ = origins(body, t["args"][0])
            direct = [o for o in os_ if any(isinstance(x, str) and x == ".cleanup" for x in o[2:])]
            ctx.check(not direct, "C05.d", "%s:buffered-cleanup-only-through-abort-helper" % lib.fkey(body), body.loc(b),
                      "the cleanup that is run is the function's own cleanup value",
                      "%s runs the cleanup stored in a buffered command directly (%s) instead of aborting the command through the abort helper (setup then cleanup)"
                      % (lib.fkey(body), lib.origin_str(direct)))
    ctx.floor("C05.d", nrun, 2, "sites that run a SystemCommandCleanup")
    import writers
    nwc = writers.check(ctx, "C05.c", ["DataEntityCounter"])
    ctx.notes.append("who-writes table: %d payload counter fields with pinned writers checked" % nwc)
    # a postponed run releases the payload it was scheduled for, not a later one: the event trackers hand pending entries
    # out in arrival order (shared with C03.e) - otherwise a payload is dropped while its own reader has yet to run
    import c03
    n = core.adopt(ctx, c03, lambda o: o["rule"] == "C03.e" and ("EventAccessTracker" in o["key"]), "C05.e")
    # every run's cleanup ends exactly the trackers its setup started: an end() of the event tracker without a start() hands the
    # *previous* event's data entity to the release helper (one decrement too many: the payload goes before its last reader)
    n += core.adopt(ctx, c03, lambda o: o["rule"] == "C03.a" and ("prepare=start=end" in o["key"] or "arm-calls-the-runner" in o["key"]), "C05.e")
    ctx.floor("C05.e", n, 6, "shared claim-order obligations of the event trackers (C03.e)")


def entity_from_spawn(body, op, spawn_block):
    for o in origins(body, op):
        if o[0] != "call":
            return False
        t = body.blocks[o[1]]["term"]
        fr = op_fn(t["func"])
        if o[1] == spawn_block:
            continue
        if fr and lib.tail(mir.fn_name(fr), 1) == "id" and lib.originates_from_call(body, t["args"][0], spawn_block):
            continue
        return False
    return True


def pretty(srcs):
    out = []
    for s in srcs:
        if s is None:
            out.append("?")
        elif s[0] == "table":
            out.append("%s%s[%s]" % (s[1], "." + s[2] if s[2] else "", ",".join("::".join(k[:1]) + "<" + ",".join(k[1:]) + ">" if k and k[0] == "TypeId::of" else str(k) for k in s[3])))
        elif s[0] == "entity":
            rt = s[2]
            out.append("EntityReactors(%s).%s" % (short_or(s[1]), rt[0][0] if rt and rt[0] else "?"))
        else:
            out.append(str(s))
    return sorted(out)


def short_or(o):
    return ",".join("arg%s%s" % (x[1], "".join(x[2:])) if x and x[0] == "arg" else str(x) for x in o) if isinstance(o, tuple) else str(o)

"""Loop-shape analysis (A1 loops + A3/A7): driver call, exits, per-iteration event counts, and the canonical
*source* a loop iterates / a length is taken of (registration table entry or an entity's EntityReactors)."""
from collections import deque

import re
import mir
from mir import op_fn, op_place, origins
import lib

DRIVERS = {"next", "try_recv", "pop_front", "pop", "recv"}

# calls through which "which collection is this" flows from the first argument to the result
SRC_PASS = {"iter", "iter_mut", "into_iter", "drain", "deref", "deref_mut", "enumerate", "as_ref", "as_mut", "borrow",
            "borrow_mut", "into_inner", "clone", "unwrap", "expect", "ok", "as_slice", "by_ref", "peekable", "take", "unwrap_or_else",
            "unwrap_or_default"}


class Loop:
    pass


def _empty_array_const(op):
    """a constant (reference to an) empty array: `&[]`"""
    c = op.get("const") if isinstance(op, dict) else None
    return isinstance(c, dict) and re.search(r"\[[^\[\]]*; 0\]$", (c.get("ty") or "").strip()) is not None


def _flat_map_source(body, t, depth, env):
    """`opt.into_iter().flat_map(|x| <iteration of x>)`: the 0-or-1 values of an Option, each expanded by the closure, are the
    closure's iteration of the Option's payload. Two closure shapes are understood: `|e| e.iter_rtype(kind)` (the per-kind
    registrations of an entity) and `|list| list.iter()[.map(|h| h.sys_command())]` (a table entry's list, element-wise
    projected to the system id)."""
    prog = getattr(body, "prog", None)
    rp = op_place(t["args"][0])
    if prog is None or rp is None or rp["p"]:
        return None
    ds = [d for d in body.defs.get(rp["l"], []) if d[0] in ("stmt", "call")]
    if len(ds) != 1 or ds[0][0] != "call":
        return None
    it = ds[0][2]
    ifr = op_fn(it["func"])
    ip = op_place(it["args"][0]) if it["args"] else None
    if ifr is None or lib.tail(mir.fn_name(ifr), 1) != "into_iter" or ip is None:
        return None
    ity = body.local_ty(ip["l"]) if not ip["p"] else ""
    if not ity.startswith("core::option::Option<"):
        return None
    rsrc = _place_source(body, ip, depth + 1, env)
    clo = None
    for o in origins(body, t["args"][1]):
        if o[0] == "agg" and len(o) == 3:
            ag = body.blocks[o[1]]["stmts"][o[2]]["rv"].get("agg")
            if ag and ag.get("kind") == "closure":
                clo = ag
    cb = prog.body(clo["closure"]) if clo else None
    if cb is None or cb.arg_count != 2 or rsrc is None:
        return None
    calls = [(b, t2, fr) for b, t2, fr in cb.iter_calls() if fr is not None]
    from_param = lambda op_: bool(origins(cb, op_)) and all(o[0] == "arg" and o[1] == 2 for o in origins(cb, op_))
    # |e| e.iter_rtype(kind)
    if len(calls) == 1 and _er_role(cb, calls[0][2]) == "iter" and from_param(calls[0][1]["args"][0]) and rsrc[0] == "entity_component":
        ko = origins(cb, calls[0][1]["args"][1])
        if len(ko) == 1:
            o = next(iter(ko))
            if o[0] == "arg" and o[1] == 1 and len(o) >= 3 and o[2].lstrip(".").isdigit() and int(o[2].lstrip(".")) < len(clo["ops"]):
                return ("entity", rsrc[1], _rtype_key(body, clo["ops"][int(o[2].lstrip("."))]))
        return None
    # |list| list.iter() / list.iter().map(|h| h.sys_command())
    if rsrc[0] == "table":
        ok = bool(calls)
        for b, t2, fr in calls:
            n1 = lib.tail(mir.fn_name(fr), 1)
            if n1 in ("iter", "into_iter", "deref", "as_slice"):
                continue
            if n1 == "map" and _maps_handle_to_system(cb, t2):
                continue
            ok = False
        return rsrc if ok else None
    return None


def _projection_field(body, clo_op):
    """name of the crate-record field a one-parameter closure projects out of its parameter (`|r| r.list.as_slice()`,
    `|r| &r.list`), when that is all it does; else None"""
    prog = getattr(body, "prog", None)
    if prog is None:
        return None
    cb = None
    for o in origins(body, clo_op):
        if o[0] == "agg" and len(o) == 3:
            ag = body.blocks[o[1]]["stmts"][o[2]]["rv"].get("agg")
            if ag and ag.get("kind") == "closure" and not ag.get("ops"):
                cb = prog.body(ag["closure"])
    if cb is None or cb.arg_count != 2:
        return None
    for _, _, fr in cb.iter_calls():
        if fr is None or lib.tail(mir.fn_name(fr), 1) not in ("as_slice", "deref", "as_ref", "iter", "borrow"):
            return None
    names = set()
    # the parameter and its whole-value copies (a helper inlined into the closure binds its own parameter to it)
    alias = {2}
    grew = True
    while grew:
        grew = False
        for b, i, st in cb.iter_stmts():
            if st["k"] == "assign" and not st["place"]["p"] and st["place"]["l"] not in alias and "use" in st["rv"]:
                sp = op_place(st["rv"]["use"])
                if sp is not None and not sp["p"] and sp["l"] in alias:
                    alias.add(st["place"]["l"])
                    grew = True
            elif st["k"] == "assign" and not st["place"]["p"] and st["place"]["l"] not in alias and "ref" in st["rv"] and not st["rv"].get("mut") \
                    and st["rv"]["ref"]["p"] == ["deref"] and st["rv"]["ref"]["l"] in alias:
                alias.add(st["place"]["l"])        # `&*r`: a reborrow of the parameter
                grew = True
    for b, i, st in cb.iter_stmts():
        if st["k"] != "assign":
            continue
        rv = st["rv"]
        pl = rv.get("ref") or (op_place(rv["use"]) if "use" in rv else None)
        if pl is None or pl["l"] not in alias:
            continue
        for e in pl["p"]:
            if isinstance(e, dict) and "f" in e and e.get("adt") and not e["adt"].startswith(("core::", "alloc::", "std::", "bevy_", "hashbrown::", "smallvec::")):
                names.add(e.get("name"))
    return next(iter(names)) if len(names) == 1 else None


def _er_role(body, fr):
    """role of a (possibly renamed) method of EntityReactors by signature: `(&self, EntityReactionType) -> usize` is the
    per-kind count, `(&self, EntityReactionType) -> impl Iterator` the per-kind iteration"""
    prog = getattr(body, "prog", None)
    if prog is None or fr is None:
        return None
    cb = prog.resolve_local(fr)
    if cb is None or lib.impl_self_name(cb) != "EntityReactors" or cb.arg_count != 2:
        return None
    if not cb.local_ty(1).startswith("&") or cb.local_ty(1).startswith("&mut") or not cb.local_ty(2).endswith("::EntityReactionType"):
        return None
    ret = cb.local_ty(0)
    if ret == "usize":
        return "count"
    if "Iterator" in ret or "iter::" in ret:
        return "iter"
    return None


def _thin_driver_wrapper(body, fr):
    """a small crate method that only forwards to a driver (`fn pop_pending(&self) -> Option<E> { self.rx.try_recv().ok() }`,
    whatever it is called)"""
    prog = getattr(body, "prog", None)
    if prog is None:
        return False
    cb = prog.resolve_local(fr)
    if cb is None or cb.n > 16 or not cb.local_ty(0).startswith("core::option::Option<"):
        return False
    inner = [lib.tail(mir.fn_name(f2), 1) for _, _, f2 in cb.iter_calls() if f2 is not None]
    drv = [n for n in inner if n in DRIVERS]
    return len(drv) == 1 and all(n in DRIVERS or n in ("ok", "deref", "deref_mut", "as_ref", "as_mut") for n in inner)


def find_loops(body):
    """natural loops with their driver call (Iterator::next / try_recv / pop_front matched with an exit arm)"""
    out = []
    for (h, blocks, backs) in body.loops():
        L = Loop()
        L.header, L.blocks, L.backs = h, blocks, backs
        L.driver = None
        for b in sorted(blocks):
            t = body.blocks[b]["term"]
            if t["k"] != "call":
                continue
            fr = op_fn(t["func"])
            if fr is None:
                continue
            if lib.tail(mir.fn_name(fr), 1) not in DRIVERS and not _thin_driver_wrapper(body, fr):
                continue
            if not all(body.dominates(b, x) for x in backs):
                continue
            arms = lib.result_arms(body, b)
            for (sb, ok_t, fail_t) in arms:
                if sb in blocks and fail_t not in blocks or body.is_unreachable_block(fail_t):
                    L.driver = b
                    L.driver_name = mir.fn_name(fr)
                    L.some_t, L.none_t, L.switch = ok_t, fail_t, sb
            if L.driver is not None:
                break
        # exits other than the driver's exhaustion arm; edges into diverging (panic) blocks do not count
        L.exits = []
        for x in sorted(blocks):
            for s in body.succ[x]:
                if s in blocks:
                    continue
                if L.driver is not None and x == L.switch and s == L.none_t:
                    continue
                if not body.can_reach_return(s):
                    continue
                L.exits.append((x, s))
        out.append(L)
    # nesting
    for L in out:
        L.inner = [M for M in out if M is not L and M.blocks < L.blocks]
        L.outer = [M for M in out if M is not L and L.blocks < M.blocks]
    return out


def iteration_counts(body, L, event_blocks, sat=2):
    """set of possible numbers of events in one iteration (paths from the driver's Some arm back to the header)"""
    ev = set(event_blocks)
    start = L.some_t
    seen = {(start, 0)}
    dq = deque([(start, 0)])
    out = set()
    while dq:
        b, c = dq.popleft()
        if b in ev:
            c = min(sat, c + 1)
        for s in body.succ[b]:
            if s == L.header:
                out.add(c)
                continue
            if s not in L.blocks:
                continue   # exits are reported separately
            if (s, c) not in seen:
                seen.add((s, c))
                dq.append((s, c))
    return out, len(seen)


def element_origin(body, L):
    """origin prefix of the loop element: ('call', driver_block, '@Some', '.0')"""
    return ("call", L.driver)


# ---------------------------------------------------------------------------------------------------------------
# canonical collection source

def coll_source(body, op, depth=0, closure_env=None):
    """What collection does this operand denote? Returns a hashable canonical source or None:
      ('table', field, subfield-or-None, key)      entry of a ReactCache map (key = type arg of TypeId::of or origin)
      ('entity', entity-origins, rtype-origins)    iter_rtype/count of the EntityReactors of an entity
      ('field', adt, field)                        a plain collection field (e.g. the reaction command buffer)
    closure_env: {param local: source} bindings when evaluating a combinator closure body."""
    p = op_place(op)
    if p is None or depth > 90:
        return None
    return _place_source(body, p, depth, closure_env or {})


def _key_of(body, op):
    """canonical key of a map lookup: type argument of TypeId::of::<X>() or the origin set"""
    os_ = origins(body, op)
    keys = set()
    for o in os_:
        if o[0] == "call":
            fr = op_fn(body.blocks[o[1]]["term"]["func"])
            if fr and lib.tail(mir.fn_name(fr), 2) == "TypeId::of":
                keys.add(("TypeId::of",) + tuple(fr.get("args", [])))
                continue
        keys.add(tuple(o))
    return tuple(sorted(keys, key=str))


def _place_source(body, p, depth, env):
    # named field projections on the way: remember the last ReactCache-like field and sub-field
    named = [(e.get("adt"), e.get("name")) for e in p["p"] if isinstance(e, dict) and "f" in e and e.get("adt")
             and not e["adt"].startswith(("core::", "alloc::", "std::", "bevy_", "hashbrown::", "smallvec::"))]
    base = _local_source(body, p["l"], depth + 1, env)
    if base is not None:
        if named and base[0] == "table" and base[2] is None:
            # projection into a table entry: sub-list field
            return ("table", base[1], named[-1][1], base[3])
        return base
    if named:
        via = _through_local_record(body, p, depth, env)
        if via is not None:
            return via
        adt, name = named[-1]
        return ("field", adt, name)
    return None


def _through_local_record(body, p, depth, env):
    """`rec.f` / `(*r).f` where `rec` is a private record built by an aggregate in this very function (and `r` a shared
    reference to it): what the field was built from"""
    if depth > 80:
        return None
    l, proj = p["l"], list(p["p"])
    for _ in range(6):
        if proj and proj[0] == "deref":
            ds = [d for d in body.defs.get(l, []) if d[0] in ("stmt", "call")]
            if len({repr(d[3]) for d in ds if d[0] == "stmt"}) != 1 or any(d[0] == "call" for d in ds):
                return None
            rv = ds[0][3]
            if "ref" in rv and not rv.get("mut"):
                l, proj = rv["ref"]["l"], list(rv["ref"]["p"]) + proj[1:]
                continue
            if "use" in rv and op_place(rv["use"]) is not None:
                q = op_place(rv["use"])
                l, proj = q["l"], list(q["p"]) + proj
                continue
            return None
        break
    if not proj or not (isinstance(proj[0], dict) and "f" in proj[0]):
        # a whole-value copy of the record first
        ds = [d for d in body.defs.get(l, []) if d[0] in ("stmt", "call")]
        return None
    ds = [d for d in body.defs.get(l, []) if d[0] in ("stmt", "call")]
    if len({repr(d[3]) for d in ds if d[0] == "stmt"}) != 1 or any(d[0] == "call" for d in ds):
        return None
    rv = ds[0][3]
    if "use" in rv and op_place(rv["use"]) is not None and not op_place(rv["use"])["p"]:
        return _through_local_record(body, {"l": op_place(rv["use"])["l"], "p": proj}, depth + 1, env)
    ag = rv.get("agg")
    if not ag or ag.get("kind") != "adt" or not lib.is_crate_adt(ag.get("adt", "")) or proj[0]["f"] >= len(ag["ops"]):
        return None
    q = op_place(ag["ops"][proj[0]["f"]])
    if q is None:
        return None
    return _place_source(body, {"l": q["l"], "p": list(q["p"]) + proj[1:]}, depth + 1, env)


def _local_source(body, l, depth, env):
    if l in env:
        return env[l]
    if depth > 90:
        return None
    res = set()
    seen_defs = set()      # a threaded view repeats one statement in several copies of its block: one alternative
    for d in body.defs.get(l, []):
        dk = repr(d[3]) if d[0] == "stmt" else (repr((d[2]["func"], d[2]["args"])) if d[0] == "call" else None)
        if dk is not None:
            if dk in seen_defs:
                continue
            seen_defs.add(dk)
        if d[0] == "stmt":
            rv = d[3]
            q = rv.get("ref") or rv.get("rawptr")
            if q is not None:
                res.add(_place_source(body, q, depth + 1, env))
            elif "use" in rv:
                if _empty_array_const(rv["use"]):
                    continue        # `None => &[]`: the alternative that iterates nothing
                pp = op_place(rv["use"])
                res.add(_place_source(body, pp, depth + 1, env) if pp else None)
            elif "cast" in rv:
                cp_ = op_place(rv["cast"]["op"])
                if _empty_array_const(rv["cast"]["op"]) or (cp_ is not None and not cp_["p"]
                                                            and re.search(r"\[[^\[\]]*; 0\]$", body.local_ty(cp_["l"]).strip()) is not None):
                    continue        # `&[]` unsized to a slice
                pp = op_place(rv["cast"]["op"])
                res.add(_place_source(body, pp, depth + 1, env) if pp else None)
            else:
                res.add(None)
        elif d[0] == "call":
            t = d[2]
            fr = op_fn(t["func"])
            if fr is None or not t["args"]:
                res.add(None)
                continue
            name = mir.fn_name(fr)
            t1, t2 = lib.tail(name, 1), lib.tail(name, 2)
            if t2 in ("HashMap::get", "HashMap::get_mut", "HashMap::remove", "HashMap::entry"):
                recv = op_place(t["args"][0])
                fsrc = _place_source(body, recv, depth + 1, env) if recv else None
                if fsrc and fsrc[0] == "field":
                    res.add(("table", fsrc[2], None, _key_of(body, t["args"][1])))
                else:
                    res.add(None)
            elif t2 in ("EntityReactors::iter_rtype", "EntityReactors::count") or _er_role(body, fr) in ("count", "iter"):
                src = _place_source(body, op_place(t["args"][0]), depth + 1, env) if op_place(t["args"][0]) else None
                ent = src[1] if src and src[0] == "entity_component" else ("?",)
                res.add(("entity", ent, _rtype_key(body, t["args"][1])))
            elif t2 in ("Query::get", "Query::get_mut", "World::get_mut", "World::get", "World::get_entity", "World::get_entity_mut"):
                comp = [a for a in fr.get("args", []) if "EntityReactors" in a]
                if comp and len(t["args"]) > 1:
                    res.add(("entity_component", tuple(sorted(map(tuple, origins(body, t["args"][1])), key=str))))
                else:
                    res.add(None)
            elif t1 in SRC_PASS:
                pp = op_place(t["args"][0])
                res.add(_place_source(body, pp, depth + 1, env) if pp else None)
            elif t2 == "Option::map" and len(t["args"]) == 2 and op_fn(t["args"][1]) is not None \
                    and lib.tail(mir.fn_name(op_fn(t["args"][1])), 1) in ("as_slice", "as_ref", "deref", "borrow"):
                # `table.get(&key).map(Vec::as_slice)`: a view of the looked-up list
                pp = op_place(t["args"][0])
                res.add(_place_source(body, pp, depth + 1, env) if pp else None)
            elif t2 == "Option::map" and len(t["args"]) == 2 and _projection_field(body, t["args"][1]) is not None:
                # `table.get(&key).map(|entry| entry.list.as_slice())`: the sub-list `list` of the looked-up entry
                pp = op_place(t["args"][0])
                src_ = _place_source(body, pp, depth + 1, env) if pp else None
                if src_ and src_[0] == "table" and src_[2] is None:
                    res.add(("table", src_[1], _projection_field(body, t["args"][1]), src_[3]))
                else:
                    res.add(None)
            elif t1 == "flat_map" and "iterator::Iterator" in name and len(t["args"]) == 2:
                res.add(_flat_map_source(body, t, depth, env))
            elif t1 == "flatten" and "iterator::Iterator" in name:
                # `table.get(&key).into_iter().flatten()`: the 0-or-1 lists of a lookup, flattened, are that entry's list
                pp = op_place(t["args"][0])
                src_ = _place_source(body, pp, depth + 1, env) if pp else None
                res.add(src_ if src_ and src_[0] == "table" else None)
            elif t1 in ("map", "copied", "cloned", "inspect") and "iterator::Iterator" in name and (t1 != "map" or _maps_handle_to_system(body, t)):
                # element-wise adaptors keep the collection, its order and its length; `map` only when it projects each
                # registration to its own system id (`.map(ReactorHandle::sys_command)` / `.map(|h| h.sys_command())`)
                pp = op_place(t["args"][0])
                res.add(_place_source(body, pp, depth + 1, env) if pp else None)
            else:
                res.add(None)
        elif d[0] == "arg":
            res.add(None)
    if len(res) == 1:
        return next(iter(res))
    return None


def _maps_handle_to_system(body, t):
    """the function given to Iterator::map is ReactorHandle::sys_command (as an item, or a closure that only calls it on its
    parameter)"""
    if len(t["args"]) < 2:
        return False
    fa = op_fn(t["args"][1])
    if fa is not None:
        return lib.tail(mir.fn_name(fa), 2) == "ReactorHandle::sys_command"
    prog = getattr(body, "prog", None)
    for o in origins(body, t["args"][1]):
        if o[0] == "fnitem":
            return lib.tail(o[1], 2) == "ReactorHandle::sys_command"
        if o[0] == "agg" and prog is not None:
            agg = body.blocks[o[1]]["stmts"][o[2]]["rv"]["agg"]
            cb = prog.body(agg.get("closure")) if agg.get("kind") == "closure" else None
            if cb is not None:
                calls = [(b, t2, fr) for b, t2, fr in cb.iter_calls() if fr is not None]
                return len(calls) == 1 and lib.tail(mir.fn_name(calls[0][2]), 2) == "ReactorHandle::sys_command" \
                    and all(x[0] == "arg" and x[1] == 2 for x in origins(cb, calls[0][1]["args"][0]))
    return False


def _rtype_key(body, op):
    """canonical reaction type: (variant, key) when built locally, else origin set"""
    os_ = origins(body, op)
    out = set()
    for o in os_:
        if o[0] == "agg":
            agg = body.blocks[o[1]]["stmts"][o[2]]["rv"]["agg"]
            if agg["kind"] == "adt":
                out.add((agg["vname"],) + tuple(_key_of(body, x) for x in agg["ops"]))
                continue
        out.add(tuple(o))
    return tuple(sorted(out, key=str))


# ---------------------------------------------------------------------------------------------------------------
# length expressions

def len_sources(prog, body, op, depth=0):
    """decompose a usize operand into the multiset of collection sources whose lengths are summed.
    Returns list of sources, or None when some summand is not understood."""
    if depth > 12:
        return None
    if "const" in op:
        return [] if lib.const_val(op) == 0 else None
    p = op_place(op)
    if p is None:
        return None
    # tuple field of a checked add: (AddWithOverflow(a, b)).0
    l = p["l"]
    ds = [d for d in body.defs.get(l, []) if d[0] in ("stmt", "call")]
    if len(ds) != 1:
        return None
    d = ds[0]
    if d[0] == "stmt":
        rv = d[3]
        if "bin" in rv and rv["bin"]["op"] in ("Add", "AddWithOverflow", "AddUnchecked"):
            a = len_sources(prog, body, rv["bin"]["l"], depth + 1)
            b = len_sources(prog, body, rv["bin"]["r"], depth + 1)
            if a is None or b is None:
                return None
            return a + b
        if "use" in rv:
            return len_sources(prog, body, rv["use"], depth + 1)
        return None
    t = d[2]
    fr = op_fn(t["func"])
    if fr is None:
        return None
    name = mir.fn_name(fr)
    t1, t2 = lib.tail(name, 1), lib.tail(name, 2)
    if t1 in ("unwrap_or_default",) or (t1 == "unwrap_or" and len(t["args"]) > 1 and lib.const_val(t["args"][1]) == 0):
        return len_sources(prog, body, t["args"][0], depth + 1)
    if t2 in ("Option::map", "Result::map") or t1 == "map_or":
        # closure applied to the receiver's payload
        clo_op = t["args"][-1]
        recv_src = coll_source(body, t["args"][0])
        cpath = None
        caps = []
        for o in origins(body, clo_op):
            if o[0] == "agg":
                agg = body.blocks[o[1]]["stmts"][o[2]]["rv"]["agg"]
                if agg["kind"] == "closure":
                    cpath, caps = agg["closure"], agg["ops"]
        cb = prog.body(cpath) if cpath else None
        if cb is None:
            # `map_or(0, Vec::len)` / `map(Vec::len)`: a len function item applied to the receiver's payload
            fa = op_fn(clo_op)
            if fa is not None and lib.tail(mir.fn_name(fa), 1) == "len" and recv_src is not None and \
                    (t1 != "map_or" or (len(t["args"]) > 2 and lib.const_val(t["args"][1]) == 0)):
                return [recv_src]
            return None
        return _closure_len(prog, cb, recv_src, body, caps)
    if t1 in ("len", "count"):
        if t2 == "EntityReactors::count" or _er_role(body, fr) == "count":
            src = coll_source(body, {"copy": {"l": l, "p": []}})
            return [src] if src else None
        src = coll_source(body, t["args"][0])
        return [src] if src else None
    return None


def _closure_len(prog, cb, param_src, parent, caps):
    """length expression returned by a one-parameter combinator closure whose parameter denotes `param_src`"""
    # find what _0 is assigned from
    for b in cb.return_blocks():
        pass
    for bb in sorted(cb.reachable):
        t = cb.blocks[bb]["term"]
        if t["k"] == "call" and not t["dest"]["p"] and t["dest"]["l"] == 0:
            fr = op_fn(t["func"])
            if fr is None:
                return None
            t1, t2 = lib.tail(mir.fn_name(fr), 1), lib.tail(mir.fn_name(fr), 2)
            recv_is_param = all(o[0] == "arg" and o[1] == 2 for o in origins(cb, t["args"][0]))
            if not recv_is_param or param_src is None:
                return None
            if t2 == "EntityReactors::count" or _er_role(cb, fr) == "count":
                ent = param_src[1] if param_src[0] == "entity_component" else ("?",)
                # rtype comes from a capture: map back to the parent's operand
                rk = None
                for o in origins(cb, t["args"][1]):
                    if o[0] == "arg" and o[1] == 1 and len(o) >= 3 and o[2].lstrip(".").isdigit():
                        idx = int(o[2].lstrip("."))
                        if idx < len(caps):
                            rk = _rtype_key(parent, caps[idx])
                return [("entity", ent, rk)]
            if t1 == "len":
                return [param_src]
            return None
    return None

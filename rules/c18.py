"""C18 - Stale references are harmless (DESIGN.md section 4, C18).
Decides: no panicking entity/component lookup and no missing release on the stale-target paths of the framework's own
deferred code."""
import mir
from mir import op_fn, op_place, origins
import lib
import tables as T
import anchors as A
import core

EXPLANATION = (
    "Scope: every crate function reachable (call graph, closures and fn items included, depth 6) from a deferred-execution "
    "root of the reactivity module: the Command::apply impls, every system handed to the syscall family, every closure "
    "given to Commands::queue, the start/end functions reified into setup/cleanup, the callbacks stored by the crate, the "
    "garbage collector and the poll. In that scope every entity / component lookup is a fallible API, or a panicking one "
    "(frozen deny-list for Bevy 0.15) at a point dominated by a successful liveness check of the same entity in the same "
    "function; unwrap/expect is never applied to the result of such a lookup; deferred inserts are try_insert unless "
    "issued behind a liveness check inside an apply-time system. The runner aborts (never runs) on every lookup-failure "
    "arm and the abort helper releases the payload (shared with C02.a / C05.d); revocation touches only the matching "
    "entry (shared with C06.b).")

NOT_DECIDED = [
    "'every operation x every despawn point' as a product: the rule covers every lookup site, the finite set the product projects onto",
    "reader-side documented panics (read(), entity(), EntityLocal::get, single*) and missing-plugin panics are API contract, not stale-reference handling",
]

ENTITY_PANICKING = {"World::entity", "World::entity_mut", "Commands::entity", "Query::single", "Query::single_mut",
                    "World::many_entities", "World::many_entities_mut", "Query::many", "Query::many_mut", "Query::component", "Query::component_mut"}
LIVENESS = {"Query::get", "Query::get_mut", "Commands::get_entity", "World::get_entity", "World::get_entity_mut", "Query::contains"}


def deferred_roots(prog):
    roots = {}
    def add(b, why):
        if b is not None and b.path not in roots:
            roots[b.path] = (b, why)
    for ap in A.command_apply_impls(prog):
        if "react::" in ap.path:
            add(ap, "Command::apply")
    for body in prog.bodies:
        if "react::" not in body.path and "ecs::auto_despawn" not in body.path:
            continue
        for b, t, fr in body.iter_calls():
            if fr is None:
                continue
            n1, n2 = lib.tail(mir.fn_name(fr), 1), lib.tail(mir.fn_name(fr), 2)
            if n1 in ("syscall", "syscall_with_validation", "syscall_once", "syscall_once_with_validation"):
                for a in t["args"]:
                    fa = op_fn(a)
                    fb = prog.resolve_local(fa) if fa else None
                    if fb is not None and fb.kind != "closure" and lib.tail(fb.path, 1) != "validate_rc":
                        add(fb, "system given to %s" % n1)
                    cc = closure_of(prog, body, a)
                    if cc is not None:
                        add(cc, "closure system given to %s" % n1)
            if n2 == "Commands::queue" and len(t["args"]) > 1:
                cc = closure_of(prog, body, t["args"][1])
                if cc is not None:
                    add(cc, "closure given to Commands::queue")
            if n2 in ("SystemCommandSetup::new", "SystemCommandCleanup::new", A.names(prog)["setup_new"], A.names(prog)["cleanup_new"]):
                for a in t["args"]:
                    for o in origins(body, a):
                        if o[0] == "fnitem":
                            fbs = prog.find(o[1]) or ([prog.by_path[o[1]]] if o[1] in prog.by_path else [])
                            for fb in fbs:
                                add(fb, "reified into %s" % n2)
            if n2 == "SystemCommandCallback::with":
                cc = closure_of(prog, body, t["args"][0])
                if cc is not None:
                    add(cc, "stored callback")
                    for c2 in prog.bodies:
                        if c2.kind == "closure" and c2.raw.get("parent") == body.path and c2.path != cc.path:
                            add(c2, "closure captured by stored callback")
    for nm in (A.TABLE["gc"], A.TABLE["poll"]):
        try:
            add(A.free_fn(prog, nm), "scheduled system")
        except mir.AnchorLost:
            pass
    return roots


def closure_of(prog, body, op):
    for o in origins(body, op):
        if o[0] == "agg" and len(o) == 3:
            ag = body.blocks[o[1]]["stmts"][o[2]]["rv"]["agg"]
            if ag["kind"] == "closure":
                return prog.body(ag["closure"])
    c = mir.op_closure_const(op)
    if c:
        return prog.body(c)
    return None


def scope(prog, roots):
    seen = {}
    stack = [(b, 0) for b, why in roots.values()]
    while stack:
        b, d = stack.pop()
        if b.path in seen and seen[b.path] <= d:
            continue
        seen[b.path] = d
        if d >= 6:
            continue
        for c in prog.local_callees(b):
            cb = prog.by_path[c]
            if "react::" not in cb.path and "ecs::auto_despawn" not in cb.path and "ecs::callbacks" not in cb.path:
                continue
            stack.append((cb, d + 1))
    return [prog.by_path[p] for p in sorted(seen)]


def liveness_heads(body, ent_origins):
    """blocks entered after a successful liveness check of the same entity in this function"""
    heads = []
    for b, t, fr in body.iter_calls():
        if fr is None or lib.tail(mir.fn_name(fr), 2) not in LIVENESS or len(t["args"]) < 2:
            continue
        if {tuple(o) for o in origins(body, t["args"][1])} != ent_origins:
            continue
        for (sb, ok_t, fail_t) in lib.result_arms(body, b):
            heads.append(ok_t)
        for (sb, tt, ft) in lib.bool_arms(body, b):
            heads.append(tt)
    return heads


WORLD_SAFE = T.FALLIBLE_LOOKUPS | ENTITY_PANICKING | {"World::resource", "World::resource_mut", "World::get_resource", "World::get_resource_mut",
                                                  "World::contains_resource", "World::commands", "World::entities"}


def world_call_between(body, head, use):
    """a call that hands out &mut World (and so may despawn anything) lies between the liveness check and the use"""
    after_head = body.reach_from(head)
    for b, t, fr in body.iter_calls():
        if b == use or b not in after_head or use not in body.reach_from(b):
            continue
        if fr is not None and lib.tail(mir.fn_name(fr), 2) in WORLD_SAFE:
            continue
        for a in t["args"]:
            p = op_place(a)
            if p is not None and body.local_ty(p["l"]).startswith("&mut bevy_ecs::world::World") and not p["p"]:
                return b
    return None


def live_at(body, b, ent):
    for h in liveness_heads(body, ent):
        if body.dominates(h, b) and world_call_between(body, h, b) is None:
            return True
    return False


def fresh_entity(body, op):
    """the entity operand is the id of an entity spawned in this function"""
    os_ = origins(body, op)
    if not os_:
        return False
    for o in os_:
        if o[0] != "call":
            return False
        t = body.blocks[o[1]]["term"]
        fr = op_fn(t["func"])
        if not fr or lib.tail(mir.fn_name(fr), 1) != "id":
            return False
        for o2 in origins(body, t["args"][0]):
            fr2 = op_fn(body.blocks[o2[1]]["term"]["func"]) if o2[0] == "call" else None
            if not fr2 or lib.tail(mir.fn_name(fr2), 2) not in ("Commands::spawn_empty", "Commands::spawn", "World::spawn", "World::spawn_empty"):
                return False
    return True


def check(ctx):
    ctx.explanation = EXPLANATION
    ctx.not_decided = NOT_DECIDED
    prog = ctx.prog
    import c02, c05, c06
    roots = deferred_roots(prog)
    ctx.floor("C18.a", len(roots), 25, "deferred-execution roots")
    fns = scope(prog, roots)
    ctx.floor("C18.a", len(fns), 60, "functions in the deferred scope")
    n_lookups = n_panicking = 0
    for f in fns:
        ctx.touch(f, calls=len(list(f.iter_calls())))
        fk = lib.fkey(f)
        for b, t, fr in f.iter_calls():
            if fr is None:
                continue
            n2 = lib.tail(mir.fn_name(fr), 2)
            if n2 in T.FALLIBLE_LOOKUPS:
                n_lookups += 1
                # its result must not be unwrapped
                for b2, t2, fr2 in f.iter_calls():
                    if fr2 and lib.tail(mir.fn_name(fr2), 2) in T.UNWRAPS and t2["args"] and lib.originates_from_call(f, t2["args"][0], b):
                        ctx.fail("C18.a", "%s:%s-unwrapped" % (fk, n2), f.loc(b2), "the result of the fallible lookup %s is unwrapped: a stale entity or missing component panics" % n2)
            if n2 in ENTITY_PANICKING:
                n_panicking += 1
                if len(t["args"]) > 1:
                    ent = {tuple(o) for o in origins(f, t["args"][1])}
                    ok = live_at(f, b, ent) or fresh_entity(f, t["args"][1])
                else:
                    ok = False
                ctx.check(ok, "C18.a", "%s:%s" % (fk, n2), f.loc(b), "panicking lookup dominated by a liveness check of the same entity (or a freshly spawned id)",
                          "%s panics when the entity is gone and is not dominated by a liveness check of the same entity in this deferred-path function" % n2)
            if n2 in T.PANICKING_DEFERRED:
                n_panicking += 1
                ent_ok = False
                for o in origins(f, t["args"][0]):
                    if o[0] == "call":
                        t0 = f.blocks[o[1]]["term"]
                        fr0 = op_fn(t0["func"])
                        if fr0 and lib.tail(mir.fn_name(fr0), 2) in ("Commands::get_entity",):
                            arms = lib.result_arms(f, o[1])
                            ent_ok = bool(arms) and f.dominates(arms[0][1], b)
                        elif fr0 and lib.tail(mir.fn_name(fr0), 2) == "Commands::entity" and len(t0["args"]) > 1:
                            ent = {tuple(x) for x in origins(f, t0["args"][1])}
                            ent_ok = live_at(f, b, ent)
                ent_ok = ent_ok and f.path in roots and f.raw.get("reachable") is not True
                ctx.check(ent_ok, "C18.a", "%s:%s" % (fk, n2), f.loc(b), "deferred insert issued behind a liveness check inside a private apply-time system",
                          "%s panics at apply time when the entity is gone; use try_insert or check liveness in the same apply-time system" % n2)
        # panics reached on the failure arm of an entity / component lookup (stale-target paths)
        fail_heads = []
        for b, t, fr in f.iter_calls():
            if fr and lib.tail(mir.fn_name(fr), 2) in T.FALLIBLE_LOOKUPS and lib.tail(mir.fn_name(fr), 2) not in ("World::get_resource", "World::get_resource_mut", "World::contains_resource", "World::remove_resource", "World::get_resource_or_insert_with"):
                for (sb, ok_t, fail_t) in lib.result_arms(f, b):
                    fail_heads.append((fail_t, lib.tail(mir.fn_name(fr), 2)))
        for b in f.diverging_blocks():
            hit = [n for (h, n) in fail_heads if f.dominates(h, b)]
            ctx.check(not hit, "C18.a", "%s:panic-on-lookup-failure" % fk, f.loc(b), "",
                      "a panic is reached on the failure arm of %s: a stale entity / missing component panics instead of being ignored" % hit)
    ctx.ok("C18.a", "scope:lookups-classified", "", "%d fallible lookups, %d panicking lookup sites checked in %d functions from %d roots" % (n_lookups, n_panicking, len(fns), len(roots)))
    ctx.floor("C18.a", n_lookups, 15, "fallible entity/component lookups in the deferred scope")
    ctx.sample({"roots": sorted("%s (%s)" % (lib.fkey(b), why) for b, why in roots.values())[:40]})

    # ---- C18.b call-time checks do not stand in for apply-time checks ----
    n_ins = 0
    in_scope = {f.path for f in fns}
    for body in prog.bodies:
        if "react::" not in body.path:
            continue
        for b, t, fr in body.iter_calls():
            if fr is None:
                continue
            n2 = lib.tail(mir.fn_name(fr), 2)
            if n2 in T.PANICKING_DEFERRED or n2 in ("EntityCommands::try_insert",):
                n_ins += 1
                if n2 in T.PANICKING_DEFERRED and (body.path not in roots or body.raw.get("reachable") is True):
                    ctx.fail("C18.b", "%s:%s" % (lib.fkey(body), n2), body.loc(b),
                             "%s is queued by the reactivity API at call time: if the entity is despawned before the command is applied it panics (use try_insert)" % n2)
                elif n2 == "EntityCommands::try_insert":
                    ctx.ok("C18.b", "%s:try_insert" % lib.fkey(body), body.loc(b), "deferred insert tolerates a despawned entity")
    ctx.floor("C18.b", n_ins, 4, "deferred insert sites in the reactivity module")

    # ---- C18.c payload released when the target is gone; nothing runs for a dead system ----
    n = core.adopt(ctx, c02, lambda o: o["rule"] == "C02.a" and any(k in o["key"] for k in ("single-disposition", "dispositions=", "abort-only", "run-on-take-some-arm")), "C18.c")
    n += core.adopt(ctx, c05, lambda o: o["rule"] == "C05.d", "C18.c")
    # a target whose last handle was released is collected *before* it is looked up (else it runs once more on behalf of a
    # reactor that is already gone): the entry pass dominates the lookup (shared with C08.e)
    import c08 as _c08
    n += core.adopt(ctx, _c08, lambda o: o["rule"] == "C08.e" and "runner:collects-and-polls-before-every-lookup" in o["key"], "C18.c")
    # a scheduled reaction whose reactor is gone still goes through the runner (whose abort arm releases the payload share):
    # the command's apply calls the runner exactly once on every path
    n += core.adopt(ctx, c02, lambda o: o["rule"] == "C02.d" and "one-runner-call-per-path" in o["key"], "C18.c")
    ctx.floor("C18.c", n, 5, "shared abort/release obligations")
    # the abort helper runs nothing
    try:
        H = A.abort_helper(prog)
        runs = [b for f in prog.reachable_bodies([H], depth=2) for b, t, fr in f.iter_calls() if fr and lib.tail(mir.fn_name(fr), 2) == A.names(prog)["callback_run"]]
        ctx.check(not runs, "C18.c", "abort-helper:runs-no-system", "%s:%d" % (H.file, H.line), "", "the abort path runs a stored callback")
    except mir.AnchorLost as e:
        ctx.fail("C18.c", "anchor-lost:abort helper", "", str(e))
    # ---- C18.e a trigger for a dead target dispatches nothing (shared with C14.d) and a run whose system despawned
    #      itself still replays / aborts what was postponed for it (shared with C02.c) ----
    import c14
    n = core.adopt(ctx, c14, lambda o: o["rule"] == "C14.d", "C18.e")
    n += core.adopt(ctx, c02, lambda o: o["rule"] == "C02.c" and any(k in o["key"] for k in ("run-path-always-replays", "counter-increment-always-reaches-root-test", "discard", "root-resets-counter")), "C18.e")
    ctx.floor("C18.e", n, 6, "shared void-trigger and run-path obligations (C14.d, C02.c)")
    # ---- C18.d other registrations untouched ----
    n = core.adopt(ctx, c06, lambda o: o["rule"] == "C06.b", "C18.d")
    ctx.floor("C18.d", n, 25, "shared revoke-exactness obligations")
    # a revoke whose token names a dead entity still revokes every other entry of the token (shared with C06.c)
    n = core.adopt(ctx, c06, lambda o: (o["rule"] == "C06.c" and "visits-every-token-entry" in o["key"]) or
                   (o["rule"] == "C06.a" and ("token-loop-has-no-early-exit" in o["key"] or "every-token-entry-dispatched" in o["key"])), "C18.d")
    # removing triggers that name a despawned entity leaves the other entities of the bundle handled: the per-entity cleanup of a
    # world reactor's local data skips a dead entity instead of abandoning the rest (shared with C16.c)
    import c16 as _c16
    n += core.adopt(ctx, _c16, lambda o: o["rule"] == "C16.c" and ("revoke-then-cleanup-per-entity" in o["key"] or "removes-only-when-no-entry-left" in o["key"]), "C18.d")
    ctx.floor("C18.d", n, 1, "shared token-traversal obligation (C06.c)")
    # ---- C18.f payload accounting with dead listeners: one command (and one count) per registered listener, dead or
    #      alive - the abort path releases the share of a dead one (shared with C05.a/C05.b) ----
    n = core.adopt(ctx, c05, lambda o: o["rule"] in ("C05.a", "C05.b"), "C18.f")
    ctx.floor("C18.f", n, 4, "shared reader-count obligations (C05.a/b)")
    # ---- C18.g registering a despawn trigger on a dead entity stores nothing (shared with C08.c) ----
    import c08
    n = core.adopt(ctx, c08, lambda o: o["rule"] == "C08.c" and "registers-only-live-entity" in o["key"], "C18.g")
    ctx.floor("C18.g", n, 1, "shared dead-entity registration obligation (C08.c)")

"""E1 front end: obtain the MIR fact file for /repo's *current* working tree.

Facts are cached by a hash of every file the build reads (src/, bevy_cobweb_derive/, Cargo.toml, Cargo.lock) plus
the driver binary, so any edit to /repo forces a new extraction, and 18 checks in a row share one extraction.
A compile error, a missing fact file or a stale nonce is "cannot analyse" (exit 2) - never a pass.
"""
import fcntl
import hashlib
import json
import os
import shutil
import subprocess
import sys
import time

VERIF = os.path.dirname(os.path.dirname(os.path.abspath(__file__)))
REPO = os.environ.get("COBWEB_REPO", "/repo")
WORK = os.environ.get("COBWEB_WORK", os.path.join(VERIF, ".work"))
DRIVER_DIR = os.path.join(VERIF, "driver")
DRIVER_BIN = os.path.join(DRIVER_DIR, "target", "debug", "cobweb-facts")


class CannotAnalyse(Exception):
    pass


def _sysroot():
    return subprocess.check_output(["rustc", "+nightly", "--print", "sysroot"], text=True).strip()


def build_driver():
    env = dict(os.environ, CARGO_NET_OFFLINE="true")
    r = subprocess.run(["cargo", "build", "--offline"], cwd=DRIVER_DIR, env=env, capture_output=True, text=True)
    if r.returncode != 0 or not os.path.exists(DRIVER_BIN):
        raise CannotAnalyse("driver build failed:\n" + r.stderr[-3000:])


def _iter_source_files(repo):
    roots = ["src", "bevy_cobweb_derive"]
    files = []
    for root in roots:
        base = os.path.join(repo, root)
        for dp, dn, fn in os.walk(base):
            dn[:] = sorted(d for d in dn if d != "target")
            for f in sorted(fn):
                files.append(os.path.join(dp, f))
    for f in ["Cargo.toml", "Cargo.lock"]:
        p = os.path.join(repo, f)
        if os.path.exists(p):
            files.append(p)
    return files


def source_hash(repo, features):
    h = hashlib.sha256()
    for p in _iter_source_files(repo):
        h.update(os.path.relpath(p, repo).encode())
        h.update(b"\0")
        with open(p, "rb") as fh:
            h.update(fh.read())
        h.update(b"\0")
    h.update(("features=" + ",".join(sorted(features))).encode())
    if os.path.exists(DRIVER_BIN):
        with open(DRIVER_BIN, "rb") as fh:
            h.update(hashlib.sha256(fh.read()).digest())
    return h.hexdigest()[:32]


def _extract(repo, features, out_json):
    if not os.path.exists(DRIVER_BIN):
        build_driver()
    tag = "default" if not features else "-".join(sorted(features))
    # one target dir per (repo path, feature set): scratch copies get their own fingerprints
    rid = hashlib.sha256(os.path.abspath(repo).encode()).hexdigest()[:8] if os.path.abspath(repo) != "/repo" else "repo"
    target = os.path.join(WORK, "target-%s-%s" % (rid, tag))
    base_target = os.path.join(WORK, "target-repo-%s" % tag)
    if not os.path.isdir(target) and os.path.isdir(base_target) and target != base_target:
        # scratch copies start from the warmed dependency artifacts (hard links, no extra disk)
        subprocess.run(["cp", "-al", base_target, target], check=False)
    os.makedirs(target, exist_ok=True)
    # cargo's freshness cache would skip the wrapper: drop the members' fingerprints
    fp = os.path.join(target, "debug", ".fingerprint")
    if os.path.isdir(fp):
        for d in os.listdir(fp):
            if d.startswith("bevy_cobweb"):
                shutil.rmtree(os.path.join(fp, d), ignore_errors=True)
    outdir = os.path.join(WORK, "facts_tmp_%s_%s_%d" % (rid, tag, os.getpid()))
    shutil.rmtree(outdir, ignore_errors=True)
    os.makedirs(outdir)
    nonce = "%d-%d" % (os.getpid(), time.time_ns())
    env = dict(os.environ)
    env.update({
        "LD_LIBRARY_PATH": os.path.join(_sysroot(), "lib") + (":" + env["LD_LIBRARY_PATH"] if env.get("LD_LIBRARY_PATH") else ""),
        "RUSTFLAGS": "-Zmir-opt-level=0 -Awarnings",
        "RUSTC_WORKSPACE_WRAPPER": DRIVER_BIN,
        "CARGO_TARGET_DIR": target,
        "COBWEB_FACTS_OUT": outdir,
        "COBWEB_FACTS_NONCE": nonce,
        "CARGO_NET_OFFLINE": "true",
    })
    env.pop("RUSTC_WRAPPER", None)
    cmd = ["cargo", "+nightly", "check", "--offline", "--lib", "-p", "bevy_cobweb"]
    if features:
        cmd += ["--features", ",".join(features)]
    t0 = time.time()
    r = subprocess.run(cmd, cwd=repo, env=env, capture_output=True, text=True)
    if r.returncode != 0:
        shutil.rmtree(outdir, ignore_errors=True)
        raise CannotAnalyse("cargo check of %s failed (exit %d):\n%s" % (repo, r.returncode, r.stderr[-4000:]))
    src = os.path.join(outdir, "bevy_cobweb-rlib.json")
    if not os.path.exists(src):
        shutil.rmtree(outdir, ignore_errors=True)
        raise CannotAnalyse("fact file missing after cargo check (wrapper skipped?)\n" + r.stderr[-2000:])
    with open(src) as fh:
        data = json.load(fh)
    if data.get("nonce") != nonce:
        shutil.rmtree(outdir, ignore_errors=True)
        raise CannotAnalyse("stale fact file (nonce mismatch)")
    derive = os.path.join(outdir, "bevy_cobweb_derive-procmacro.json")
    data["derive_crate"] = None
    if os.path.exists(derive):
        with open(derive) as fh:
            dd = json.load(fh)
        if dd.get("nonce") == nonce:
            data["derive_crate"] = {"n_bodies": dd["n_bodies"], "bodies": [b["path"] for b in dd["bodies"]]}
    data["extract_wall_s"] = round(time.time() - t0, 2)
    data["feature_set"] = sorted(features)
    tmp = out_json + ".tmp%d" % os.getpid()
    with open(tmp, "w") as fh:
        json.dump(data, fh)
    os.replace(tmp, out_json)
    shutil.rmtree(outdir, ignore_errors=True)
    return data


def get_facts(features=(), repo=None):
    """Returns (facts dict, meta dict). Raises CannotAnalyse."""
    repo = repo or REPO
    features = tuple(sorted(features))
    os.makedirs(os.path.join(WORK, "facts"), exist_ok=True)
    lock_path = os.path.join(WORK, "extract.lock")
    with open(lock_path, "w") as lock:
        fcntl.flock(lock, fcntl.LOCK_EX)
        if not os.path.exists(DRIVER_BIN):
            build_driver()
        h = source_hash(repo, features)
        out_json = os.path.join(WORK, "facts", h + ".json")
        cached = os.path.exists(out_json)
        if cached:
            try:
                with open(out_json) as fh:
                    data = json.load(fh)
                os.utime(out_json, None)       # least-recently-used eviction
            except Exception:
                cached = False
        if not cached:
            data = _extract(repo, features, out_json)
            # keep the cache small
            fdir = os.path.join(WORK, "facts")
            files = sorted((os.path.getmtime(os.path.join(fdir, f)), f) for f in os.listdir(fdir) if f.endswith(".json"))
            # (the thorough tier evaluates every benign variant once per property: the facts of a variant are extracted once
            # and shared by the eighteen self-validation runs; ~5 MB per tree)
            for _, f in files[:-int(os.environ.get("COBWEB_FACTS_CACHE", "1000"))]:
                try:
                    os.remove(os.path.join(fdir, f))
                except OSError:
                    pass
    meta = {"source_hash": h, "cached": cached, "features": list(features), "repo": repo,
            "extract_wall_s": data.get("extract_wall_s")}
    return data, meta


if __name__ == "__main__":
    feats = [a for a in sys.argv[1:] if not a.startswith("-")]
    try:
        d, m = get_facts(feats)
    except CannotAnalyse as e:
        print("CANNOT-ANALYSE:", e)
        sys.exit(2)
    print(json.dumps(m), d["n_bodies"], "bodies")

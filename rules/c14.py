"""C14 - Reactive accessors trigger reactions exactly as documented (DESIGN.md section 4, C14)."""
import re

import mir
from mir import op_fn, op_place, origins
import lib
import effects
import anchors as A

EXPLANATION = (
    "The trigger effect of every accessor of reactive components and resources is computed per path (interprocedural "
    "path counting; a trigger event is a syscall whose system argument is a mutation / insertion / resource-mutation "
    "scheduler): the documented reacting accessors trigger exactly once on every returning path (zero on their Err "
    "path) with the component's own entity; set_if_neq has exactly two kinds of path separated by PartialEq::eq(new, "
    "current): equal -> no trigger, no write, None; not equal -> one trigger, the stored value replaced by `new`, "
    "Some(previous); every other public accessor triggers nothing; ReactCommands::insert triggers only on the "
    "entity-found arm after try_insert of React{entity, component} for the same entity, and the deferred insertion "
    "scheduler queues reactions only behind a presence check of React<C> on that entity.")

NOT_DECIDED = ["values ('stores the value' is decided as 'the replace happens', not as equality of values)"]

SCHEDULERS = ("schedule_mutation_reaction", "schedule_insertion_reaction", "schedule_resource_mutation_reaction")

# documented reacting accessors: (type, method) -> allowed count sets
REACTING = {
    ("React", "get_mut"): {1}, ("React", "trigger_mutation"): {1},
    ("ReactiveMut", "get_mut"): {0, 1}, ("ReactiveMut", "single_mut"): {1},
    ("ReactResMut", "get_mut"): {1}, ("ReactResInner", "get_mut"): {1},
    ("ReactCommands", "trigger_resource_mutation"): {1}, ("World", "trigger_resource_mutation"): {1},
}
SET_IF_NEQ_BASE = [("React", "set_if_neq"), ("ReactResInner", "set_if_neq")]
SET_IF_NEQ_WRAPPERS = [("ReactiveMut", "set_if_neq"), ("ReactiveMut", "set_single_if_not_eq"), ("ReactResMut", "set_if_neq")]
ACCESSOR_TYPES = ("React", "Reactive", "ReactiveMut", "ReactRes", "ReactResMut", "ReactResInner")


def base_event(body, b, t, fr):
    if fr is None:
        return None
    if lib.tail(mir.fn_name(fr), 1) in effects.SYSCALL_NAMES:
        for a in t["args"]:
            fa = op_fn(a)
            if fa and lib.tail(mir.fn_name(fa), 1) in SCHEDULERS:
                return {1}
    return None


def method_of(prog, ty, name):
    out = []
    for b in prog.bodies:
        if b.kind != "assoc_fn" or b.raw.get("name") != name:
            continue
        if lib.impl_self_name(b) == ty:
            out.append(b)
    return out


def check(ctx):
    ctx.explanation = EXPLANATION
    ctx.not_decided = NOT_DECIDED
    prog = ctx.prog
    E = effects.Effects(prog, base_event)
    # ---- C14.a reacting accessors ----
    n = 0
    for (ty, name), allowed in sorted(REACTING.items()):
        ms = method_of(prog, ty, name)
        if not ms:
            ctx.fail("C14.a", "anchor-lost:%s::%s" % (ty, name), "", "accessor not found")
            continue
        for m in ms:
            n += 1
            ctx.touch(m, calls=len(list(m.iter_calls())))
            s = E.summary(m)
            key = "%s::%s:triggers-exactly-once" % (ty, name)
            ok = s <= allowed and 1 in s
            ctx.check(ok, "C14.a", key, "%s:%d" % (m.file, m.line), "trigger counts over all returning paths: %s" % sorted(s),
                      "%s::%s triggers %s times on some path (documented: exactly one trigger per call)" % (ty, name, sorted(s)))
            # a failed access does not react: no error return is reachable from a trigger (the old code left through `?`
            # before triggering; "trigger, then look the entity up" reacts for dead / component-less entities)
            if m.local_ty(0).startswith(("core::result::Result<", "core::option::Option<")):
                ev_ = E.events.get(m.path, {})
                errs_ = [b for b, i, st in m.iter_stmts() if st["k"] == "assign" and st["place"]["l"] == 0 and "agg" in st["rv"] and st["rv"]["agg"].get("vname") in ("Err", "None")]
                errs_ += [b for b, t, fr in m.iter_calls() if fr and lib.tail(mir.fn_name(fr), 1) == "from_residual"]
                # ... nor a fallible lookup (its failure would be returned after the trigger)
                for b, t, fr in m.iter_calls():
                    if fr is None or b in ev_ or not m.local_ty(t["dest"]["l"]).startswith(("core::result::Result<", "core::option::Option<")):
                        continue
                    cb_ = prog.resolve_local(fr)
                    if lib.tail(mir.fn_name(fr), 2) in ("Query::get_mut", "Query::get", "Query::get_single_mut", "Query::get_single", "Query::get_many_mut") \
                            or (cb_ is not None and cb_.local_ty(0).startswith(("core::result::Result<", "core::option::Option<"))):
                        errs_.append(b)
                hit = [(e_, r_) for e_ in ev_ for r_ in errs_ if r_ in m.reach_from(e_) and r_ != e_]
                ctx.check(not hit, "C14.a", "%s::%s:no-trigger-on-failed-access" % (ty, name), m.loc(hit[0][0]) if hit else "%s:%d" % (m.file, m.line),
                          "no error return is reachable from a trigger", "%s::%s can trigger a reaction and then fail the access (returns Err/None): a reaction "
                          "runs for an entity that was not accessed" % (ty, name))
            if s == {0, 1}:
                # zero only on the error return
                ev = E.events.get(m.path, {})
                errs = [b for b, i, st in m.iter_stmts() if st["k"] == "assign" and st["place"]["l"] == 0 and "agg" in st["rv"] and st["rv"]["agg"].get("vname") == "Err"]
                errs += [b for b, t, fr in m.iter_calls() if fr and lib.tail(mir.fn_name(fr), 1) == "from_residual"]
                w = lib.path_to_return_avoiding(m, [0], set(ev) | set(errs))
                ctx.check(w is None, "C14.a", "%s::%s:no-trigger-only-on-error-return" % (ty, name), "%s:%d" % (m.file, m.line),
                          "paths without a trigger return Err", "a successful path returns the mutable reference without triggering", lib.render_path(m, w) if w else None)
    ctx.floor("C14.a", n, 8, "reacting accessors")
    # the trigger carries the component's own entity
    for (ty, name) in (("React", "get_mut"), ("React", "set_if_neq")):
        for m in method_of(prog, ty, name):
            for b, t, fr in m.iter_calls():
                if base_event(m, b, t, fr):
                    os_ = origins(m, t["args"][1])
                    ctx.check(bool(os_) and all(o[0] == "arg" and o[1] == 1 and o[-1] == ".entity" for o in os_), "C14.a",
                              "%s::%s:triggers-for-own-entity" % (ty, name), m.loc(b), "trigger input is self.entity",
                              "the mutation trigger is sent for %s, not the component's own entity" % lib.origin_str(os_))
    # ---- C14.b set_if_neq ----
    for (ty, name) in SET_IF_NEQ_BASE:
        for m in method_of(prog, ty, name):
            ctx.touch(m)
            set_if_neq(ctx, prog, E, m, "%s::%s" % (ty, name))
    for (ty, name) in SET_IF_NEQ_WRAPPERS:
        ms = method_of(prog, ty, name)
        if not ms:
            ctx.fail("C14.b", "anchor-lost:%s::%s" % (ty, name), "", "wrapper not found")
        for m in ms:
            ctx.touch(m)
            base = [b for b, t, cb in lib.local_call_bodies(prog, m) if (lib.impl_self_name(cb), cb.raw.get("name")) in SET_IF_NEQ_BASE]
            c, _, _ = lib.event_counts(m, base)
            own = [b for b, t, fr in m.iter_calls() if base_event(m, b, t, fr)]
            ctx.check(c <= {0, 1} and 1 in c and not own, "C14.b", "%s::%s:delegates-once" % (ty, name), "%s:%d" % (m.file, m.line),
                      "delegates to the base set_if_neq at most once and triggers nothing itself",
                      "wrapper calls the base set_if_neq %s times / triggers on its own" % sorted(c))
    # ---- C14.c non-reacting accessors ----
    reacting = set(REACTING) | set(SET_IF_NEQ_BASE) | set(SET_IF_NEQ_WRAPPERS)
    nz = 0
    for b in prog.bodies:
        if b.kind != "assoc_fn":
            continue
        ty = lib.impl_self_name(b)
        name = b.raw.get("name")
        is_ext = (b.raw.get("impl_trait") or "").endswith(("ReactResWorldExt", "ReactResAppExt", "ReactResCommandsExt"))
        if ty not in ACCESSOR_TYPES and not is_ext:
            continue
        if (ty, name) in reacting or ((ty, name) == ("World", "trigger_resource_mutation")):
            continue
        nz += 1
        ctx.touch(b)
        s = E.summary(b)
        ctx.check(s <= {0}, "C14.c", "%s::%s:never-triggers" % (ty, name), "%s:%d" % (b.file, b.line), "no trigger reachable",
                  "%s::%s is documented as non-reacting but reaches a trigger (counts %s)" % (ty, name, sorted(s)))
    ctx.floor("C14.c", nz, 25, "non-reacting accessors")
    # ---- C14.d insert ----
    ins = method_of(prog, "ReactCommands", "insert")
    if not ins:
        ctx.fail("C14.d", "anchor-lost:ReactCommands::insert", "", "")
    for m in ins:
        ctx.touch(m)
        ge = [b for b, t, fr in m.iter_calls() if fr and lib.tail(mir.fn_name(fr), 2) == "Commands::get_entity"]
        ti = [(b, t, lib.tail(mir.fn_name(fr), 2)) for b, t, fr in m.iter_calls() if fr and lib.tail(mir.fn_name(fr), 2) in ("EntityCommands::try_insert", "EntityCommands::insert")]
        tr = [(b, t) for b, t, fr in m.iter_calls() if base_event(m, b, t, fr)]
        ok = len(ge) == 1 and len(ti) == 1 and len(tr) == 1
        if ok:
            arms = lib.result_arms(m, ge[0])
            ok = bool(arms) and m.dominates(arms[0][1], ti[0][0]) and m.dominates(ti[0][0], tr[0][0])
            ent = {tuple(o) for o in origins(m, m.blocks[ge[0]]["term"]["args"][1])}
            ok = ok and {tuple(o) for o in origins(m, tr[0][1]["args"][1])} == ent
            ag = None
            for o in origins(m, ti[0][1]["args"][1]):
                if o[0] == "agg":
                    ag = m.blocks[o[1]]["stmts"][o[2]]["rv"]["agg"]
            ok = ok and ag is not None and ag.get("adt", "").endswith("::React") and {tuple(o) for o in origins(m, ag["ops"][ag["fields"].index("entity")])} == ent
        ctx.check(ok, "C14.d", "ReactCommands::insert:trigger-after-try_insert-on-found-entity", "%s:%d" % (m.file, m.line),
                  "get_entity found arm -> try_insert(React{entity, ..}) -> insertion trigger, all for the same entity",
                  "ReactCommands::insert does not trigger exactly after inserting React{entity,..} on the found entity")
    sir = method_of(prog, "ReactCache", "schedule_insertion_reaction")
    if not sir:
        ctx.fail("C14.d", "anchor-lost:schedule_insertion_reaction", "", "")
    for m in sir:
        ctx.touch(m)
        queues = []
        for b, t, fr in m.iter_calls():
            if fr is None:
                continue
            n2 = lib.tail(mir.fn_name(fr), 2)
            if n2 == "Commands::queue" and any("ReactionCommand" in a for a in fr.get("args", [])):
                queues.append(b)
            if _is_entity_scheduler(prog, fr):
                queues.append(b)
            if n2 == "Vec::push" and any("ReactionCommand" in a for a in fr.get("args", [])):
                queues.append(b)      # the shared entity scheduler inlined: it buffers the command here
        heads = []
        for b, t, fr in m.iter_calls():
            if fr and lib.tail(mir.fn_name(fr), 2) in ("Query::contains", "Query::get", "Query::get_mut") and len(t["args"]) > 1:
                qty = m.local_ty(op_place(t["args"][0])["l"]) if op_place(t["args"][0]) else ""
                # the query is over / filtered by React<C>
                recv_os = origins(m, t["args"][0])
                qtys = {m.local_ty(o[1]) for o in recv_os if o[0] == "arg"}
                if not any(re.search(r"react_component::React<C>", q) for q in qtys | {qty}):
                    continue
                if not all(o[0] == "arg" and o[1] == 1 for o in origins(m, t["args"][1])):
                    continue
                for (sb, tt, ft) in lib.bool_arms(m, b):
                    heads.append(tt)
                for (sb, ok_t, fail_t) in lib.result_arms(m, b):
                    heads.append(ok_t)
        ctx.floor("C14.d", len(queues), 3, "insertion reaction queue sites")
        bad = [b for b in queues if not lib.dominated_by_any(m, b, heads)]
        ctx.check(not bad, "C14.d", "ReactCache::schedule_insertion_reaction:insertion-queued-without-liveness", m.loc(bad[0]) if bad else "%s:%d" % (m.file, m.line),
                  "every insertion reaction is queued behind a presence check of React<C> on the entity (%d sites)" % len(queues),
                  "insertion reactions are queued without checking that React<C> is present on the entity: if the entity was despawned before the "
                  "deferred insert was applied the component was never inserted, yet insertion reactors run")
    ctx.touch(None, states=E.states)
    # ---- C14.g the system a trigger is handed to IS the cache's scheduler (or forwards to it on every path): a wrapper
    #      system with an early return silently drops triggers; and every site that queues the insertion scheduler has
    #      unconditionally (try_)inserted the component first ----
    nw = 0
    for body in prog.bodies:
        for b, t, fr in body.iter_calls():
            if fr is None or lib.tail(mir.fn_name(fr), 1) not in effects.SYSCALL_NAMES:
                continue
            for a in t["args"]:
                fa = op_fn(a)
                if not fa or lib.tail(mir.fn_name(fa), 1) not in SCHEDULERS:
                    continue
                nw += 1
                tgt = prog.resolve_local(fa)
                if tgt is not None and lib.impl_self_name(tgt) != "ReactCache" and tgt.kind in ("fn", "assoc_fn"):
                    fw = [b2 for b2, t2, fr2 in tgt.iter_calls() if fr2 and lib.tail(mir.fn_name(fr2), 1) in effects.SYSCALL_NAMES
                          and any(op_fn(a2) and lib.tail(mir.fn_name(op_fn(a2)), 1) in SCHEDULERS and prog.resolve_local(op_fn(a2)) is not None
                                  and lib.impl_self_name(prog.resolve_local(op_fn(a2))) == "ReactCache" for a2 in t2["args"])]
                    w_ = lib.path_to_return_avoiding(tgt, [0], fw)
                    ctx.check(bool(fw) and w_ is None, "C14.g", "%s:forwards-every-trigger-to-the-cache" % lib.fkey(tgt), "%s:%d" % (tgt.file, tgt.line),
                              "the intermediate system forwards to the cache scheduler on every path",
                              "%s is queued as the trigger's system but can return without forwarding to the ReactCache scheduler (the trigger is dropped)" % lib.fkey(tgt),
                              lib.render_path(tgt, w_) if w_ else None)
                if lib.tail(mir.fn_name(fa), 1) == "schedule_insertion_reaction" and body.kind in ("fn", "assoc_fn"):
                    ins_ = [(b2, lib.tail(mir.fn_name(fr2), 2)) for b2, t2, fr2 in body.iter_calls() if fr2 and lib.tail(mir.fn_name(fr2), 2).startswith("EntityCommands::")
                            and "insert" in lib.tail(mir.fn_name(fr2), 1)]
                    okc = bool(ins_) and all(nm in ("EntityCommands::try_insert", "EntityCommands::insert") for _, nm in ins_) and any(body.dominates(b2, b) for b2, _ in ins_)
                    ctx.check(okc, "C14.g", "%s:insertion-trigger-only-after-unconditional-insert" % lib.fkey(body), body.loc(b),
                              "the insertion trigger follows an unconditional (try_)insert of the component",
                              "%s queues insertion reactions after %s: the component may not have been inserted (e.g. insert-if-new on an entity that already has it)" % (lib.fkey(body), [nm for _, nm in ins_]))
    ctx.floor("C14.g", nw, 4, "sites that hand a scheduler to a syscall")
    # ---- C14.e a trigger issued by an accessor is not made void behind the accessor's back: the registrations the
    #      trigger is dispatched to are deleted from their table only when they are really gone (shared with C06.f) ----
    import core, c06
    n = core.adopt(ctx, c06, lambda o: o["rule"] == "C06.f", "C14.e")
    ctx.notes.append("C14.e adopts %d entry-deletion obligations (C06.f)" % n)
    # ---- C14.f every trigger issued is delivered: the reaction command reaches the runner exactly once on every path, and
    #      every postponed delivery is replayed (shared with C02.d / C02.c) - "any number of calls per system run" ----
    import c02
    nf = core.adopt(ctx, c02, lambda o: (o["rule"] == "C02.d" and "one-runner-call-per-path" in o["key"])
                    or (o["rule"] == "C02.c" and ("::replay:" in o["key"] or "replay-present" in o["key"])), "C14.f")
    ctx.floor("C14.f", nf, 8, "shared delivery obligations (C02.c/d)")
    # ... and dispatched: the dispatch loops of the schedulers the accessors trigger cannot be skipped while their list is
    # non-empty (a listener-count fast path that under-counts drops triggers)
    import c01 as _c01
    nl = core.adopt(ctx, _c01, lambda o: o["rule"] == "C01.b" and any(k in o["key"] for k in ("schedule_mutation_reaction", "schedule_insertion_reaction", "schedule_resource_mutation_reaction")), "C14.f")
    ctx.floor("C14.f", nl, 6, "shared dispatch-loop obligations of the schedulers the accessors trigger (C01.b)")
    # ... by a loop over the registration list itself (one command per registration, read when the trigger is applied - not a
    # count taken earlier and an index walked later, which skips an entry when a reactor revokes itself during delivery)
    nd_ = core.adopt(ctx, _c01, lambda o: (o["rule"] == "C01.a" and o["key"].endswith(":dispatched") and any(k in o["key"] for k in (
        "InsertionTrigger", "MutationTrigger", "ResourceMutationTrigger"))) or (o["rule"] == "C01.b" and "anchor-lost" in o["key"]), "C14.f")
    ctx.floor("C14.f", nd_, 5, "shared dispatch obligations of the accessor-triggered kinds (C01.a)")


def _is_entity_scheduler(prog, fr):
    try:
        return prog.resolve_local(fr) is A.entity_scheduler(prog)[0]
    except mir.AnchorLost:
        return lib.tail(mir.fn_name(fr), 1) == "schedule_entity_reaction_impl"


def set_if_neq(ctx, prog, E, m, label):
    eqs = [(b, t, fr) for b, t, fr in m.iter_calls() if fr and lib.tail(mir.fn_name(fr), 1) in ("eq", "ne") and len(t["args"]) >= 2]
    cmp_ = None
    for b, t, fr in eqs:
        o0, o1 = origins(m, t["args"][0]), origins(m, t["args"][1])
        both = o0 | o1
        if any(o[0] == "arg" and o[1] == 3 for o in both) and any(o[0] == "arg" and o[1] == 1 and len(o) == 3 for o in both):
            cmp_ = (b, fr)
    if cmp_ is None:
        ctx.fail("C14.b", "%s:anchor-lost:comparison" % label, "%s:%d" % (m.file, m.line), "no PartialEq comparison of `new` with the stored value")
        return
    arms = lib.bool_arms(m, cmp_[0])
    if not arms:
        ctx.fail("C14.b", "%s:anchor-lost:branch" % label, m.loc(cmp_[0]), "comparison result not branched on")
        return
    sb, tt, ft = arms[0]
    eq_t, ne_t = (tt, ft) if lib.tail(mir.fn_name(cmp_[1]), 1) == "eq" else (ft, tt)
    ev = E.events.get(m.path) or (E.summary(m) and E.events.get(m.path, {}))
    # nothing triggers before the comparison
    pre = [b for b in ev if not m.dominates(eq_t, b) and not m.dominates(ne_t, b)]
    ctx.check(not pre, "C14.b", "%s:no-trigger-before-comparison" % label, m.loc(cmp_[0]), "", "a trigger is issued before (independently of) the comparison")
    ceq = E.count_from(m, eq_t)
    cne = E.count_from(m, ne_t)
    ctx.check(ceq == {0}, "C14.b", "%s:equal-path-no-trigger" % label, m.loc(eq_t), "equal -> 0 triggers", "the equal path triggers %s times" % sorted(ceq))
    ctx.check(cne == {1}, "C14.b", "%s:changed-path-one-trigger" % label, m.loc(ne_t), "not equal -> exactly 1 trigger", "the not-equal path triggers %s times" % sorted(cne))
    reps = [(b, t) for b, t, fr in m.iter_calls() if fr and lib.tail(mir.fn_name(fr), 2) in ("mem::replace", "mem::swap")]
    writes = [b for b, i, adt, f, rv in lib.field_writes(m)]
    eq_region = m.reach_from(eq_t)
    ctx.check(not any(b in eq_region for b, t in reps) and not any(b in eq_region for b in writes), "C14.b", "%s:equal-path-no-write" % label, m.loc(eq_t),
              "", "the stored value is written on the equal path")
    okr = len(reps) == 1 and m.dominates(ne_t, reps[0][0]) and lib.originates_from_arg(m, reps[0][1]["args"][1], 3) \
        and all(o[0] == "arg" and o[1] == 1 and len(o) == 3 for o in origins(m, reps[0][1]["args"][0]))
    w = lib.path_to_return_avoiding(m, [ne_t], [b for b, t in reps])
    ctx.check(okr and w is None, "C14.b", "%s:changed-path-replaces-stored-value-with-new" % label, m.loc(ne_t),
              "mem::replace(&mut self.<value>, new) on every not-equal path", "the not-equal path does not store `new` with mem::replace on every path")
    # return values
    nones, somes = [], []
    for b, i, st in m.iter_stmts():
        if st["k"] != "assign" or st["place"]["l"] != 0 or st["place"]["p"]:
            continue
        ags = []
        if "agg" in st["rv"]:
            ags.append((b, st["rv"]["agg"]))
        elif "use" in st["rv"]:
            # `_0 = move <return place of an inlined helper>`: judge the aggregates that reach it, where they were built
            for o in origins(m, st["rv"]["use"]):
                if o[0] == "agg" and len(o) == 3:
                    ags.append((o[1], m.blocks[o[1]]["stmts"][o[2]]["rv"]["agg"]))
        for (ab, ag) in ags:
            if ag.get("vname") == "None":
                nones.append(ab)
            elif ag.get("vname") == "Some":
                somes.append((ab, ag))
    okv = bool(nones) and all(m.dominates(eq_t, b) for b in nones) and bool(somes) and all(m.dominates(ne_t, b) for b, a in somes)
    if okv and reps:
        okv = all(lib.originates_from_call(m, a["ops"][0], reps[0][0]) for b, a in somes)
    ctx.check(okv, "C14.b", "%s:returns-None-or-Some(previous)" % label, "%s:%d" % (m.file, m.line), "None on equal, Some(replaced value) on not equal",
              "return value is not None on the equal path and Some(previous value) on the not-equal path")

"""Rule helper primitives shared by the per-property modules (built on mir.py)."""
import re
from collections import defaultdict, deque

import mir
from mir import op_fn, op_place, origins, place_origins, callee_matches, strip_generics, fn_name


# ---------------------------------------------------------------------------------------------------------------
# name predicates

def ends(*suffixes):
    """predicate: generics-stripped path ends with one of the `::suffix`es (or equals it)"""
    def p(n):
        sn = strip_generics(n)
        for s in suffixes:
            if sn == s or sn.endswith("::" + s) or n == s or n.endswith("::" + s):
                return True
        return False
    return p


def tail(path, n=2):
    """last n segments of a generics-stripped path: `a::b::C::d` -> `C::d`"""
    sp = strip_generics(path)
    # drop leading <X as Y>:: wrappers
    m = re.match(r"^<(.+?) as (.+?)>::(.+)$", sp)
    if m:
        ty = m.group(1).split("<")[0].split("::")[-1]
        segs = [ty] + m.group(3).split("::")
        return "::".join(segs[-n:])
    parts = sp.split("::")
    return "::".join(parts[-n:])


def short(body):
    return tail(body.path, 2) if body.kind != "closure" else strip_generics(body.path).split("::", 1)[-1]


def fkey(body):
    """function key for violation keys: stable under line shifts, short"""
    sp = strip_generics(body.path)
    m = re.match(r"^<(.+?) as (.+?)>::(.+)$", sp)
    if m:
        ty = m.group(1).split("<")[0].split("::")[-1]
        tr = m.group(2).split("<")[0].split("::")[-1]
        return "<%s as %s>::%s" % (ty, tr, m.group(3))
    parts = sp.split("::")
    # keep from the first CamelCase segment or the last two segments
    for i, seg in enumerate(parts):
        if seg[:1].isupper():
            return "::".join(parts[i:])
    return "::".join(parts[-2:]) if len(parts) >= 2 else sp


# ---------------------------------------------------------------------------------------------------------------
# calls

def call_blocks(body, pred, blocks=None):
    return [b for b, t, fr in body.calls_named(pred, blocks)]


def call_sites(body, pred, blocks=None):
    return body.calls_named(pred, blocks)


def call_target(body, b):
    return body.blocks[b]["term"]["t"]


def callee_short(fr):
    return tail(fn_name(fr), 2)


def generic_args(fr):
    return fr.get("resolved_args") or fr.get("args") or []


def is_expansion(term_or_stmt, names=("tracing",)):
    e = term_or_stmt.get("exp")
    if not e:
        return False
    return any(n in e for n in names)


# ---------------------------------------------------------------------------------------------------------------
# reachability / path rules

def path_to_return_avoiding(body, starts, avoid, also_diverge=False):
    """BFS from `starts`; returns a block path to a return block that never enters `avoid`, or None.
    (must-pass-through rule: `None` means every path from starts to a return passes through avoid)"""
    avoid = set(avoid)
    prev = {}
    dq = deque()
    for s in starts:
        if s in avoid or s in prev:
            continue
        prev[s] = None
        dq.append(s)
    while dq:
        b = dq.popleft()
        k = body.blocks[b]["term"]["k"]
        if k == "return":
            path = []
            x = b
            while x is not None:
                path.append(x)
                x = prev[x]
            return list(reversed(path))
        for s in body.succ[b]:
            if s in avoid or s in prev:
                continue
            prev[s] = b
            dq.append(s)
    return None


def path_between_avoiding(body, starts, goals, avoid):
    """block path from starts to any of goals avoiding `avoid` (goals themselves may be entered)"""
    avoid = set(avoid)
    goals = set(goals)
    prev = {}
    dq = deque()
    for s in starts:
        if s in avoid or s in prev:
            continue
        prev[s] = None
        dq.append(s)
    while dq:
        b = dq.popleft()
        if b in goals:
            path = []
            x = b
            while x is not None:
                path.append(x)
                x = prev[x]
            return list(reversed(path))
        for s in body.succ[b]:
            if s in avoid or s in prev:
                continue
            prev[s] = b
            dq.append(s)
    return None


def render_path(body, path, events=None):
    out = []
    last_line = None
    for b in path:
        t = body.blocks[b]["term"]
        ln = t["line"]
        note = ""
        if events and b in events:
            note = "  <-- " + events[b]
        if t["k"] == "call" and not t.get("exp"):
            fr = op_fn(t["func"])
            out.append("bb%d %s:%d call %s%s" % (b, body.file, ln, callee_short(fr) if fr else "<indirect>", note))
        elif t["k"] in ("switch", "return") and not t.get("exp"):
            out.append("bb%d %s:%d %s%s" % (b, body.file, ln, t["k"], note))
        elif note:
            out.append("bb%d %s:%d%s" % (b, body.file, ln, note))
        last_line = ln
    return out


def event_counts(body, event_blocks, start=0, sat=2, within=None):
    """A7: for each return block, the set of possible numbers of event blocks passed (saturating at `sat`).
    Returns (set of counts over all returns, {ret_block: set}, n_states)"""
    ev = set(event_blocks)
    seen = set()
    dq = deque([(start, 0)])
    seen.add((start, 0))
    at_ret = defaultdict(set)
    while dq:
        b, c = dq.popleft()
        if b in ev:
            c = min(sat, c + 1)
        if body.blocks[b]["term"]["k"] == "return":
            at_ret[b].add(c)
        for s in body.succ[b]:
            if within is not None and s not in within:
                continue
            if (s, c) not in seen:
                seen.add((s, c))
                dq.append((s, c))
    allc = set()
    for v in at_ret.values():
        allc |= v
    return allc, dict(at_ret), len(seen)


def count_witness(body, event_blocks, want, start=0, sat=2):
    """a block path from start to a return passing exactly `want` (saturating) event blocks"""
    ev = set(event_blocks)
    prev = {(start, 0): None}
    dq = deque([(start, 0)])
    while dq:
        b, c = dq.popleft()
        c2 = min(sat, c + 1) if b in ev else c
        if body.blocks[b]["term"]["k"] == "return" and c2 == want:
            path = []
            x = (b, c)
            while x is not None:
                path.append(x[0])
                x = prev[x]
            return list(reversed(path))
        for s in body.succ[b]:
            if (s, c2) not in prev:
                prev[(s, c2)] = (b, c)
                dq.append((s, c2))
    return None


# ---------------------------------------------------------------------------------------------------------------
# switches, arms

def discr_switches(body):
    """[(block, place, targets{val:bb}, otherwise)] for every switch on discriminant(place)"""
    out = []
    for b in sorted(body.reachable):
        info = mir.switch_on(body, b)
        if info and info["kind"] == "discr":
            out.append((b, info["place"], info["targets"], info["otherwise"]))
    return out


def local_def_call(body, l):
    """the unique call that defines local l (as a whole), else None"""
    ds = [d for d in body.defs.get(l, []) if d[0] in ("call", "stmt", "arg")]
    if len(ds) == 1 and ds[0][0] == "call":
        return ds[0][1], ds[0][2]
    return None


# adapters that map the success variant to the success variant and the failure variant to the failure variant
VARIANT_PRESERVING = ("Result::map_err", "Result::map", "Option::map", "Option::ok_or", "Option::ok_or_else", "Result::ok",
                      "Option::as_mut", "Option::as_ref", "Result::as_mut", "Result::as_ref")


def result_arms(body, call_block):
    """For a call whose Option/Result/ControlFlow result is matched: returns list of
    (switch_block, ok_target, fail_target) over every discriminant switch on the call's destination (or a moved copy)."""
    t = body.blocks[call_block]["term"]
    dest = t["dest"]
    if dest["p"]:
        return []
    locals_ = {dest["l"]}
    # follow plain moves of the whole value: _x = move _dest
    changed = True
    while changed:
        changed = False
        for b, i, st in body.iter_stmts():
            if st["k"] == "assign" and not st["place"]["p"] and "use" in st["rv"]:
                p = op_place(st["rv"]["use"])
                if p and not p["p"] and p["l"] in locals_ and st["place"]["l"] not in locals_:
                    locals_.add(st["place"]["l"])
                    changed = True
        # `?`: Try::branch maps Some/Ok to Continue and None/Err to Break - the arms of the branch result are the arms of the value
        for b, t2, fr in body.iter_calls():
            if fr is not None and (fn_name(fr).endswith("::Try>::branch") or tail(fn_name(fr), 2) in VARIANT_PRESERVING) \
                    and t2["args"] and not t2["dest"]["p"]:
                p = op_place(t2["args"][0])
                if p and not p["p"] and p["l"] in locals_ and t2["dest"]["l"] not in locals_:
                    locals_.add(t2["dest"]["l"])
                    changed = True
    out = []
    for b, place, targets, otherwise in discr_switches(body):
        if place["p"] or place["l"] not in locals_:
            continue
        ty = body.local_ty(place["l"])
        ok_val = ok_discriminant(ty)
        if ok_val is None:
            continue
        if ok_val in targets:
            ok_t = targets[ok_val]
            fails = [bb for v, bb in targets.items() if v != ok_val]
            fail_t = fails[0] if fails else otherwise
        else:
            # switch lists only the failure value
            ok_t = otherwise
            fail_t = list(targets.values())[0]
        out.append((b, ok_t, fail_t))
    return out


def ok_discriminant(ty):
    if ty.startswith("core::result::Result<"):
        return 0
    if ty.startswith("core::option::Option<"):
        return 1
    if re.match(r"^core::ops(::control_flow)?::ControlFlow<", ty):
        return 0
    return None


def enum_arms(body, prog, switch_block):
    """A4: for a switch on discriminant of a crate enum: ({variant_name: target}, otherwise_target, adt_path)"""
    info = mir.switch_on(body, switch_block)
    if not info or info["kind"] != "discr":
        return None
    place = info["place"]
    ty = place_type(body, place)
    adt = None
    base = ty.lstrip("&").replace("mut ", "").strip()
    for p in prog.adts:
        if base == p or base.startswith(p + "<"):
            adt = prog.adts[p]
            break
    if adt is None:
        return None
    names = {v["idx"]: v["name"] for v in adt["variants"]}
    arms = {}
    for val, bb in info["targets"].items():
        arms[names.get(val, str(val))] = bb
    return arms, info["otherwise"], adt["path"]


def place_type(body, place):
    """type string of a place (uses the last field projection's recorded type when present)"""
    ty = body.local_ty(place["l"])
    for e in place["p"]:
        if isinstance(e, dict) and "f" in e:
            ty = e.get("ty", ty)
        elif e == "deref":
            ty = re.sub(r"^&(mut )?", "", ty)
    return ty


def arm_region(body, arm_block, switch_block):
    """blocks dominated by arm_block (the arm's region)"""
    return {b for b in body.reachable if body.dominates(arm_block, b)}


def dominated_by_edge(body, b, src, dst):
    """True if every path from entry to b takes the edge src->dst (dst dominates b, and dst's only predecessor
    on paths is src, or dst is dominated through that edge)"""
    if not body.dominates(dst, b):
        return False
    preds = [p for p in body.pred[dst] if p in body.reachable]
    return preds == [src] or all(p == src or body.dominates(dst, p) for p in preds)


# ---------------------------------------------------------------------------------------------------------------
# origins helpers

def arg_origin_set(body, op):
    return origins(body, op)


def originates_from_arg(body, op, n, fields=None):
    """every origin of op is argument n (optionally with the given field path prefix)"""
    os_ = origins(body, op)
    if not os_:
        return False
    for o in os_:
        if o[0] != "arg" or o[1] != n:
            return False
        if fields is not None and tuple(o[2:2 + len(fields)]) != tuple(fields):
            return False
    return True


def originates_from_call(body, op, call_block, fields=None):
    os_ = origins(body, op)
    if not os_:
        return False
    for o in os_:
        if o[0] != "call" or o[1] != call_block:
            return False
        if fields is not None and tuple(o[2:2 + len(fields)]) != tuple(fields):
            return False
    return True


def origin_str(os_):
    return "{" + ", ".join(sorted(str(o) for o in os_)) + "}"


def const_val(op):
    c = op.get("const") if op else None
    if c and "val" in c:
        return c["val"]
    return None


# ---------------------------------------------------------------------------------------------------------------
# closures

def closure_aggregates(body, blocks=None):
    """[(block, stmt_index, closure_path, ops, dest_local)] for every closure value built in body"""
    out = []
    for b, i, st in body.iter_stmts(blocks):
        if st["k"] == "assign" and "agg" in st["rv"] and st["rv"]["agg"]["kind"] == "closure":
            out.append((b, i, st["rv"]["agg"]["closure"], st["rv"]["agg"]["ops"], st["place"]["l"]))
    return out


def upvar_index(cbody, name):
    for u in cbody.raw.get("upvars", []):
        if u["name"] == name:
            for e in u["place"]["p"]:
                if isinstance(e, dict) and "f" in e:
                    return e["f"]
    return None


def upvar_names(cbody):
    out = {}
    for u in cbody.raw.get("upvars", []):
        for e in u["place"]["p"]:
            if isinstance(e, dict) and "f" in e:
                out[e["f"]] = u["name"]
                break
    return out


# ---------------------------------------------------------------------------------------------------------------
# field effects (A5)

FOREIGN_PREFIXES = ("core::", "alloc::", "std::", "bevy_", "bevy::", "hashbrown::", "smallvec::", "crossbeam", "ahash::", "allocator_api2::")


def is_crate_adt(adt):
    return bool(adt) and not adt.startswith(FOREIGN_PREFIXES)


def field_of(place):
    """(adt, field name) of the *last* named field projection of a crate ADT in a place, else None
    (payload projections of Option / Result / tuples of foreign types are looked through)"""
    last = None
    for e in place["p"]:
        if isinstance(e, dict) and "f" in e and is_crate_adt(e.get("adt")):
            last = (e["adt"], e.get("name"))
    return last


def fields_in(place):
    return [(e.get("adt"), e.get("name")) for e in place["p"] if isinstance(e, dict) and "f" in e and is_crate_adt(e.get("adt"))]


def field_borrows(body, adt_suffix, field):
    """locals that hold a reference to <adt>.<field> (directly borrowed), with the block"""
    out = []
    for b, i, st in body.iter_stmts():
        if st["k"] != "assign":
            continue
        rv = st["rv"]
        p = rv.get("ref") or rv.get("rawptr")
        if p is None:
            continue
        for adt, name in fields_in(p):
            if adt and (adt == adt_suffix or adt.endswith("::" + adt_suffix)) and name == field:
                out.append((b, i, st["place"]["l"], bool(rv.get("mut"))))
    return out


def receiver_field(body, term):
    """(adt, field) the receiver (first argument) of a method call is borrowed from, following ref chains"""
    if not term["args"]:
        return None
    return operand_field(body, term["args"][0])


def operand_field(body, op, depth=0):
    p = op_place(op)
    if p is None or depth > 12:
        return None
    f = field_of(p)
    if f:
        return f
    if p["p"] and not all(e == "deref" for e in p["p"]):
        return None
    for d in body.defs.get(p["l"], []):
        if d[0] == "stmt":
            rv = d[3]
            q = rv.get("ref") or rv.get("rawptr")
            if q is not None:
                f = field_of(q)
                if f:
                    return f
                r = operand_field(body, {"copy": q}, depth + 1)
                if r:
                    return r
            elif "use" in rv:
                r = operand_field(body, rv["use"], depth + 1)
                if r:
                    return r
        elif d[0] == "call":
            t = d[2]
            fr = op_fn(t["func"])
            if fr is not None and t["args"]:
                idx = mir.pass_through_index(fr)
                if idx is not None:
                    r = operand_field(body, t["args"][idx], depth + 1)
                    if r:
                        return r
    return None


def field_writes(body, adt_suffix=None):
    """[(block, idx, adt, field, rvalue)] for assignments whose destination ends in a named ADT field"""
    out = []
    for b, i, st in body.iter_stmts():
        if st["k"] != "assign":
            continue
        f = field_of(st["place"])
        if f and (adt_suffix is None or f[0] == adt_suffix or f[0].endswith("::" + adt_suffix)):
            # only when the *last* projection is that field (a write to the field itself)
            last = st["place"]["p"][-1]
            if isinstance(last, dict) and "f" in last and last.get("name") == f[1]:
                out.append((b, i, f[0], f[1], st["rv"]))
    return out


def receiver_chains(body, op, depth=0):
    """All (field, chain) an operand may be derived from, through borrows, moves and any call's first argument
    (iterator adaptor chains); multi-definition (phi) locals contribute every alternative."""
    p = op_place(op)
    if p is None or depth > 16:
        return []
    f = field_of(p)
    if f:
        return [(f, [])]
    out = []
    # a captured value read back out of a closure environment / tuple built in this body (`(*env).0` after a closure was
    # inlined): continue with the operand that was captured
    fi = next((e["f"] for e in p["p"] if isinstance(e, dict) and "f" in e), None)
    if fi is not None:
        ag = _agg_of_local(body, p["l"])
        if ag is not None and ag.get("kind") in ("closure", "tuple") and fi < len(ag["ops"]):
            return receiver_chains(body, ag["ops"][fi], depth + 1)
    seen_defs = set()       # a threaded view repeats one statement in several copies of its block: one alternative, not many
    for d in body.defs.get(p["l"], []):
        dk = repr(d[3]) if d[0] == "stmt" else (repr((d[2]["func"], d[2]["args"])) if d[0] == "call" else None)
        if dk is not None:
            if dk in seen_defs:
                continue
            seen_defs.add(dk)
        if d[0] == "stmt":
            rv = d[3]
            q = rv.get("ref") or rv.get("rawptr")
            if q is not None:
                f = field_of(q)
                if f:
                    out.append((f, []))
                else:
                    out += receiver_chains(body, {"copy": q}, depth + 1)
            elif "use" in rv:
                out += receiver_chains(body, rv["use"], depth + 1)
            elif "cast" in rv:
                out += receiver_chains(body, rv["cast"]["op"], depth + 1)
        elif d[0] == "call":
            t = d[2]
            fr = op_fn(t["func"])
            if fr is not None and t["args"]:
                for (fld, ch) in receiver_chains(body, t["args"][0], depth + 1):
                    out.append((fld, ch + [fn_name(fr)]))
    return out


def _agg_of_local(body, l, depth=0):
    """the aggregate a local holds (followed through whole-value moves and borrows), if it has a single definition chain"""
    if depth > 6:
        return None
    ds = [d for d in body.defs.get(l, []) if d[0] in ("stmt", "call")]
    if len(ds) != 1 or ds[0][0] != "stmt":
        return None
    rv = ds[0][3]
    if "agg" in rv:
        return rv["agg"]
    q = rv.get("ref") or (op_place(rv["use"]) if "use" in rv else None)
    if q is not None and not [e for e in q["p"] if e != "deref"]:
        return _agg_of_local(body, q["l"], depth + 1)
    return None


def receiver_chain(body, op, depth=0):
    """first alternative of receiver_chains (kept for single-definition receivers)"""
    r = receiver_chains(body, op, depth)
    return r[0] if r else None


def field_method_calls(body, adt_suffix, field):
    """[(block, term, callee name, chain)] of calls whose receiver is derived from <adt>.<field>"""
    out = []
    for b, t, fr in body.iter_calls():
        if fr is None or not t["args"]:
            continue
        for (adt, name), chain in receiver_chains(body, t["args"][0]):
            if name == field and adt and (adt == adt_suffix or adt.endswith("::" + adt_suffix)):
                out.append((b, t, fn_name(fr), chain))
                break
    return out


def writes_none(body, rv):
    """the assigned value is Option::None (directly or through a temporary)"""
    if "agg" in rv:
        return rv["agg"].get("vname") == "None"
    if "use" in rv:
        os_ = origins(body, rv["use"])
        if not os_:
            return False
        for o in os_:
            if o[0] != "agg":
                return False
            ag = body.blocks[o[1]]["stmts"][o[2]]["rv"]["agg"]
            if ag.get("vname") != "None":
                return False
        return True
    return False


def bool_source(body, local, neg=False, depth=0, at=None):
    """trace a bool local back to the call that produced it, through copies and `Not`: (call_block, negated) or None.
    `at`: the block where the value is read - of several assignments only those that can flow there count (an assignment
    in a block from which `at` is unreachable is not a reaching definition)"""
    if depth > 8:
        return None
    ds = [d for d in body.defs.get(local, []) if d[0] in ("stmt", "call")]
    if len(ds) > 1 and at is not None:
        ds = [d for d in ds if at in body.reach_from(d[1])]
    if len(ds) != 1:
        return None
    d = ds[0]
    if d[0] == "call":
        return d[1], neg
    rv = d[3]
    if "un" in rv and rv["un"]["op"] == "Not":
        p = op_place(rv["un"]["x"])
        if p and not p["p"]:
            return bool_source(body, p["l"], not neg, depth + 1, d[1])
    if "use" in rv:
        p = op_place(rv["use"])
        if p and not p["p"]:
            return bool_source(body, p["l"], neg, depth + 1, d[1])
    return None


def bool_arms(body, call_block):
    """[(switch_block, true_target, false_target)] for every switch on the bool result of the call in call_block"""
    out = []
    for b in sorted(body.reachable):
        t = body.blocks[b]["term"]
        if t["k"] != "switch":
            continue
        p = op_place(t["op"])
        if p is None or p["p"]:
            continue
        src = bool_source(body, p["l"], at=b)
        if not src or src[0] != call_block:
            continue
        tg = {v: bb for v, bb in t["targets"]}
        if 0 in tg:
            false_t, true_t = tg[0], t["otherwise"]
        elif 1 in tg:
            true_t, false_t = tg[1], t["otherwise"]
        else:
            continue
        if src[1]:
            true_t, false_t = false_t, true_t
        out.append((b, true_t, false_t))
    return out


def dominated_by_any(body, b, heads):
    return any(body.dominates(h, b) for h in heads)


def impl_self_name(body):
    return re.sub(r"<.*$", "", body.raw.get("impl_self", "") or "").split("::")[-1]


def impl_self_path(body):
    return re.sub(r"<.*$", "", body.raw.get("impl_self", "") or "")


def local_call_bodies(prog, body, blocks=None):
    """[(block, term, callee body)] for calls that resolve to a body of this crate"""
    out = []
    for b, t, fr in body.iter_calls(blocks):
        if fr is None:
            continue
        cb = prog.resolve_local(fr)
        if cb is not None:
            out.append((b, t, cb))
    return out


def access_path(body, op, depth=0):
    """Steps from the root object to the place an operand denotes, through borrows, moves and method chains:
    [('arg', n) | ('field', adt, name) | ('call', tail2-name, block)]. Ambiguous (multi-def) locals give ('phi', local)."""
    p = op_place(op)
    if p is None:
        return [("const",)]
    return _access_place(body, p, depth)


def _access_place(body, p, depth):
    if depth > 24:
        return [("deep",)]
    steps = _access_local(body, p["l"], depth + 1)
    for e in p["p"]:
        if isinstance(e, dict) and "f" in e and e.get("adt") and not e["adt"].startswith(("core::", "alloc::", "std::")):
            steps = steps + [("field", e["adt"], e.get("name"))]
        elif isinstance(e, dict) and "downcast" in e:
            steps = steps + [("variant", e.get("name"))]
    return steps


def _access_local(body, l, depth):
    ds = [d for d in body.defs.get(l, []) if d[0] in ("stmt", "call", "arg")]
    if len(ds) != 1:
        return [("phi", l)]
    d = ds[0]
    if d[0] == "arg":
        return [("arg", d[1])]
    if d[0] == "stmt":
        rv = d[3]
        q = rv.get("ref") or rv.get("rawptr")
        if q is not None:
            return _access_place(body, q, depth + 1)
        if "use" in rv:
            pp = op_place(rv["use"])
            return _access_place(body, pp, depth + 1) if pp else [("const",)]
        if "cast" in rv:
            pp = op_place(rv["cast"]["op"])
            return _access_place(body, pp, depth + 1) if pp else [("const",)]
        if "agg" in rv:
            return [("agg", d[1], d[2])]
        return [("rv", d[1], d[2])]
    t = d[2]
    fr = op_fn(t["func"])
    name = tail(fn_name(fr), 2) if fr else "<indirect>"
    base = _access_place(body, op_place(t["args"][0]), depth + 1) if t["args"] and op_place(t["args"][0]) else []
    return base + [("call", name, d[1])]


def path_fields(steps):
    return [(s[1].split("::")[-1], s[2]) for s in steps if s[0] == "field"]


def path_calls(steps):
    return [s for s in steps if s[0] == "call"]


def has_type(args, name):
    """some generic argument is exactly the type `name` (last path segment, no generics)"""
    for a in args or []:
        base = a.split("<")[0]
        if base == name or base.endswith("::" + name) or a == name or a.endswith("::" + name):
            return True
    return False


def names2(fr):
    """all two-segment spellings of a callee: by impl type and by trait, declared and resolved"""
    out = set()
    if fr is None:
        return out
    for n in (fr.get("path"), fr.get("resolved")):
        if n:
            out.add(tail(n, 2))
            out.add(mir.tail2(n))
    return out


def is_call(fr, *names):
    return bool(names2(fr) & set(names))


def channel_pairing(body, adt_suffix, sender_field, receiver_field):
    """In a constructor: the ADT aggregate's sender and receiver fields originate from the SAME channel-creating call
    (tuple fields .0 / .1 of one `unbounded()` / `bounded()`); returns (ok, detail)"""
    aggs = [st["rv"]["agg"] for b, i, st in body.iter_stmts() if st["k"] == "assign" and "agg" in st["rv"]
            and st["rv"]["agg"].get("adt", "").endswith("::" + adt_suffix)]
    if len(aggs) != 1:
        return False, "%d aggregates of %s" % (len(aggs), adt_suffix)
    ag = aggs[0]
    try:
        so = origins(body, ag["ops"][ag["fields"].index(sender_field)])
        ro = origins(body, ag["ops"][ag["fields"].index(receiver_field)])
    except ValueError:
        return False, "fields not found"
    def chan(os_, idx):
        out = set()
        for o in os_:
            if o[0] != "call" or len(o) < 3 or o[2] != "." + str(idx):
                return None
            fr = op_fn(body.blocks[o[1]]["term"]["func"])
            if not fr or tail(fn_name(fr), 1) != "unbounded":
                return None      # a bounded channel can refuse or block a Drop-time send
            out.add(o[1])
        return out
    cs, cr = chan(so, 0), chan(ro, 1)
    ok = cs is not None and cs == cr and len(cs) == 1
    return ok, "sender from %s, receiver from %s" % (sorted(map(str, so)), sorted(map(str, ro)))


def comparison_calls(body):
    """[(block, term, fnref, is_eq)] for PartialEq::eq / ne calls"""
    out = []
    for b, t, fr in body.iter_calls():
        if fr is not None and tail(fn_name(fr), 1) in ("eq", "ne") and len(t["args"]) >= 2:
            out.append((b, t, fr, tail(fn_name(fr), 1) == "eq"))
    return out


def true_return_requirements(body):
    """For a bool-returning function/closure: one entry per way of returning `true`, each the set of comparison-call
    blocks that must have compared EQUAL on that path ({block: True}) or NOT equal ({block: False}).
    Handles `if a != x { return false } .. true` as well as the short-circuit form `a == x && b == y`.
    Returns None when some assignment to the return place is not understood."""
    cmps = comparison_calls(body)
    heads = []   # (head block, cmp block, equal?)
    for (b, t, fr, is_eq) in cmps:
        for (sb, tt, ft) in bool_arms(body, b):
            heads.append((tt, b, is_eq))
            heads.append((ft, b, not is_eq))
    out = []
    for b in sorted(body.reachable):
        blk = body.blocks[b]
        dom = {cb: eq for (h, cb, eq) in heads if body.dominates(h, b)}
        for st in blk["stmts"]:
            if st["k"] == "assign" and st["place"]["l"] == 0 and not st["place"]["p"]:
                rv = st["rv"]
                v = const_val(rv["use"]) if "use" in rv else None
                if v == 1:
                    out.append(dict(dom))
                elif v == 0:
                    continue
                else:
                    # `_0 = move x` where x is the result of a comparison (an inlined predicate helper's return value)
                    src = (rv["use"].get("move") or rv["use"].get("copy")) if "use" in rv else None
                    seen = set()
                    hit = None
                    while src is not None and not src["p"] and src["l"] not in seen:
                        seen.add(src["l"])
                        hit = next((c for c in cmps if c[1]["dest"]["l"] == src["l"] and not c[1]["dest"]["p"]), None)
                        if hit:
                            break
                        defs = [s2 for bb in body.reachable for s2 in body.blocks[bb]["stmts"]
                                if s2["k"] == "assign" and s2["place"]["l"] == src["l"] and not s2["place"]["p"]]
                        if len(defs) != 1 or "use" not in defs[0]["rv"]:
                            break
                        src = defs[0]["rv"]["use"].get("move") or defs[0]["rv"]["use"].get("copy")
                    if not hit:
                        return None
                    req = dict(dom)
                    req[hit[0]] = hit[3]
                    out.append(req)
        t = blk["term"]
        if t["k"] == "call" and t["dest"]["l"] == 0 and not t["dest"]["p"]:
            hit = [c for c in cmps if c[0] == b]
            if not hit:
                return None
            req = dict(dom)
            req[b] = hit[0][3]
            out.append(req)
    return out


def loop_first_match(body, adt, field):
    """Explicit-loop form of a first-match search over <adt>.<field>: a loop driven by Iterator::next on an in-order chain
    from the field that is left (break / return) on a path dominated by the EQUAL arm of a comparison involving the loop
    element. Returns [(loop, cmp_block, other-side origins)]."""
    import loops as LP
    import tables as T
    out = []
    for L in LP.find_loops(body):
        if L.driver is None:
            continue
        t = body.blocks[L.driver]["term"]
        chains = [(f, ch) for (f, ch) in receiver_chains(body, t["args"][0]) if f[1] == field and (f[0] == adt or f[0].endswith("::" + adt))]
        if not chains:
            # index form: `for idx in 0..list.len() { if list[idx].key == k { .. return / break } }` - an ascending range from 0
            # to the list's length, the compared element read by `list[idx]` with idx the loop's own element
            out += _index_first_match(body, L, adt, field)
            continue
        if any(T.classify(n) == "order-destroying" for _, ch in chains for n in ch):
            continue
        for (b, ct, fr, is_eq) in comparison_calls(body):
            if b not in L.blocks:
                continue
            o0, o1 = origins(body, ct["args"][0]), origins(body, ct["args"][1])
            el0 = any(o[0] == "call" and o[1] == L.driver for o in o0)
            el1 = any(o[0] == "call" and o[1] == L.driver for o in o1)
            if el0 == el1:
                continue
            other = o1 if el0 else o0
            for (sb, tt, ft) in bool_arms(body, b):
                eq_arm = tt if is_eq else ft
                # some exit of the loop is dominated by the equal arm, and the equal arm cannot return to the header
                exits = [(x, s) for (x, s) in L.exits if s == eq_arm or body.dominates(eq_arm, s) or body.dominates(eq_arm, x) or x == eq_arm]
                back = path_between_avoiding(body, [eq_arm], [L.header], [])
                if exits and back is None:
                    out.append((L, b, other))
    return out


def _index_first_match(body, L, adt, field):
    dfr = op_fn(body.blocks[L.driver]["term"]["func"])
    if dfr is None or "Range<" not in (fn_name(dfr) + " ".join(dfr.get("args") or [])) or "RangeInclusive" in fn_name(dfr):
        return []
    def on_field(op):
        return any(f[1] == field and (f[0] == adt or f[0].endswith("::" + adt)) for f, ch in receiver_chains(body, op))
    # the range is built as Range { start: 0, end: list.len() }
    rng = None
    for o in origins(body, body.blocks[L.driver]["term"]["args"][0]):
        if o[0] == "agg" and len(o) == 3:
            ag = body.blocks[o[1]]["stmts"][o[2]]["rv"]["agg"]
            if ag.get("adt", "").endswith("ops::range::Range") or ag.get("adt", "").endswith("ops::Range"):
                rng = ag
    if rng is None or len(rng.get("ops", [])) != 2:
        return []
    fs = dict(zip(rng.get("fields", ["start", "end"]), rng["ops"]))
    if const_val(fs.get("start")) != 0:
        return []
    eo = origins(body, fs.get("end"))
    lens = [b for b, t, fr in body.iter_calls() if fr and tail(fn_name(fr), 1) == "len" and t["args"] and on_field(t["args"][0])]
    if not eo or not all(o[0] == "call" and o[1] in lens for o in eo):
        return []
    idx_calls = [(b, t) for b, t, fr in body.iter_calls(L.blocks) if fr and tail(fn_name(fr), 1) in ("index", "index_mut") and t["args"] and on_field(t["args"][0])
                 and any(o[0] == "call" and o[1] == L.driver for o in origins(body, t["args"][1]))]
    if not idx_calls:
        return []
    out = []
    for (b, ct, fr, is_eq) in comparison_calls(body):
        if b not in L.blocks:
            continue
        o0, o1 = origins(body, ct["args"][0]), origins(body, ct["args"][1])
        el0 = any(o[0] == "call" and o[1] in [x[0] for x in idx_calls] for o in o0)
        el1 = any(o[0] == "call" and o[1] in [x[0] for x in idx_calls] for o in o1)
        if el0 == el1:
            continue
        other = o1 if el0 else o0
        for (sb, tt, ft) in bool_arms(body, b):
            eq_arm = tt if is_eq else ft
            exits = [(x, s) for (x, s) in L.exits if s == eq_arm or body.dominates(eq_arm, s) or body.dominates(eq_arm, x) or x == eq_arm]
            back = path_between_avoiding(body, [eq_arm], [L.header], [])
            if exits and back is None:
                out.append((L, b, other))
    return out


def root_origins(prog, root, clo, op):
    """origins of an operand of closure `clo` expressed in `root` (the function that builds the closure): captured values
    are replaced by the origins of the captured operands"""
    out = set()
    agg = None
    for b, i, st in root.iter_stmts():
        if st["k"] == "assign" and "agg" in st["rv"] and st["rv"]["agg"].get("kind") == "closure" and st["rv"]["agg"].get("closure") == clo.path:
            agg = st["rv"]["agg"]
    for o in origins(clo, op):
        if agg is not None and o[0] == "arg" and o[1] == 1 and len(o) >= 3 and o[2].lstrip(".").isdigit() and int(o[2].lstrip(".")) < len(agg["ops"]):
            for o2 in origins(root, agg["ops"][int(o[2].lstrip("."))]):
                out.add(tuple(o2) + tuple(x for x in o[3:] if x != "*"))
        else:
            out.add(("closure-local",) + tuple(o))
    return out


def index_scans(body, is_coll):
    """Index-scan loops with in-place removal over a collection accepted by is_coll(operand):

        while pos < c.len() { let e = &c[pos]; if <match> { c.remove(pos); } else { pos += 1; } }

    Returns [dict(header, region, index_block, remove_block, remove_name, keep_blocks, well_formed)]; well_formed means: the
    loop is left only through a bound test that dominates the element read; `pos` is written in the loop only by `+ 1`;
    every iteration does exactly one of REMOVE and ADVANCE (so every element is visited exactly once, none skipped)."""
    out = []
    for (h, lbody, backs) in body.loops():
        calls = [(b, t, mir.strip_generics(fn_name(fr))) for b, t, fr in body.iter_calls(lbody) if fr and t["args"] and is_coll(t["args"][0])]
        idx = [(b, t) for b, t, n in calls if tail(n, 1) in ("index", "index_mut")]
        rem = [(b, t, n) for b, t, n in calls if tail(n, 1) in ("remove", "swap_remove", "swap_remove_back", "swap_remove_front")]
        lens = [(b, t) for b, t, n in calls if tail(n, 1) == "len"]
        if len(idx) != 1 or len(rem) != 1 or not lens or len(rem[0][1]["args"]) < 2:
            continue

        def pos_locals(op):
            res = set()
            p = op_place(op)
            seen = set()
            while p is not None and not p["p"] and p["l"] not in seen:
                seen.add(p["l"])
                res.add(p["l"])
                ds = [d for d in body.defs.get(p["l"], []) if d[0] == "stmt" and "use" in d[3]]
                p = op_place(ds[0][3]["use"]) if len(ds) == 1 else None
            return res
        pos = pos_locals(idx[0][1]["args"][1]) & pos_locals(rem[0][1]["args"][1])
        posv = [l for l in pos if len([d for d in body.defs.get(l, []) if d[0] in ("stmt", "call")]) >= 2]
        ok = len(posv) == 1
        incs = []
        if ok:
            pv = posv[0]
            for b, i, st in body.iter_stmts(lbody):
                if st["k"] == "assign" and not st["place"]["p"] and st["place"]["l"] == pv:
                    incs.append(b)
                    rv = st["rv"]
                    src = op_place(rv["use"]) if "use" in rv else None
                    cand = [rv]
                    if src is not None:
                        cand += [d[3] for d in body.defs.get(src["l"], []) if d[0] == "stmt"]
                    ok_inc = False
                    for c in cand:
                        if "bin" in c and c["bin"]["op"] in ("Add", "AddWithOverflow", "AddUnchecked"):
                            l_, r_ = c["bin"]["l"], c["bin"]["r"]
                            if (op_place(l_) or {}).get("l") in pos_locals({"copy": {"l": pv, "p": []}}) | {pv} and const_val(r_) == 1:
                                ok_inc = True
                    ok = ok and ok_inc
        exits = {(x, s_) for x in lbody for s_ in body.succ[x] if s_ not in lbody}
        cmp_ok = False
        for (x, s_) in exits:
            info = mir.switch_on(body, x)
            if info and info.get("kind") == "bin" and info["bin"]["op"] in ("Lt", "Gt", "Ne"):
                cmp_ok = True
        ok = ok and len({x for x, _ in exits}) == 1 and cmp_ok and all(body.dominates(x, idx[0][0]) for x, _ in exits)
        # exactly one of REMOVE / ADVANCE on every iteration path
        if ok:
            ev = {rem[0][0]} | set(incs)
            counts = set()
            seen = set()
            st_ = [(h, 1 if h in ev else 0)]
            while st_:
                x, n = st_.pop()
                if (x, n) in seen:
                    continue
                seen.add((x, n))
                for s_ in body.succ[x]:
                    if s_ == h:
                        counts.add(n)
                    elif s_ in lbody:
                        st_.append((s_, min(3, n + (1 if s_ in ev else 0))))
            ok = counts == {1}
        out.append(dict(header=h, region=lbody, index_block=idx[0][0], remove_block=rem[0][0], remove_name=rem[0][2],
                        keep_blocks=sorted(set(incs)), well_formed=ok))
    return out


def component_removals(prog, component):
    """[(body, block, callee)] for calls that take a component whose type mentions `component` off an entity"""
    out = []
    for body in prog.bodies:
        for b, t, fr in body.iter_calls():
            if fr and any(component in a for a in fr.get("args", [])) and tail(fn_name(fr), 1) in (
                    "remove", "take", "remove_by_id", "retain", "remove_with_requires", "clear", "try_remove"):
                out.append((body, b, tail(fn_name(fr), 2)))
    return out


def const_variant(body, op, depth=0):
    """name of the unit enum variant a (reference to a) constant operand stands for, read from the promoted constants the
    driver prints (`&ReactorMode::Persistent` in `*self == ReactorMode::Persistent`), else None"""
    if depth > 6 or op is None:
        return None
    c = op.get("const") if isinstance(op, dict) else None
    if c is not None:
        m = re.search(r"promoted\[(\d+)\]$", c.get("repr", "") or "")
        proms = body.raw.get("promoted") or []
        if m and int(m.group(1)) < len(proms):
            for st in proms[int(m.group(1))]:
                mm = re.match(r"^_\d+ = (?:const )?([\w:]+)::(\w+)$", st.strip())
                if mm and not st.strip().endswith("&_1"):
                    return mm.group(2)
        mm = re.search(r"::(\w+)$", c.get("repr", "") or "")
        return mm.group(1) if mm and "promoted" not in c.get("repr", "") else None
    p = op_place(op)
    if p is None:
        return None
    ds = [d for d in body.defs.get(p["l"], []) if d[0] == "stmt"]
    if len(ds) != 1:
        return None
    rv = ds[0][3]
    if "use" in rv:
        return const_variant(body, rv["use"], depth + 1)
    q = rv.get("ref")
    if q is not None:
        return const_variant(body, {"copy": {"l": q["l"], "p": []}}, depth + 1)
    return None


def region_agg(body, region, op, depth=0):
    """The aggregate an operand holds *inside one arm* of a match: definitions are looked up only in the blocks of `region`
    (after variant threading every arm has its own copy of a shared tail, while the locals are shared - a flow-insensitive
    lookup would mix the arms). Follows plain moves/copies and reads of a payload field of a variant built in the region
    (`Outer::V(inner)` ... `(x as V).0`). Returns the aggregate dict or None (unknown / ambiguous)."""
    if depth > 32:
        return None
    p = op_place(op) if isinstance(op, dict) and ("move" in op or "copy" in op) else (op if isinstance(op, dict) and "l" in op else None)
    if p is None:
        return None
    defs = []
    for b in region:
        for st in body.blocks[b]["stmts"]:
            if st["k"] == "assign" and st["place"]["l"] == p["l"] and not st["place"]["p"]:
                defs.append(st["rv"])
        t = body.blocks[b]["term"]
        if t["k"] == "call" and t["dest"]["l"] == p["l"] and not t["dest"]["p"]:
            defs.append(None)
    if len(defs) != 1 or defs[0] is None:
        return None
    rv = defs[0]
    proj = [e for e in p["p"] if e != "deref"]
    if "agg" in rv:
        ag = rv["agg"]
        if not proj:
            return ag
        # (x as V).k : the k-th operand of the aggregate, provided it built variant V
        if len(proj) >= 2 and isinstance(proj[0], dict) and "downcast" in proj[0] and isinstance(proj[1], dict) and "f" in proj[1]:
            if ag.get("kind") == "adt" and ag.get("variant") == proj[0]["downcast"] and proj[1]["f"] < len(ag["ops"]):
                inner = ag["ops"][proj[1]["f"]]
                ip = op_place(inner)
                if ip is None:
                    return None
                return region_agg(body, region, {"l": ip["l"], "p": list(ip["p"]) + proj[2:]}, depth + 1)
        # x.k of a tuple built in the region
        if isinstance(proj[0], dict) and "f" in proj[0] and ag.get("kind") == "tuple" and proj[0]["f"] < len(ag["ops"]):
            ip = op_place(ag["ops"][proj[0]["f"]])
            if ip is None:
                return None
            return region_agg(body, region, {"l": ip["l"], "p": list(ip["p"]) + proj[1:]}, depth + 1)
        return None
    for k in ("use",):
        if k in rv:
            ip = op_place(rv[k])
            if ip is None:
                return None
            return region_agg(body, region, {"l": ip["l"], "p": list(ip["p"]) + proj}, depth + 1)
    if "ref" in rv:
        ip = rv["ref"]
        return region_agg(body, region, {"l": ip["l"], "p": list(ip["p"]) + proj}, depth + 1)
    return None

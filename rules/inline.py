"""Helper-inlining view of the program (robustness against 'extract a private helper' refactorings).

Rules are mostly intraprocedural. A maintainer who moves a protocol step into a new private helper does not change
behaviour, so the rules must not alarm. The *vocabulary* (rules/vocabulary.json) lists every function of the pinned
tree; a crate-private, non-recursive function that is NOT in the vocabulary is a new helper, and in this view its MIR
is inlined at every direct call site (parameters bound by assignment, return value moved into the call's destination,
generic parameters substituted in type strings), up to depth 3. Fully inlined helpers are dropped from the view.
Inlining preserves semantics, so a rule that holds on this view holds for the program; bin/check evaluates the plain
view first and this view only if the plain view alarms and a new helper exists."""
import copy
import json
import os
import re

import mir
from mir import op_fn, strip_generics

VOCAB = os.path.join(os.path.dirname(os.path.abspath(__file__)), "vocabulary.json")
MAX_BLOCKS = 400
MAX_DEPTH = 3


def load_sigs():
    try:
        with open(SIGS) as fh:
            return json.load(fh)
    except OSError:
        return {}


def load_vocab():
    with open(VOCAB) as fh:
        return set(json.load(fh))


def vocabulary_of(prog):
    return sorted({strip_generics(b.path) for b in prog.bodies if b.kind in ("fn", "assoc_fn")})


_PRIMS = {"bool", "char", "str", "usize", "isize", "u8", "u16", "u32", "u64", "u128", "i8", "i16", "i32", "i64", "i128", "f32", "f64",
          "Self", "dyn", "impl", "mut", "const", "fn", "for", "as", "static"}


def _canon_generic(ty):
    """type string with the names of type parameters (bare identifiers, no path) replaced by `$`: a renamed type parameter
    (`T` -> `Cmd`) does not change a signature"""
    return re.sub(r"(?<![\w:'])([A-Za-z_]\w*)(?![\w:])", lambda m: m.group(1) if m.group(1) in _PRIMS else "$", ty)


MOVED = {}      # path on the analysed tree -> pinned path, for functions that moved to another module (filled by new_helpers)
RENAMED = {}    # path on the analysed tree -> pinned path, for renamed functions whose parameters were also re-ordered / `&self` <-> `self`


def _strip_paths(ty):
    """type string with module paths removed (`react::commands::SystemCommand` -> `SystemCommand`): a moved type changes the
    path of every signature that mentions it"""
    return re.sub(r"(?:[A-Za-z_]\w*::)+", "", ty)


def new_helpers(prog, vocab):
    out = {}
    # a function that is not in the vocabulary while a vocabulary function of the same module / impl has disappeared is a
    # *renamed* function, not a new helper: it keeps its role and must stay a function of its own in the view
    present = {strip_generics(b.path) for b in prog.bodies if b.kind in ("fn", "assoc_fn")}
    crate_mods = {v.split("::")[0] for v in vocab if not v.startswith("<")}
    missing = {}
    missing_sigs = {}
    missing_paths = {}
    sigs = load_sigs()
    try:
        import json as _json, os as _os
        with open(_os.path.join(_os.path.dirname(_os.path.abspath(__file__)), "returns.json")) as fh_:
            rets = _json.load(fh_)
    except Exception:
        rets = {}
    for v in vocab:
        if v not in present:
            missing[v.rsplit("::", 1)[0]] = missing.get(v.rsplit("::", 1)[0], 0) + 1
            # (parameter types, then - when pinned - the return type as a last element)
            missing_sigs.setdefault(v.rsplit("::", 1)[0], []).append(
                ([_canon_generic(x) for x in sigs[v]] + (["-> " + _canon_generic(rets[v])] if v in rets else [])) if v in sigs else None)
            missing_paths.setdefault(v.rsplit("::", 1)[0], []).append(v)
    # a function that *moved* to another module keeps its name (and the name of its impl type) and its signature while the
    # pinned path has vanished: it is the same function at a new address, not a new helper
    def _tailkey(path_):
        segs = path_.split("::")
        if len(segs) >= 2 and segs[-2][:1].isupper():
            return "::".join(segs[-2:])
        return segs[-1]
    moved_pool = {}
    for v in vocab:
        if v not in present and not v.startswith("<") and v in sigs:
            moved_pool.setdefault(_tailkey(v), []).append((v, [_canon_generic(x) for x in sigs[v]]))
    # when several new functions could take the place of the vanished functions of a module / impl (same signature), the
    # assignment is by what the functions *do*: the pinned callee set of the vanished function (rules/callees.json) is compared
    # with the candidate's; a candidate without any overlap while another candidate has one is not the renamed function
    try:
        with open(_os.path.join(_os.path.dirname(_os.path.abspath(__file__)), "callees.json")) as fh_:
            pinned_callees = _json.load(fh_)
    except Exception:
        pinned_callees = {}

    def _callee_names(b_):
        out_ = set()
        for bd_ in [b_] + prog.closures_of(b_):
            for _, _, fr_ in bd_.iter_calls():
                if fr_ is None:
                    continue
                full_ = mir.fn_name(fr_)
                n_ = "::".join(strip_generics(full_).replace("<", "").replace(">", "").split("::")[-2:])
                out_.add(n_)
        return out_
    not_renamed = set()
    by_pre = {}
    for b_ in prog.bodies:
        if b_.kind in ("fn", "assoc_fn") and strip_generics(b_.path) not in vocab and not strip_generics(b_.path).startswith("<"):
            by_pre.setdefault(strip_generics(b_.path).rsplit("::", 1)[0], []).append(b_)
    for pre_, cands_ in by_pre.items():
        gone_ = [v for v in vocab if v not in present and v.rsplit("::", 1)[0] == pre_ and v in sigs and v in pinned_callees]
        if not gone_ or len(cands_) < 2:
            continue
        sig_of = lambda ps_, r_: [_canon_generic(x) for x in ps_] + (["-> " + _canon_generic(r_)] if r_ is not None else [])
        for v in gone_:
            vs_ = sig_of(sigs[v], rets.get(v))
            same_ = [c_ for c_ in cands_ if sig_of([c_.local_ty(i) for i in range(1, c_.arg_count + 1)], c_.local_ty(0) if v in rets else None) == vs_]
            if len(same_) < 2:
                continue
            want_ = {n_ for n_ in pinned_callees[v] if not n_.startswith(("Mut::", "Res::", "ResMut::"))}
            if not want_:
                continue
            score_ = {c_.path: len(want_ & {x_ for x_ in _callee_names(c_)}) for c_ in same_}
            best_ = max(score_.values())
            if best_ > 0:
                for c_ in same_:
                    if score_[c_.path] == 0:
                        not_renamed.add(c_.path)
    # ... then, the one that is called from
    # outside its own impl / module is the renamed one - a helper that only its siblings call is a helper
    def _rank(b_):
        sp2_ = strip_generics(b_.path)
        if sp2_ in vocab:
            return 0
        pre2_ = sp2_.rsplit("::", 1)[0]
        for (cb_, _, _, _) in prog.callers_of(lambda n, p_=b_.path: n == p_ or strip_generics(n) == strip_generics(p_)):
            if strip_generics(cb_.path).rsplit("::", 1)[0] != pre2_ and (cb_.raw.get("root") or "").rsplit("::", 1)[0] != pre2_:
                return 0
        return 1
    for b in sorted(prog.bodies, key=_rank):
        if b.kind not in ("fn", "assoc_fn"):
            continue
        sp_ = strip_generics(b.path)
        if sp_ not in vocab and not sp_.startswith("<") and _tailkey(sp_) in moved_pool:
            cs_ = [_canon_generic(b.local_ty(i)) for i in range(1, b.arg_count + 1)]
            hit_ = next((m_ for m_ in moved_pool[_tailkey(sp_)] if [_strip_paths(x) for x in m_[1]] == [_strip_paths(x) for x in cs_]), None)
            if hit_ is not None:
                moved_pool[_tailkey(sp_)].remove(hit_)
                pre_old = hit_[0].rsplit("::", 1)[0]
                if missing.get(pre_old, 0) > 0:
                    missing[pre_old] -= 1
                    for m2_ in list(missing_sigs.get(pre_old, [])):
                        if m2_ is not None and [x_ for x_ in m2_ if not x_.startswith("-> ")] == hit_[1]:
                            missing_sigs[pre_old].remove(m2_)
                            break
                MOVED[sp_] = hit_[0]
                continue
        if strip_generics(b.path) in vocab:
            # a pinned private helper that was *generalised* (a concrete parameter became `impl Trait` / a type parameter):
            # what it iterates or operates on is now decided by its callers, so the view inlines it there
            ps = sigs.get(strip_generics(b.path))
            cs = [b.local_ty(i) for i in range(1, b.arg_count + 1)]
            if ps and len(ps) == len(cs) and b.raw.get("reachable") is not True and not b.raw.get("impl_trait") and b.n <= 120 \
                    and (sum(1 for c in cs if c.startswith("impl ") or c in (b.raw.get("generics") or []))
                         > sum(1 for p_ in ps if p_.startswith("impl ") or re.fullmatch(r"[A-Z]\w*", p_))) \
                    and not any(fr is not None and prog.resolve_local(fr) is b for _, _, fr in b.iter_calls()) \
                    and not prog.fn_value_uses(lambda n, p_=b.path: n == p_):
                out[b.path] = b
            continue
        pre = strip_generics(b.path).rsplit("::", 1)[0]
        if missing.get(pre, 0) > 0 and b.path not in not_renamed:
            # renamed = takes the place of a vanished function *with the same parameter types* (when the pinned
            # signatures are known); a new function with another signature is a helper even if functions vanished
            cs_ = [_canon_generic(b.local_ty(i)) for i in range(1, b.arg_count + 1)]
            ms_ = missing_sigs.get(pre, [])
            csr_ = cs_ + ["-> " + _canon_generic(b.local_ty(0))]
            hit_ = next((m_ for m_ in ms_ if m_ is not None and (m_ == csr_ or (m_ == cs_ and not (m_ and m_[-1].startswith("-> "))))), None)
            if hit_ is None and len(cs_) >= 2:
                # renamed *and* its parameters re-ordered / the receiver taken by value instead of by reference (a `Copy` type):
                # the same parameter types up to order and `&`, all distinct, and the same return type
                def _n(t_):
                    return _strip_paths(re.sub(r"^&(?:'\w+ )?(?:mut )?", "", t_))
                for i_, m_ in enumerate(ms_):
                    if m_ is None or not (m_ and m_[-1].startswith("-> ")) or m_[-1] != csr_[-1]:
                        continue
                    mp_ = [_n(x_) for x_ in m_[:-1]]
                    if sorted(mp_) == sorted(_n(x_) for x_ in cs_) and len(set(mp_)) == len(mp_):
                        hit_ = m_
                        RENAMED[sp_] = missing_paths[pre][i_]
                        break
            if any(m_ is None for m_ in ms_) or hit_ is not None:
                missing[pre] -= 1
                if hit_ is not None:
                    i_ = ms_.index(hit_)
                    ms_.pop(i_)
                    if pre in missing_paths and i_ < len(missing_paths[pre]):
                        missing_paths[pre].pop(i_)
                elif None in ms_:
                    i_ = ms_.index(None)
                    ms_.pop(i_)
                    if pre in missing_paths and i_ < len(missing_paths[pre]):
                        missing_paths[pre].pop(i_)
                continue
        it_ = b.raw.get("impl_trait")
        if it_:
            # methods of an impl of a trait that itself is new in this tree (a private trait introduced to share code)
            tr_new = not any(v.startswith(it_ + "::") or (" as " + it_ + ">") in v for v in vocab) and it_.split("::")[0] in crate_mods
            # ... or of a std trait for a type that is new in this tree (Default / Deref / From of a new wrapper type)
            st_ = re.sub(r"<.*$", "", b.raw.get("impl_self") or "")
            ty_new = bool(st_) and st_.split("::")[0] in crate_mods and not any(st_ in v for v in vocab) \
                and it_.split("::")[0] in ("core", "alloc", "std")
            if not tr_new and not ty_new:
                continue
            # `Drop::drop` is never called by name (the compiler runs it): it is not a helper, and must stay a body of its own
            if it_.endswith("ops::drop::Drop"):
                continue
        if b.raw.get("reachable") is True or b.n > MAX_BLOCKS:
            continue
        if any(fr is not None and prog.resolve_local(fr) is b for _, _, fr in b.iter_calls()):
            continue
        out[b.path] = b
    return out


# ---------------------------------------------------------------------------------------------------------------

def _subst_ty(s, smap):
    if not smap or not isinstance(s, str):
        return s
    for k, v in smap.items():
        s = re.sub(r"(?<![\w:])%s(?![\w])" % re.escape(k), v, s)
    return s


def _place(p, loff, smap):
    q = {"l": p["l"] + loff, "p": []}
    for e in p["p"]:
        if isinstance(e, dict):
            e2 = dict(e)
            if "index" in e2:
                e2["index"] = e2["index"] + loff
            if "ty" in e2:
                e2["ty"] = _subst_ty(e2["ty"], smap)
            q["p"].append(e2)
        else:
            q["p"].append(e)
    return q


_CRATE_ENUMS = set()  # paths of the crate's enum types (set by inlined_facts)
_IMPL_INDEX = {}     # (self type, trait path) -> {method name: impl item path}; set by inlined_facts


def _fnref(fr, smap):
    fr2 = dict(fr)
    for k in ("args", "resolved_args"):
        if k in fr2:
            fr2[k] = [_subst_ty(a, smap) for a in fr2[k]]
    # a call of a trait method on a generic `Self` / `T` becomes, after substitution, a call on a concrete crate type:
    # resolve it through the crate's impl table (what rustc's Instance::resolve would answer for the monomorphic body)
    if smap and fr2.get("trait") and not fr2.get("resolved") and fr2.get("args"):
        items = _IMPL_INDEX.get((re.sub(r"<.*$", "", fr2["args"][0]), fr2["trait"]))
        name = strip_generics(fr2["path"]).split("::")[-1]
        if items and name in items:
            fr2["resolved"] = items[name]
            fr2["resolved_args"] = fr2["args"][1:]
    return fr2


def _operand(op, loff, smap):
    if "copy" in op:
        return {"copy": _place(op["copy"], loff, smap)}
    if "move" in op:
        return {"move": _place(op["move"], loff, smap)}
    if "const" in op:
        c = dict(op["const"])
        c["ty"] = _subst_ty(c.get("ty"), smap)
        if "fn" in c:
            c["fn"] = _fnref(c["fn"], smap)
        return {"const": c}
    return copy.deepcopy(op)


def _rvalue(rv, loff, smap):
    if "use" in rv:
        return {"use": _operand(rv["use"], loff, smap)}
    if "ref" in rv:
        return {"ref": _place(rv["ref"], loff, smap), "mut": rv.get("mut", False)}
    if "rawptr" in rv:
        return {"rawptr": _place(rv["rawptr"], loff, smap)}
    if "cast" in rv:
        c = rv["cast"]
        return {"cast": {"kind": c["kind"], "op": _operand(c["op"], loff, smap), "ty": _subst_ty(c["ty"], smap)}}
    if "discr" in rv:
        return {"discr": _place(rv["discr"], loff, smap)}
    if "bin" in rv:
        b = rv["bin"]
        return {"bin": {"op": b["op"], "l": _operand(b["l"], loff, smap), "r": _operand(b["r"], loff, smap)}}
    if "un" in rv:
        return {"un": {"op": rv["un"]["op"], "x": _operand(rv["un"]["x"], loff, smap)}}
    if "agg" in rv:
        a = dict(rv["agg"])
        a["ops"] = [_operand(o, loff, smap) for o in a["ops"]]
        return {"agg": a}
    return copy.deepcopy(rv)


def _stmt(st, loff, smap):
    s2 = dict(st)
    s2["place"] = _place(st["place"], loff, smap)
    if "rv" in st:
        s2["rv"] = _rvalue(st["rv"], loff, smap)
    return s2


def _term(t, loff, boff, smap):
    t2 = dict(t)
    k = t["k"]
    if k == "goto":
        t2["t"] = t["t"] + boff
    elif k == "switch":
        t2["op"] = _operand(t["op"], loff, smap)
        t2["targets"] = [[v, bb + boff] for v, bb in t["targets"]]
        t2["otherwise"] = t["otherwise"] + boff
    elif k == "call":
        t2["func"] = _operand(t["func"], loff, smap)
        t2["args"] = [_operand(a, loff, smap) for a in t["args"]]
        t2["dest"] = _place(t["dest"], loff, smap)
        t2["t"] = (t["t"] + boff) if t["t"] is not None else None
        t2["unwind"] = None
    elif k == "drop":
        t2["place"] = _place(t["place"], loff, smap)
        t2["t"] = t["t"] + boff
        t2["unwind"] = None
    elif k == "assert":
        t2["cond"] = _operand(t["cond"], loff, smap)
        t2["t"] = t["t"] + boff
        t2["unwind"] = None
    return t2


def inline_call(caller_raw, b, helper_raw):
    """inline helper_raw at the call terminator of block b of caller_raw (both raw body dicts); mutates caller_raw"""
    blk = caller_raw["blocks"][b]
    t = blk["term"]
    fr = op_fn(t["func"])
    loff = len(caller_raw["locals"])
    boff = len(caller_raw["blocks"])
    # generic substitution: helper param names -> actual args at this call site
    smap = {}
    gens = helper_raw.get("generics") or []
    actual = (fr.get("resolved_args") if fr.get("resolved") else fr.get("args")) or []
    if len(gens) == len(actual):
        for g, a in zip(gens, actual):
            if not g.startswith("'") and g != a and not a.startswith("'"):
                smap[g] = a
    # locals
    for l in helper_raw["locals"]:
        caller_raw["locals"].append({"ty": _subst_ty(l["ty"], smap), "name": l.get("name")})
    # bind parameters
    for i, a in enumerate(t["args"]):
        if i + 1 <= helper_raw["arg_count"]:
            blk["stmts"].append({"k": "assign", "place": {"l": loff + 1 + i, "p": []}, "rv": {"use": a}, "line": t["line"], "exp": None, "inl": True})
    ret_target = t["t"]
    dest = t["dest"]
    # helper blocks
    for hb in helper_raw["blocks"]:
        nb = {"cleanup": hb["cleanup"], "stmts": [_stmt(s, loff, smap) for s in hb["stmts"]], "file": hb.get("file", helper_raw["file"])}
        ht = hb["term"]
        if ht["k"] == "return":
            nb["stmts"].append({"k": "assign", "place": copy.deepcopy(dest), "rv": {"use": {"move": {"l": loff, "p": []}}}, "line": ht["line"], "exp": None, "inl": True})
            if ret_target is not None:
                nb["term"] = {"k": "goto", "t": ret_target, "line": ht["line"], "exp": None}
            else:
                nb["term"] = {"k": "unreachable", "line": ht["line"], "exp": None}
        else:
            nb["term"] = _term(ht, loff, boff, smap)
        caller_raw["blocks"].append(nb)
    # a function item passed as an argument (`helper(.., register_x::<C>)`) is a constant: where the helper's body moves
    # that parameter on (into a call), the constant itself is what flows - provided the helper never re-assigns the parameter
    def _reified(a):
        """`f as fn(..) -> ..` (a function item coerced to a function pointer, assigned once): the function item"""
        p_ = mir.op_place(a)
        if p_ is None or p_["p"]:
            return None
        defs_ = [st for nb in caller_raw["blocks"][:boff] for st in nb["stmts"] if st["k"] == "assign" and st["place"]["l"] == p_["l"]]
        if len(defs_) != 1 or defs_[0]["place"]["p"] or any(nb["term"]["k"] == "call" and nb["term"]["dest"]["l"] == p_["l"] for nb in caller_raw["blocks"][:boff]):
            return None
        c_ = defs_[0].get("rv", {}).get("cast")
        if not c_ or "ReifyFnPointer" not in str(c_.get("kind")) or not isinstance(c_.get("op"), dict):
            return None
        k_ = c_["op"].get("const")
        return c_["op"] if isinstance(k_, dict) and k_.get("fn") else None
    queue_ = [(loff + 1 + i, a) for i, a in enumerate(t["args"])
              if i + 1 <= helper_raw["arg_count"] and isinstance(a, dict) and isinstance(a.get("const"), dict) and a["const"].get("fn")]
    queue_ += [(loff + 1 + i, _reified(a)) for i, a in enumerate(t["args"]) if i + 1 <= helper_raw["arg_count"] and isinstance(a, dict) and _reified(a) is not None]
    done_ = set()
    while queue_:
        pl, a = queue_.pop()
        if pl in done_:
            continue
        done_.add(pl)
        reassigned = False
        for nb in caller_raw["blocks"][boff:]:
            for st in nb["stmts"]:
                if st["k"] == "assign" and st["place"]["l"] == pl:
                    reassigned = True
            tt = nb["term"]
            if tt["k"] == "call" and tt["dest"]["l"] == pl:
                reassigned = True
        if reassigned:
            continue
        def _sub(x, pl=pl, a=a):
            if isinstance(x, dict):
                for kk in ("move", "copy"):
                    if kk in x and isinstance(x[kk], dict) and x[kk].get("l") == pl and not x[kk].get("p"):
                        return copy.deepcopy(a)
                return {k2: _sub(v2) for k2, v2 in x.items()}
            if isinstance(x, list):
                return [_sub(v2) for v2 in x]
            return x
        for nb in caller_raw["blocks"][boff:]:
            nb["stmts"] = [_sub(st) for st in nb["stmts"]]
            nb["term"] = _sub(nb["term"])
        # the helper's own temporaries that now hold the constant (`let f = system; call(f)`)
        for nb in caller_raw["blocks"][boff:]:
            for st in nb["stmts"]:
                if st["k"] == "assign" and not st["place"]["p"] and st["place"]["l"] >= loff and "use" in st.get("rv", {}) \
                        and isinstance(st["rv"]["use"].get("const"), dict) and st["rv"]["use"]["const"].get("fn"):
                    l2 = st["place"]["l"]
                    nas = sum(1 for nb2 in caller_raw["blocks"][boff:] for st2 in nb2["stmts"] if st2["k"] == "assign" and st2["place"]["l"] == l2) \
                        + sum(1 for nb2 in caller_raw["blocks"][boff:] if nb2["term"]["k"] == "call" and nb2["term"]["dest"]["l"] == l2)
                    if nas == 1 and l2 not in done_:
                        done_.add(l2)
                        a2 = st["rv"]["use"]
                        def _sub2(x, l2=l2, a2=a2):
                            if isinstance(x, dict):
                                for kk in ("move", "copy"):
                                    if kk in x and isinstance(x[kk], dict) and x[kk].get("l") == l2 and not x[kk].get("p"):
                                        return copy.deepcopy(a2)
                                return {k2: _sub2(v2) for k2, v2 in x.items()}
                            if isinstance(x, list):
                                return [_sub2(v2) for v2 in x]
                            return x
                        for nb3 in caller_raw["blocks"][boff:]:
                            nb3["term"] = _sub2(nb3["term"])
    blk["term"] = {"k": "goto", "t": boff, "line": t["line"], "exp": None, "inlined": helper_raw["path"]}
    seeds = caller_raw.setdefault("thread_seeds", [])
    for sd_ in helper_raw.get("thread_seeds") or []:
        seeds.append(loff + sd_)             # what was worth separating inside the helper still is
    seeds.append(loff)                       # the helper's return place
    if not dest["p"]:
        seeds.append(dest["l"])              # the call's destination
    # the helper's parameters and the temporaries bound to them: a variant / constant passed by this call site (`None`,
    # `Some(x)`, `true`) decides the helper's matches for this site only
    for i, a in enumerate(t["args"]):
        if i + 1 <= helper_raw["arg_count"]:
            seeds.append(loff + 1 + i)
            p = mir.op_place(a)
            if p is not None and not p["p"]:
                seeds.append(p["l"])


def inline_at(prog, body, block):
    """a new Body equal to `body` with the crate-local callee of the call terminating `block` inlined (variants threaded),
    or None when the callee is not a crate-local, non-recursive function. Used by rules that must look through one
    specific call (the rule names the call site); semantics are preserved."""
    t = body.blocks[block]["term"]
    if t["k"] != "call":
        return None
    fr = op_fn(t["func"])
    callee = prog.resolve_local(fr) if fr is not None else None
    if callee is None or callee.path == body.path or callee.n > MAX_BLOCKS:
        return None
    if any(f2 is not None and prog.resolve_local(f2) is callee for _, _, f2 in callee.iter_calls()):
        return None
    raw = copy.deepcopy(body.raw)
    inline_call(raw, block, copy.deepcopy(callee.raw))
    try:
        raw = thread_variants(raw)
    except Exception:
        pass
    return mir.Body(raw, prog)


def split_chain_loops(raws, facts):
    """`for x in a.chain(b) { body }` is rewritten (in the view) into `for x in a { body } for x in b { body }`: `Chain`
    yields every item of `a`, then every item of `b`, and pulls from `b` only after `a` is exhausted. The loop's blocks are
    copied; the first copy is driven by `a` and falls through into the second, which is driven by `b` and leaves through the
    original exit. Only when the loop's single way out is the exhaustion arm of its `next()` (a `break` / `return` in the body
    would have to skip the second loop). Returns the number of loops split."""
    n = 0
    for path, raw in list(raws.items()):
        try:
            body = mir.Body(raw, None)
        except Exception:
            continue
        B = raw["blocks"]
        for cb in range(len(B)):
            t = B[cb]["term"]
            if t["k"] != "call" or B[cb]["cleanup"] or len(t.get("args", [])) != 2 or t.get("t") is None:
                continue
            fr = op_fn(t["func"])
            if fr is None or not fr["path"].endswith("iterator::Iterator::chain") or t["dest"]["p"]:
                continue
            c = t["dest"]["l"]
            # (handed on by whole-value moves: the return place of an inlined helper that built the chain)
            for _ in range(4):
                mv_ = [st for nb_ in B for st in nb_["stmts"] if st["k"] == "assign" and "use" in st.get("rv", {})
                       and mir.op_place(st["rv"]["use"]) == {"l": c, "p": []} and not st["place"]["p"]]
                if len(mv_) != 1:
                    break
                y_ = mv_[0]["place"]["l"]
                if sum(1 for nb_ in B for st in nb_["stmts"] if st["k"] == "assign" and st["place"]["l"] == y_) != 1 \
                        or any(nb_["term"]["k"] == "call" and nb_["term"]["dest"]["l"] == y_ for nb_ in B):
                    break
                c = y_
            # the iterator the loop pulls from: `it = into_iter(move c)` (or c itself)
            it = c
            into_b = None
            for b2 in range(len(B)):
                t2 = B[b2]["term"]
                if t2["k"] == "call" and t2["args"] and not t2["dest"]["p"]:
                    f2 = op_fn(t2["func"])
                    p2 = mir.op_place(t2["args"][0])
                    if f2 is not None and f2["path"].endswith("IntoIterator::into_iter") and p2 is not None and not p2["p"] and p2["l"] == c:
                        it, into_b = t2["dest"]["l"], b2
            # the `next(&mut it)` call and its loop (the for-desugaring moves the iterator into a binding and reborrows it)
            sdef = {}
            for b2 in range(len(B)):
                for st in B[b2]["stmts"]:
                    if st["k"] == "assign" and not st["place"]["p"]:
                        sdef.setdefault(st["place"]["l"], []).append(st.get("rv", {}))
                t2 = B[b2]["term"]
                if t2["k"] == "call" and not t2["dest"]["p"]:
                    sdef.setdefault(t2["dest"]["l"], []).append({"call": True})

            def root(l, depth=0):
                ds = sdef.get(l, [])
                if depth > 8 or len(ds) != 1:
                    return l
                rv = ds[0]
                if "ref" in rv and all(e == "deref" for e in rv["ref"]["p"]):
                    return root(rv["ref"]["l"], depth + 1)
                if "use" in rv:
                    p_ = mir.op_place(rv["use"])
                    if p_ is not None and not p_["p"]:
                        return root(p_["l"], depth + 1)
                return l
            nb = None
            for b2 in range(len(B)):
                t2 = B[b2]["term"]
                if t2["k"] != "call" or not t2["args"]:
                    continue
                f2 = op_fn(t2["func"])
                if f2 is None or not f2["path"].endswith("iterator::Iterator::next"):
                    continue
                p2 = mir.op_place(t2["args"][0])
                if p2 is None or p2["p"]:
                    continue
                if root(p2["l"]) == it:
                    nb = b2
            if nb is None:
                continue
            loop = None
            for (h, lbody, backs) in body.loops():
                if nb in lbody and (loop is None or len(lbody) < len(loop[1])):
                    loop = (h, set(lbody), backs)
            if loop is None:
                continue
            h, LB, backs = loop
            # exits: only from the switch on next()'s result, to one non-cleanup block
            exits = [(x, s) for x in LB for s in body.succ[x] if s not in LB and not B[s]["cleanup"] and body.can_reach_return(s)]
            srcs = {x for x, s in exits}
            tgts = {s for x, s in exits}
            nt = B[nb]["term"].get("t")
            if len(tgts) != 1 or len(srcs) != 1 or nt is None or next(iter(srcs)) not in (nt, nb) or B[next(iter(srcs))]["term"]["k"] != "switch":
                continue
            X = next(iter(tgts))
            L = raw["locals"]
            pa, pb = mir.op_place(t["args"][0]), mir.op_place(t["args"][1])
            if pa is None or pb is None:
                continue
            L.append({"ty": L[pa["l"]]["ty"] if not pa["p"] else "chain::First", "name": None})
            itA = len(L) - 1
            L.append({"ty": L[pb["l"]]["ty"] if not pb["p"] else "chain::Second", "name": None})
            itB = len(L) - 1
            line = t.get("line")
            B[cb]["stmts"] = list(B[cb]["stmts"]) + [
                {"k": "assign", "place": {"l": itA, "p": []}, "rv": {"use": copy.deepcopy(t["args"][0])}, "line": line, "exp": None, "inl": True},
                {"k": "assign", "place": {"l": itB, "p": []}, "rv": {"use": copy.deepcopy(t["args"][1])}, "line": line, "exp": None, "inl": True}]
            B[cb]["term"] = {"k": "goto", "t": t["t"], "line": line, "exp": None, "desugared": "chain"}
            if into_b is not None:
                B[into_b]["term"] = {"k": "goto", "t": B[into_b]["term"]["t"], "line": line, "exp": None, "desugared": "chain"}
            # copy the loop
            order = sorted(LB)
            remap = {b_: len(B) + i for i, b_ in enumerate(order)}

            def retarget(term, m):
                tt = copy.deepcopy(term)
                k = tt["k"]
                if k == "goto":
                    tt["t"] = m.get(tt["t"], tt["t"])
                elif k == "switch":
                    tt["targets"] = [[v, m.get(bb, bb)] for v, bb in tt["targets"]]
                    tt["otherwise"] = m.get(tt["otherwise"], tt["otherwise"])
                elif k in ("call", "drop", "assert"):
                    if tt.get("t") is not None:
                        tt["t"] = m.get(tt["t"], tt["t"])
                return tt
            # the second loop gets locals of its own for everything assigned inside the loop (the flow-insensitive provenance
            # queries would otherwise see both drivers behind one reference temporary)
            assigned = set()
            for b_ in order:
                for st in B[b_]["stmts"]:
                    if st["k"] == "assign":
                        assigned.add(st["place"]["l"])
                tt_ = B[b_]["term"]
                if tt_["k"] == "call":
                    assigned.add(tt_["dest"]["l"])
            assigned = {l_ for l_ in assigned if l_ > raw["arg_count"] and l_ != 0}
            lmap = {}
            for l_ in sorted(assigned):
                L.append({"ty": L[l_]["ty"], "name": L[l_].get("name")})
                lmap[l_] = len(L) - 1

            def relocal(x):
                if isinstance(x, dict):
                    if "l" in x and "p" in x and isinstance(x["l"], int) and isinstance(x["p"], list):
                        return {"l": lmap.get(x["l"], x["l"]),
                                "p": [({**e, "index": lmap.get(e["index"], e["index"])} if isinstance(e, dict) and "index" in e else e) for e in x["p"]]}
                    return {k_: relocal(v_) for k_, v_ in x.items()}
                if isinstance(x, list):
                    return [relocal(v_) for v_ in x]
                return x
            for b_ in order:
                nbk = {"cleanup": B[b_]["cleanup"], "stmts": relocal(copy.deepcopy(B[b_]["stmts"])), "term": relocal(retarget(B[b_]["term"], remap))}
                if "file" in B[b_]:
                    nbk["file"] = B[b_]["file"]
                B.append(nbk)
            # first copy (the original blocks): driven by a, exhaustion falls into the second loop's header
            def redrive(blocks_, new_it):
                for b3 in blocks_:
                    for st in B[b3]["stmts"]:
                        if st["k"] == "assign" and "ref" in st.get("rv", {}) and not st["rv"]["ref"]["p"] and root(st["rv"]["ref"]["l"]) == it \
                                and len(sdef.get(st["rv"]["ref"]["l"], [])) == 1 and "ref" not in sdef[st["rv"]["ref"]["l"]][0]:
                            st["rv"]["ref"]["l"] = new_it
            redrive(order, itA)
            redrive([remap[b_] for b_ in order], itB)
            for b_ in order:
                B[b_]["term"] = retarget(B[b_]["term"], {X: remap[h]})
            n += 1
            break       # block indices of this body changed: one chain per body and pass
    return n


def peel_map_loops(raws, facts, helpers=()):
    """`for x in iter.map(f) { body }` is rewritten (in the view) into `for y in iter { let x = f(y); body }`: `Map::next` is
    `inner.next().map(f)` - `f` runs once per element, right when the loop pulls it. The `Iterator::map` call becomes a move of
    the inner iterator and the loop's `next()` is followed by the `match` that `Map::next` is: `None => None`,
    `Some(y) => Some(f(y))`, with a closure `f` inlined (a function item stays a call; a new helper is inlined later like any
    other). Only when the adapter feeds exactly one `for`-style loop in the same function. Returns the number of loops peeled."""
    n = 0
    cur = mir.Program(dict(facts, bodies=list(raws.values())))
    for path, raw in list(raws.items()):
        body = cur.by_path.get(path)
        if body is None:
            continue
        B = raw["blocks"]
        L = raw["locals"]
        for cb in range(len(B)):
            t = B[cb]["term"]
            if t["k"] != "call" or B[cb]["cleanup"] or len(t.get("args", [])) != 2 or t.get("t") is None or t["dest"]["p"]:
                continue
            fr = op_fn(t["func"])
            if fr is None or not fr["path"].endswith("iterator::Iterator::map"):
                continue
            m = t["dest"]["l"]
            # f: a function item of one parameter, or a closure built here
            map_fn = None
            map_clo = None
            fi_ = op_fn(t["args"][1])
            if fi_ is not None:
                # a pinned function in a `map` adapter is an idiom the loop rules read directly (`iter().map(ReactorHandle::sys_command)`);
                # only a *new* function (which the view is about to inline) hides what the loop's element is
                tgt_ = cur.resolve_local(fi_)
                if tgt_ is None or tgt_.arg_count != 1 or tgt_.path not in helpers:
                    continue
                map_fn = t["args"][1]
            else:
                mos_ = mir.origins(body, t["args"][1])
                if len(mos_) == 1:
                    mo_ = next(iter(mos_))
                    if mo_[0] == "agg" and len(mo_) == 3:
                        mag_ = B[mo_[1]]["stmts"][mo_[2]]["rv"].get("agg")
                        if mag_ and mag_.get("kind") == "closure" and mag_.get("closure") in raws and raws[mag_["closure"]]["arg_count"] == 2 \
                                and len(raws[mag_["closure"]]["blocks"]) < 40 and mir.op_place(t["args"][1]) is not None:
                            map_clo = (raws[mag_["closure"]], mir.op_place(t["args"][1]))
            if map_fn is None and map_clo is None:
                continue
            # every use of the adapter: one `into_iter(move m)` (possibly after whole-value moves: an inlined helper's return)
            def _uses(l_):
                stm_, calls_ = [], []
                for b2 in range(len(B)):
                    t2 = B[b2]["term"]
                    for st in B[b2]["stmts"]:
                        if st["k"] == "assign" and _mentions_local(st.get("rv"), l_):
                            stm_.append(st)
                    if t2["k"] == "call":
                        for a_ in t2.get("args", []):
                            p_ = mir.op_place(a_)
                            if p_ is not None and p_["l"] == l_:
                                calls_.append((b2, t2, p_))
                    elif t2["k"] in ("switch", "drop") and _mentions_local({k_: v_ for k_, v_ in t2.items() if k_ in ("op", "place")}, l_):
                        stm_.append(t2)
                return stm_, calls_
            carrier = m
            moved_through = []
            for _ in range(4):
                stm_, calls_ = _uses(carrier)
                if len(stm_) == 1 and not calls_ and stm_[0].get("k") == "assign" and "use" in stm_[0]["rv"] and not stm_[0]["place"]["p"] \
                        and mir.op_place(stm_[0]["rv"]["use"]) == {"l": carrier, "p": []} \
                        and sum(1 for nb_ in B for st_ in nb_["stmts"] if st_["k"] == "assign" and st_["place"]["l"] == stm_[0]["place"]["l"]) == 1 \
                        and not any(nb_["term"]["k"] == "call" and nb_["term"]["dest"]["l"] == stm_[0]["place"]["l"] for nb_ in B):
                    moved_through.append(stm_[0]["place"]["l"])
                    carrier = stm_[0]["place"]["l"]
                    continue
                break
            stm_, calls_ = _uses(carrier)
            it, into_b = None, None
            if not stm_ and len(calls_) == 1:
                b2, t2, p_ = calls_[0]
                f2 = op_fn(t2["func"])
                if f2 is not None and f2["path"].endswith("IntoIterator::into_iter") and not p_["p"] and not t2["dest"]["p"] and len(t2["args"]) == 1:
                    it, into_b = t2["dest"]["l"], b2
            if it is None:
                continue
            sdef = {}
            for b2 in range(len(B)):
                for st in B[b2]["stmts"]:
                    if st["k"] == "assign" and not st["place"]["p"]:
                        sdef.setdefault(st["place"]["l"], []).append(st.get("rv", {}))
                t2 = B[b2]["term"]
                if t2["k"] == "call" and not t2["dest"]["p"]:
                    sdef.setdefault(t2["dest"]["l"], []).append({"call": True})

            def root(l, depth=0):
                ds = sdef.get(l, [])
                if depth > 8 or len(ds) != 1:
                    return l
                rv = ds[0]
                if "ref" in rv and all(e == "deref" for e in rv["ref"]["p"]):
                    return root(rv["ref"]["l"], depth + 1)
                if "use" in rv:
                    p_ = mir.op_place(rv["use"])
                    if p_ is not None and not p_["p"]:
                        return root(p_["l"], depth + 1)
                return l
            nbs = []
            other_use = False
            for b2 in range(len(B)):
                t2 = B[b2]["term"]
                if t2["k"] != "call" or B[b2]["cleanup"]:
                    continue
                f2 = op_fn(t2["func"])
                for a_ in t2.get("args", []):
                    p_ = mir.op_place(a_)
                    if p_ is None or p_["p"] or b2 == into_b:
                        continue
                    if root(p_["l"]) == it:
                        if f2 is not None and f2["path"].endswith("iterator::Iterator::next") and len(t2["args"]) == 1 and not t2["dest"]["p"] and t2.get("t") is not None:
                            nbs.append(b2)
                        else:
                            other_use = True
            if len(nbs) != 1 or other_use:
                continue
            nb = nbs[0]
            if not any(nb in lbody for (h, lbody, backs) in body.loops()):
                continue
            nt_ = B[nb]["term"]
            d = nt_["dest"]["l"]
            exit_t = nt_["t"]
            line = nt_.get("line")

            def new_local(ty, name=None):
                L.append({"ty": ty, "name": name})
                return len(L) - 1
            pa = mir.op_place(t["args"][0])
            inner_ty = L[pa["l"]]["ty"] if pa is not None and not pa["p"] else "desugared::Iter"
            L[m] = dict(L[m], ty=inner_ty)
            L[it] = dict(L[it], ty=inner_ty)
            for l_ in moved_through:
                L[l_] = dict(L[l_], ty=inner_ty)
            l_o = new_local("core::option::Option<desugared::Item>")
            l_d = new_local("isize")
            l_x = new_local("desugared::Item")
            l_r = new_local("desugared::Mapped")
            base = len(B)
            S, N, P, W, U = base, base + 1, base + 2, base + 3, base + 4
            # the adapter is the inner iterator
            B[cb]["stmts"] = list(B[cb]["stmts"]) + [{"k": "assign", "place": {"l": m, "p": []}, "rv": {"use": copy.deepcopy(t["args"][0])}, "line": t.get("line"), "exp": None, "inl": True}]
            B[cb]["term"] = {"k": "goto", "t": t["t"], "line": t.get("line"), "exp": None, "desugared": "map-loop"}
            nt_["dest"] = {"l": l_o, "p": []}
            nt_["t"] = S
            B.append({"cleanup": False, "stmts": [{"k": "assign", "place": {"l": l_d, "p": []}, "rv": {"discr": {"l": l_o, "p": []}}, "line": line, "exp": None, "inl": True}],
                      "term": {"k": "switch", "op": {"move": {"l": l_d, "p": []}}, "targets": [[0, N], [1, P]], "otherwise": U, "line": line, "exp": None}})
            B.append({"cleanup": False, "stmts": [{"k": "assign", "place": {"l": d, "p": []}, "rv": {"agg": {"kind": "adt", "adt": "core::option::Option", "variant": 0, "vname": "None", "fields": [], "ops": []}},
                                                    "line": line, "exp": None, "inl": True}],
                      "term": {"k": "goto", "t": exit_t, "line": line, "exp": None}})
            some_x = {"move": {"l": l_o, "p": [{"downcast": 1, "name": "Some"}, {"f": 0, "ty": "desugared::Item", "name": "0", "variant": "Some", "adt": "core::option::Option"}]}}
            pstm = [{"k": "assign", "place": {"l": l_x, "p": []}, "rv": {"use": some_x}, "line": line, "exp": None, "inl": True}]
            if map_clo is not None:
                l_mref = new_local("&mut closure")
                mcp = map_clo[1]
                pstm.append({"k": "assign", "place": {"l": l_mref, "p": []}, "rv": {"ref": {"l": mcp["l"], "p": list(mcp["p"])}, "mut": True}, "line": line, "exp": None, "inl": True})
                B.append({"cleanup": False, "stmts": pstm,
                          "term": {"k": "call", "func": {"const": {"fn": {"path": map_clo[0]["path"], "resolved": map_clo[0]["path"], "args": []}, "ty": "fn"}},
                                   "args": [{"move": {"l": l_mref, "p": []}}, {"move": {"l": l_x, "p": []}}],
                                   "dest": {"l": l_r, "p": []}, "t": W, "unwind": None, "line": line, "exp": None}})
            else:
                B.append({"cleanup": False, "stmts": pstm,
                          "term": {"k": "call", "func": copy.deepcopy(map_fn), "args": [{"move": {"l": l_x, "p": []}}],
                                   "dest": {"l": l_r, "p": []}, "t": W, "unwind": None, "line": line, "exp": None}})
            B.append({"cleanup": False, "stmts": [{"k": "assign", "place": {"l": d, "p": []}, "rv": {"agg": {"kind": "adt", "adt": "core::option::Option", "variant": 1, "vname": "Some", "fields": ["0"],
                                                                                                       "ops": [{"move": {"l": l_r, "p": []}}]}}, "line": line, "exp": None, "inl": True}],
                      "term": {"k": "goto", "t": exit_t, "line": line, "exp": None}})
            B.append({"cleanup": False, "stmts": [], "term": {"k": "unreachable", "line": line, "exp": None}})
            raw.setdefault("thread_seeds", []).extend([d, l_o])
            if map_clo is not None:
                inline_call(raw, P, copy.deepcopy(map_clo[0]))
            n += 1
            break       # defs of this body changed: one adapter per body and pass
    return n


def _mentions_local(x, l):
    if isinstance(x, dict):
        if "l" in x and "p" in x and x["l"] == l:
            return True
        return any(_mentions_local(v, l) for v in x.values())
    if isinstance(x, list):
        return any(_mentions_local(v, l) for v in x)
    return False


def desugar_extend(raws, facts):
    """`v.extend(iter.map(f))` / `v.extend(iter)` on a Vec is rewritten (in the view) into the loop it stands for:

        let mut it = iter.into_iter(); loop { match it.next() { Some(x) => v.push(f(x)), None => break } }

    with the closure body of `f` inlined, so that the loop rules (one command per element, no early exit, canonical
    iteration source) read it exactly like a hand-written `for` loop. Semantics preserved (`Extend for Vec` pushes every
    item in iteration order; a size-hint reservation is not observable). Returns the number of rewritten calls."""
    n = 0
    cur = mir.Program(dict(facts, bodies=list(raws.values())))
    for path, raw in list(raws.items()):
        body = cur.by_path.get(path)
        if body is None:
            continue
        for b in range(len(raw["blocks"])):
            blk = raw["blocks"][b]
            t = blk["term"]
            if t["k"] != "call" or blk["cleanup"]:
                continue
            fr = op_fn(t["func"])
            if fr is None or len(t["args"]) != 2 or t.get("t") is None:
                continue
            is_extend = (fr.get("resolved") or "").startswith("<alloc::vec::Vec<T, A> as core::iter::traits::collect::Extend<T>>::extend")
            # `iter.for_each(f)` is `for x in iter { f(x) }`
            is_for_each = fr["path"].endswith("iterator::Iterator::for_each")
            if not is_extend and not is_for_each:
                continue
            it_op = t["args"][1] if is_extend else t["args"][0]
            clo_op = t["args"][1] if is_for_each else None
            p = mir.op_place(it_op)
            if is_extend and p is not None and not p["p"]:
                ds = [d for d in body.defs.get(p["l"], []) if d[0] in ("stmt", "call")]
                if len(ds) == 1 and ds[0][0] == "call":
                    mt = ds[0][2]
                    mfr = op_fn(mt["func"])
                    if mfr is not None and mfr["path"].endswith("iterator::Iterator::map") and len(mt["args"]) == 2:
                        it_op, clo_op = mt["args"][0], mt["args"][1]
            # `iter.map(f).for_each(g)` is `for x in iter { g(f(x)) }` (map is lazy: f runs once per element, right before g)
            map_fn = None
            map_clo = None
            if is_for_each and p is not None and not p["p"]:
                ds = [d for d in body.defs.get(p["l"], []) if d[0] in ("stmt", "call")]
                if len(ds) == 1 and ds[0][0] == "call":
                    mt = ds[0][2]
                    mfr = op_fn(mt["func"])
                    if mfr is not None and mfr["path"].endswith("iterator::Iterator::map") and len(mt["args"]) == 2:
                        fi_ = op_fn(mt["args"][1])
                        if fi_ is not None and cur.resolve_local(fi_) is not None and cur.resolve_local(fi_).arg_count == 1:
                            map_fn = mt["args"][1]
                            it_op = mt["args"][0]
                        elif fi_ is None:
                            # `.map(|x| ..)` with a closure built here: same peeling, the closure's body inlined
                            mos_ = mir.origins(body, mt["args"][1])
                            if len(mos_) == 1:
                                mo_ = next(iter(mos_))
                                if mo_[0] == "agg" and len(mo_) == 3:
                                    mag_ = raw["blocks"][mo_[1]]["stmts"][mo_[2]]["rv"].get("agg")
                                    if mag_ and mag_.get("kind") == "closure" and mag_.get("closure") in raws and raws[mag_["closure"]]["arg_count"] == 2 \
                                            and len(raws[mag_["closure"]]["blocks"]) < 40 and mir.op_place(mt["args"][1]) is not None:
                                        map_clo = (raws[mag_["closure"]], mir.op_place(mt["args"][1]))
                                        map_fn = True
                                        it_op = mt["args"][0]
            clo_raw = None
            if clo_op is not None:
                os_ = mir.origins(body, clo_op)
                if len(os_) == 1:
                    o = next(iter(os_))
                    if o[0] == "agg" and len(o) == 3:
                        ag = raw["blocks"][o[1]]["stmts"][o[2]]["rv"].get("agg")
                        if ag and ag.get("kind") == "closure" and ag.get("closure") in raws and raws[ag["closure"]]["arg_count"] == 2:
                            clo_raw = raws[ag["closure"]]
                if clo_raw is None:
                    continue
            elem_ty = (fr.get("resolved_args") or fr.get("args") or ["?"])[0] if is_extend else "()"
            line = t.get("line")
            L = raw["locals"]

            def new_local(ty, name=None):
                L.append({"ty": ty, "name": name})
                return len(L) - 1
            l_it = new_local("desugared::Iter", "iter")
            l_ref = new_local("&mut desugared::Iter")
            l_o = new_local("core::option::Option<desugared::Item>")
            l_d = new_local("isize")
            l_x = new_local("desugared::Item")
            l_y = new_local(elem_ty)
            l_u = new_local("()")
            l_cref = new_local("&mut closure") if clo_raw is not None else None
            B = raw["blocks"]
            base = len(B)
            H, S, P, Q, U = base, base + 1, base + 2, base + 3, base + 4
            exit_t = t["t"]

            def fnref(path_, resolved=None, args=()):
                return {"const": {"fn": {"path": path_, "resolved": resolved or path_, "args": list(args)}, "ty": "fn"}}
            # header: o = it.next()
            B.append({"cleanup": False, "stmts": [{"k": "assign", "place": {"l": l_ref, "p": []}, "rv": {"ref": {"l": l_it, "p": []}, "mut": True}, "line": line, "exp": None, "inl": True}],
                      "term": {"k": "call", "func": fnref("core::iter::traits::iterator::Iterator::next"), "args": [{"move": {"l": l_ref, "p": []}}],
                               "dest": {"l": l_o, "p": []}, "t": S, "unwind": None, "line": line, "exp": None}})
            B.append({"cleanup": False, "stmts": [{"k": "assign", "place": {"l": l_d, "p": []}, "rv": {"discr": {"l": l_o, "p": []}}, "line": line, "exp": None, "inl": True}],
                      "term": {"k": "switch", "op": {"move": {"l": l_d, "p": []}}, "targets": [[0, exit_t], [1, P]], "otherwise": U, "line": line, "exp": None}})
            some_x = {"move": {"l": l_o, "p": [{"downcast": 1, "name": "Some"}, {"f": 0, "ty": "desugared::Item", "name": "0", "adt": "core::option::Option"}]}}
            pstm = [{"k": "assign", "place": {"l": l_x, "p": []}, "rv": {"use": some_x}, "line": line, "exp": None, "inl": True}]
            if clo_raw is None:
                pstm.append({"k": "assign", "place": {"l": l_y, "p": []}, "rv": {"use": {"move": {"l": l_x, "p": []}}}, "line": line, "exp": None, "inl": True})
                B.append({"cleanup": False, "stmts": pstm, "term": {"k": "goto", "t": Q, "line": line, "exp": None}})
            elif map_fn is not None:
                # P: m = f(x) -> P2 (appended behind U): g(&mut clo, m)
                l_m = new_local("desugared::Mapped")
                if map_clo is not None:
                    l_mref = new_local("&mut closure")
                    mcp = map_clo[1]
                    pstm.append({"k": "assign", "place": {"l": l_mref, "p": []}, "rv": {"ref": {"l": mcp["l"], "p": list(mcp["p"])}, "mut": True}, "line": line, "exp": None, "inl": True})
                    B.append({"cleanup": False, "stmts": pstm,
                              "term": {"k": "call", "func": fnref(map_clo[0]["path"]), "args": [{"move": {"l": l_mref, "p": []}}, {"move": {"l": l_x, "p": []}}],
                                       "dest": {"l": l_m, "p": []}, "t": base + 5, "unwind": None, "line": line, "exp": None}})
                else:
                    B.append({"cleanup": False, "stmts": pstm,
                              "term": {"k": "call", "func": copy.deepcopy(map_fn), "args": [{"move": {"l": l_x, "p": []}}],
                                       "dest": {"l": l_m, "p": []}, "t": base + 5, "unwind": None, "line": line, "exp": None}})
            else:
                cp = mir.op_place(clo_op)
                pstm.append({"k": "assign", "place": {"l": l_cref, "p": []}, "rv": {"ref": {"l": cp["l"], "p": list(cp["p"])}, "mut": True}, "line": line, "exp": None, "inl": True})
                B.append({"cleanup": False, "stmts": pstm,
                          "term": {"k": "call", "func": fnref(clo_raw["path"]), "args": [{"move": {"l": l_cref, "p": []}}, {"move": {"l": l_x, "p": []}}],
                                   "dest": {"l": l_y, "p": []}, "t": Q if is_extend else H, "unwind": None, "line": line, "exp": None}})
            B.append({"cleanup": False, "stmts": [],
                      "term": {"k": "call", "func": fnref("alloc::vec::Vec::<T, A>::push", args=[elem_ty, "alloc::alloc::Global"]),
                               "args": [{"copy": mir.op_place(t["args"][0])} if mir.op_place(t["args"][0]) is not None else t["args"][0], {"move": {"l": l_y, "p": []}}],
                               "dest": {"l": l_u, "p": []}, "t": H, "unwind": None, "line": line, "exp": None}})
            B.append({"cleanup": False, "stmts": [], "term": {"k": "unreachable", "line": line, "exp": None}})
            # the extend call becomes `it = into_iter(iterable)` -> header
            blk["term"] = {"k": "call", "func": fnref("core::iter::traits::collect::IntoIterator::into_iter"), "args": [it_op], "dest": {"l": l_it, "p": []},
                           "t": H, "unwind": None, "line": line, "exp": None, "desugared": "extend" if is_extend else "for_each"}
            if map_fn is not None and clo_raw is not None:
                cp = mir.op_place(clo_op)
                B.append({"cleanup": False, "stmts": [{"k": "assign", "place": {"l": l_cref, "p": []}, "rv": {"ref": {"l": cp["l"], "p": list(cp["p"])}, "mut": True}, "line": line, "exp": None, "inl": True}],
                          "term": {"k": "call", "func": fnref(clo_raw["path"]), "args": [{"move": {"l": l_cref, "p": []}}, {"move": {"l": l_m, "p": []}}],
                                   "dest": {"l": l_y, "p": []}, "t": H, "unwind": None, "line": line, "exp": None}})
                inline_call(raw, base + 5, copy.deepcopy(clo_raw))
                if map_clo is not None:
                    inline_call(raw, P, copy.deepcopy(map_clo[0]))
            elif clo_raw is not None:
                inline_call(raw, P, copy.deepcopy(clo_raw))
            n += 1
    return n


COMBINATORS = {
    # name -> (carrier, which variant reaches the closure, how the closure's result is wrapped)
    "Option::and_then": ("option", "good", "raw"), "Option::map": ("option", "good", "good"),
    "Result::and_then": ("result", "good", "raw"), "Result::map": ("result", "good", "good"),
    "Result::map_err": ("result", "bad", "bad"), "Option::ok_or_else": ("option", "bad0", "to_err"),
    "Option::unwrap_or_else": ("option", "bad0", "unwrap"), "Option::or_else": ("option", "bad0", "raw_opt"),
    # predicates: the closure's bool on the variant it sees, a constant on the other
    "Option::is_some_and": ("option", "good", "raw_false"), "Option::is_none_or": ("option", "good", "raw_true"),
    "Result::is_ok_and": ("result", "good", "raw_false"), "Result::is_err_and": ("result", "bad", "raw_false"),
}


def desugar_combinators(raws, facts):
    """`opt.and_then(|x| ..)`, `.map(..)`, `res.map_err(..)`, `opt.ok_or_else(..)`, `opt.unwrap_or_else(..)` with a closure built
    in the same function are rewritten (in the view) into the `match` they stand for, with the closure body inlined: what the
    closure does (a removal, a call of the runner, a trigger) then sits in the function's own CFG, on the arm that runs it.
    Semantics preserved: these std combinators call the closure exactly once on that variant and never otherwise."""
    n = 0
    consumed = []
    for path, raw in list(raws.items()):
        try:
            body = mir.Body(raw, None)
        except Exception:
            continue
        nblocks = len(raw["blocks"])
        for b in range(nblocks):
            blk = raw["blocks"][b]
            t = blk["term"]
            if t["k"] != "call" or blk["cleanup"] or t.get("t") is None or len(t["args"]) != 2:
                continue
            fr = op_fn(t["func"])
            if fr is None:
                continue
            nm = mir.tail2(fr["path"])
            if nm not in COMBINATORS:
                continue
            carrier, which, wrap = COMBINATORS[nm]
            os_ = mir.origins(body, t["args"][1])
            clo_raw = None
            if len(os_) == 1:
                o = next(iter(os_))
                if o[0] == "agg" and len(o) == 3:
                    ag = raw["blocks"][o[1]]["stmts"][o[2]]["rv"].get("agg")
                    if ag and ag.get("kind") == "closure" and ag.get("closure") in raws:
                        clo_raw = raws[ag["closure"]]
            cp = mir.op_place(t["args"][1])
            vp = mir.op_place(t["args"][0])
            if clo_raw is None or cp is None or vp is None or vp["p"] or t["dest"]["p"]:
                continue
            want_args = 1 if which == "bad0" else 2
            if clo_raw["arg_count"] != want_args:
                continue
            # only closures that *do* something the rules look for (a call into the crate, or a container mutation); pure
            # projections (`|v| v.len()`) stay as they are - the rules read those combinator idioms directly
            import tables as _T
            crate_fns = {r_["path"] for r_ in raws.values()}
            interesting = False
            for cb_ in clo_raw["blocks"]:
                ct_ = cb_["term"]
                if ct_["k"] == "call":
                    cfr_ = op_fn(ct_["func"])
                    if cfr_ is None:
                        continue
                    tgt_ = raws.get(cfr_.get("resolved") or "") or raws.get(cfr_["path"])
                    # a crate function that can change something (takes a `&mut`; read-only getters are pure)
                    mutating = tgt_ is not None and any(tgt_["locals"][i_]["ty"].startswith("&mut") for i_ in range(1, tgt_["arg_count"] + 1))
                    if mutating or _T.classify(cfr_["path"]) in ("order-preserving-remove", "order-destroying", "append-ordered"):
                        interesting = True
            # ... or that are a bare field projection (`|inner| inner.id`): no call at all, so nothing a rule reads as an idiom,
            # and the value's provenance (which field of which record) becomes visible in the parent
            if not interesting and nm in ("Option::map", "Result::map"):
                cbs_ = [cb_ for cb_ in clo_raw["blocks"] if not cb_["cleanup"]]
                def _plain_term(ct_):
                    if ct_["k"] in ("return", "goto"):
                        return True
                    if ct_["k"] == "call":       # smart-pointer plumbing (`Res<T>` -> `&T`)
                        f_ = op_fn(ct_["func"])
                        return f_ is not None and mir.tail2(f_["path"]) in ("Deref::deref", "DerefMut::deref_mut")
                    return False
                if all(_plain_term(cb_["term"]) for cb_ in cbs_) and \
                        all(st_["k"] != "assign" or "use" in st_["rv"] or "ref" in st_["rv"] for cb_ in cbs_ for st_ in cb_["stmts"]):
                    interesting = True
            # ... or that only *name* a failure (`map_err(|_| Failure::Missing)`, `ok_or_else(|| Failure::Empty)`): no call at all;
            # which failure a path carries then is a fact of the parent's flow
            if not interesting and nm in ("Result::map_err", "Option::ok_or_else"):
                cbs_ = [cb_ for cb_ in clo_raw["blocks"] if not cb_["cleanup"]]
                if all(cb_["term"]["k"] in ("return", "goto", "drop") for cb_ in cbs_):
                    interesting = True
            if not interesting:
                continue
            L = raw["locals"]
            vty = L[vp["l"]]["ty"]
            dty = L[t["dest"]["l"]]["ty"]
            if not vty.startswith("core::option::Option<" if carrier == "option" else "core::result::Result<"):
                continue

            def new_local(ty):
                L.append({"ty": ty, "name": None})
                return len(L) - 1
            line = t.get("line")
            good_v, bad_v = (1, 0) if carrier == "option" else (0, 1)
            good_n, bad_n = ("Some", "None") if carrier == "option" else ("Ok", "Err")
            l_d = new_local("isize")
            l_x = new_local("desugared::Payload")
            l_r = new_local(clo_raw["locals"][0]["ty"])
            l_self = new_local(clo_raw["locals"][1]["ty"])
            B = raw["blocks"]
            base = len(B)
            SW, CALL, WRAP, OTHER, UNR = base, base + 1, base + 2, base + 3, base + 4
            exit_t = t["t"]
            dest = t["dest"]
            run_v, run_n = (good_v, good_n) if which == "good" else (bad_v, bad_n)
            oth_v, oth_n = (bad_v, bad_n) if which == "good" else (good_v, good_n)
            adt = "core::option::Option" if carrier == "option" else "core::result::Result"
            B.append({"cleanup": False, "stmts": [{"k": "assign", "place": {"l": l_d, "p": []}, "rv": {"discr": {"l": vp["l"], "p": []}}, "line": line, "exp": None, "inl": True}],
                      "term": {"k": "switch", "op": {"move": {"l": l_d, "p": []}}, "targets": [[run_v, CALL], [oth_v, OTHER]], "otherwise": UNR, "line": line, "exp": None}})
            st_call = []
            sty = clo_raw["locals"][1]["ty"]
            if sty.startswith("&mut"):
                st_call.append({"k": "assign", "place": {"l": l_self, "p": []}, "rv": {"ref": {"l": cp["l"], "p": list(cp["p"])}, "mut": True}, "line": line, "exp": None, "inl": True})
            elif sty.startswith("&"):
                st_call.append({"k": "assign", "place": {"l": l_self, "p": []}, "rv": {"ref": {"l": cp["l"], "p": list(cp["p"])}, "mut": False}, "line": line, "exp": None, "inl": True})
            else:
                st_call.append({"k": "assign", "place": {"l": l_self, "p": []}, "rv": {"use": {"move": {"l": cp["l"], "p": list(cp["p"])}}}, "line": line, "exp": None, "inl": True})
            cargs = [{"move": {"l": l_self, "p": []}}]
            if want_args == 2:
                payload = {"move": {"l": vp["l"], "p": [{"downcast": run_v, "name": run_n}, {"f": 0, "ty": "desugared::Payload", "name": "0", "variant": run_n, "adt": adt}]}}
                st_call.append({"k": "assign", "place": {"l": l_x, "p": []}, "rv": {"use": payload}, "line": line, "exp": None, "inl": True})
                cargs.append({"move": {"l": l_x, "p": []}})
            B.append({"cleanup": False, "stmts": st_call,
                      "term": {"k": "call", "func": {"const": {"fn": {"path": clo_raw["path"], "resolved": clo_raw["path"], "args": []}, "ty": "fn"}}, "args": cargs,
                               "dest": {"l": l_r, "p": []}, "t": WRAP, "unwind": None, "line": line, "exp": None}})
            # wrap the closure's result
            if wrap in ("raw", "raw_opt", "unwrap", "raw_false", "raw_true"):
                wst = [{"k": "assign", "place": copy.deepcopy(dest), "rv": {"use": {"move": {"l": l_r, "p": []}}}, "line": line, "exp": None, "inl": True}]
            else:
                dadt = "core::option::Option" if dty.startswith("core::option::Option<") else "core::result::Result"
                if wrap == "good":
                    vi, vn = ((1, "Some") if dadt.endswith("Option") else (0, "Ok"))
                else:       # "bad" / "to_err"
                    vi, vn = (1, "Err")
                wst = [{"k": "assign", "place": copy.deepcopy(dest), "rv": {"agg": {"kind": "adt", "adt": dadt, "variant": vi, "vname": vn, "fields": ["0"],
                                                                                 "ops": [{"move": {"l": l_r, "p": []}}]}}, "line": line, "exp": None, "inl": True}]
            B.append({"cleanup": False, "stmts": wst, "term": {"k": "goto", "t": exit_t, "line": line, "exp": None}})
            # the variant the closure does not see
            if wrap in ("raw_false", "raw_true"):
                bv = 1 if wrap == "raw_true" else 0
                ost = [{"k": "assign", "place": copy.deepcopy(dest), "rv": {"use": {"const": {"ty": "bool", "val": bv, "repr": "true" if bv else "false"}}},
                        "line": line, "exp": None, "inl": True}]
            elif wrap == "unwrap":        # Some(x) => x
                ost = [{"k": "assign", "place": copy.deepcopy(dest), "rv": {"use": {"move": {"l": vp["l"], "p": [{"downcast": 1, "name": "Some"}, {"f": 0, "ty": dty, "name": "0", "variant": "Some", "adt": adt}]}}},
                        "line": line, "exp": None, "inl": True}]
            elif wrap == "raw_opt":     # Some(x) => Some(x)
                ost = [{"k": "assign", "place": copy.deepcopy(dest), "rv": {"use": {"move": {"l": vp["l"], "p": []}}}, "line": line, "exp": None, "inl": True}]
            elif wrap == "to_err":      # Some(x) => Ok(x)
                l_p = new_local("desugared::Payload")
                ost = [{"k": "assign", "place": {"l": l_p, "p": []}, "rv": {"use": {"move": {"l": vp["l"], "p": [{"downcast": 1, "name": "Some"}, {"f": 0, "ty": "desugared::Payload", "name": "0", "variant": "Some", "adt": adt}]}}},
                        "line": line, "exp": None, "inl": True},
                       {"k": "assign", "place": copy.deepcopy(dest), "rv": {"agg": {"kind": "adt", "adt": "core::result::Result", "variant": 0, "vname": "Ok", "fields": ["0"], "ops": [{"move": {"l": l_p, "p": []}}]}},
                        "line": line, "exp": None, "inl": True}]
            elif carrier == "option":   # None => None
                ost = [{"k": "assign", "place": copy.deepcopy(dest), "rv": {"agg": {"kind": "adt", "adt": "core::option::Option", "variant": 0, "vname": "None", "fields": [], "ops": []}},
                        "line": line, "exp": None, "inl": True}]
            else:                       # result: the other variant is carried over with its payload
                l_p = new_local("desugared::Payload")
                ost = [{"k": "assign", "place": {"l": l_p, "p": []}, "rv": {"use": {"move": {"l": vp["l"], "p": [{"downcast": oth_v, "name": oth_n}, {"f": 0, "ty": "desugared::Payload", "name": "0", "variant": oth_n, "adt": adt}]}}},
                        "line": line, "exp": None, "inl": True},
                       {"k": "assign", "place": copy.deepcopy(dest), "rv": {"agg": {"kind": "adt", "adt": "core::result::Result", "variant": oth_v, "vname": oth_n, "fields": ["0"], "ops": [{"move": {"l": l_p, "p": []}}]}},
                        "line": line, "exp": None, "inl": True}]
            B.append({"cleanup": False, "stmts": ost, "term": {"k": "goto", "t": exit_t, "line": line, "exp": None}})
            B.append({"cleanup": False, "stmts": [], "term": {"k": "unreachable", "line": line, "exp": None}})
            blk["term"] = {"k": "goto", "t": SW, "line": line, "exp": None, "desugared": nm}
            raw.setdefault("thread_seeds", []).extend([dest["l"], vp["l"]])      # which variant came out is worth separating
            inline_call(raw, CALL, copy.deepcopy(clo_raw))
            consumed.append(clo_raw["path"])
            n += 1
    # a closure whose only use was the desugared combinator now lives inside its parent: its stand-alone body would be read
    # out of context (its captured values look like parameters)
    for cpath in consumed:
        still_used = False
        for raw in raws.values():
            for blk in raw["blocks"]:
                t = blk["term"]
                if t["k"] == "call":
                    fr = op_fn(t["func"])
                    if fr is not None and fr.get("path") == cpath:
                        still_used = True
        if not still_used and cpath in raws and not any(r.get("parent") == cpath or r.get("root") == cpath for r in raws.values()):
            del raws[cpath]
    return n


def desugar_ctor_combinators(raws, facts):
    """`opt.map_or(default, Enum::Variant)` and `opt.map(Enum::Variant)` with a one-field variant constructor of a crate enum as the
    function are the `match` they stand for: `Some(v) => Enum::Variant(v)`, `None => default` (`None`). The constructor is a
    function item without a body; as an aggregate the variant it builds is a fact the view can thread. Returns the count."""
    ctors = {}
    for a in facts.get("adts", []):
        if a.get("kind") == "Enum":
            for v in a["variants"]:
                if len(v["fields"]) == 1:
                    ctors[a["path"] + "::" + v["name"]] = (a["path"], v.get("idx", a["variants"].index(v)), v["name"], v["fields"][0]["name"])
    n = 0
    for path, raw in list(raws.items()):
        B = raw["blocks"]
        L = raw["locals"]
        for b in range(len(B)):
            blk = B[b]
            t = blk["term"]
            if t["k"] != "call" or blk["cleanup"] or t.get("t") is None or t["dest"]["p"]:
                continue
            fr = op_fn(t["func"])
            if fr is None:
                continue
            nm = mir.tail2(fr["path"])
            if nm not in ("Option::map_or", "Option::map") or len(t["args"]) != (3 if nm == "Option::map_or" else 2):
                continue
            ffr = op_fn(t["args"][-1])
            vp = mir.op_place(t["args"][0])
            if ffr is None or vp is None or vp["p"]:
                continue
            ct = ctors.get(strip_generics(ffr["path"]))
            if ct is None:
                continue
            adt, vidx, vname, fname = ct
            line = t.get("line")
            L.append({"ty": "isize", "name": None})
            l_d = len(L) - 1
            L.append({"ty": "desugared::Payload", "name": None})
            l_x = len(L) - 1
            base = len(B)
            SW, SOME, NONE, UNR = base, base + 1, base + 2, base + 3
            dest = t["dest"]
            exit_t = t["t"]
            B.append({"cleanup": False, "stmts": [{"k": "assign", "place": {"l": l_d, "p": []}, "rv": {"discr": {"l": vp["l"], "p": []}}, "line": line, "exp": None, "inl": True}],
                      "term": {"k": "switch", "op": {"move": {"l": l_d, "p": []}}, "targets": [[1, SOME], [0, NONE]], "otherwise": UNR, "line": line, "exp": None}})
            payload = {"move": {"l": vp["l"], "p": [{"downcast": 1, "name": "Some"}, {"f": 0, "ty": "desugared::Payload", "name": "0", "variant": "Some", "adt": "core::option::Option"}]}}
            inner = {"agg": {"kind": "adt", "adt": adt, "variant": vidx, "vname": vname, "fields": [fname], "ops": [{"move": {"l": l_x, "p": []}}]}}
            some_st = [{"k": "assign", "place": {"l": l_x, "p": []}, "rv": {"use": payload}, "line": line, "exp": None, "inl": True}]
            if nm == "Option::map_or":
                some_st.append({"k": "assign", "place": copy.deepcopy(dest), "rv": inner, "line": line, "exp": None, "inl": True})
                none_st = [{"k": "assign", "place": copy.deepcopy(dest), "rv": {"use": copy.deepcopy(t["args"][1])}, "line": line, "exp": None, "inl": True}]
            else:
                L.append({"ty": adt, "name": None})
                l_v = len(L) - 1
                some_st.append({"k": "assign", "place": {"l": l_v, "p": []}, "rv": inner, "line": line, "exp": None, "inl": True})
                some_st.append({"k": "assign", "place": copy.deepcopy(dest), "rv": {"agg": {"kind": "adt", "adt": "core::option::Option", "variant": 1, "vname": "Some", "fields": ["0"],
                                                                                          "ops": [{"move": {"l": l_v, "p": []}}]}}, "line": line, "exp": None, "inl": True})
                none_st = [{"k": "assign", "place": copy.deepcopy(dest), "rv": {"agg": {"kind": "adt", "adt": "core::option::Option", "variant": 0, "vname": "None", "fields": [], "ops": []}},
                            "line": line, "exp": None, "inl": True}]
            B.append({"cleanup": False, "stmts": some_st, "term": {"k": "goto", "t": exit_t, "line": line, "exp": None}})
            B.append({"cleanup": False, "stmts": none_st, "term": {"k": "goto", "t": exit_t, "line": line, "exp": None}})
            B.append({"cleanup": False, "stmts": [], "term": {"k": "unreachable", "line": line, "exp": None}})
            blk["term"] = {"k": "goto", "t": SW, "line": line, "exp": None, "desugared": nm}
            raw.setdefault("thread_seeds", []).extend([dest["l"], vp["l"]])
            dp_ = mir.op_place(t["args"][1]) if nm == "Option::map_or" else None
            if dp_ is not None and not dp_["p"]:
                raw["thread_seeds"].append(dp_["l"])       # which variant the default is
            n += 1
    return n


def specialise_wrapped_closures(raws, facts):
    """A helper that takes `impl FnOnce(..)` and wraps it in a closure of its own (`queue(move |w| { let r = call(w); .. })`)
    hides what each caller's closure does behind one shared wrapper body. After the helper was inlined, the wrapper closure is
    built in the caller with the caller's closure as a captured value: the wrapper body is copied per building site and the
    captured closure's (small) body is inlined at the `call_once` of that capture. Semantics preserved: the capture is that
    closure at this site, and call_once runs its body exactly there."""
    n = 0
    cur = mir.Program(dict(facts, bodies=list(raws.values())))
    used = set()
    for path, raw in list(raws.items()):
        if not any(b.get("term", {}).get("inlined") for b in raw["blocks"]):
            continue
        body = cur.by_path[path]
        for bi, blk in enumerate(raw["blocks"]):
            for si, st in enumerate(blk["stmts"]):
                ag = st.get("rv", {}).get("agg") if st["k"] == "assign" else None
                if not ag or ag.get("kind") != "closure" or ag.get("closure") not in raws or ag["closure"] == path:
                    continue
                C = ag["closure"]
                inner = {}
                for k, op in enumerate(ag.get("ops") or []):
                    os_ = mir.origins(body, op)
                    if len(os_) != 1:
                        continue
                    o = next(iter(os_))
                    if o[0] == "agg" and len(o) == 3 and o[2] < len(raw["blocks"][o[1]]["stmts"]):
                        ag2 = raw["blocks"][o[1]]["stmts"][o[2]]["rv"].get("agg")
                        if ag2 and ag2.get("kind") == "closure" and ag2.get("closure") in raws and ag2["closure"] not in (C, path) \
                                and len(raws[ag2["closure"]]["blocks"]) < 60:
                            inner[k] = ag2["closure"]
                if not inner:
                    continue
                c2 = copy.deepcopy(raws[C])

                def single_def(l):
                    ds = [s_ for b_ in c2["blocks"] for s_ in b_["stmts"] if s_["k"] == "assign" and s_["place"]["l"] == l]
                    cs = [b_ for b_ in c2["blocks"] if b_["term"]["k"] == "call" and b_["term"]["dest"]["l"] == l]
                    return ds[0] if len(ds) == 1 and not cs and not ds[0]["place"]["p"] else None

                def captured_field(op, depth=0):
                    p = mir.op_place(op)
                    if p is None or depth > 3:
                        return None
                    if p["l"] == 1 and p["p"]:
                        pp = [e for e in p["p"] if e != "deref"]
                        if len(pp) == 1 and isinstance(pp[0], dict) and "f" in pp[0]:
                            return pp[0]["f"]
                        return None
                    if p["p"]:
                        return None
                    d = single_def(p["l"])
                    if d is None:
                        return None
                    rv = d["rv"]
                    if "use" in rv:
                        return captured_field(rv["use"], depth + 1)
                    if "ref" in rv:
                        return captured_field({"copy": rv["ref"]}, depth + 1)
                    return None
                hit = False
                for cb, cblk in enumerate(list(c2["blocks"])):
                    t = cblk["term"]
                    if t["k"] != "call" or len(t["args"]) != 2 or t.get("t") is None:
                        continue
                    fr = op_fn(t["func"])
                    if fr is None or mir.tail2(fr["path"]) not in ("FnOnce::call_once", "FnMut::call_mut", "Fn::call"):
                        continue
                    k = captured_field(t["args"][0])
                    if k is None or k not in inner:
                        continue
                    D = raws[inner[k]]
                    by_ref = D["locals"][1]["ty"].startswith("&")
                    if by_ref != (mir.tail2(fr["path"]) != "FnOnce::call_once"):
                        continue
                    tp = mir.op_place(t["args"][1])
                    td = single_def(tp["l"]) if tp is not None and not tp["p"] else None
                    tup = td["rv"].get("agg") if td is not None else None
                    if not tup or tup.get("kind") != "tuple" or len(tup["ops"]) + 1 != D["arg_count"]:
                        continue
                    t["func"] = {"const": {"fn": {"path": D["path"], "resolved": D["path"], "args": [], "devirtualised": fr["path"]}, "ty": "fn"}}
                    t["args"] = [t["args"][0]] + [copy.deepcopy(o_) for o_ in tup["ops"]]
                    inline_call(c2, cb, copy.deepcopy(D))
                    hit = True
                if not hit:
                    continue
                n += 1
                newp = "%s@%d" % (C, n)
                c2["path"] = newp
                c2["specialised_from"] = C
                raws[newp] = c2
                ag["closure"] = newp
                used.add(C)
    # the shared wrapper body goes when every building site got its own copy
    for C in used:
        still = any(st["k"] == "assign" and isinstance(st.get("rv", {}).get("agg"), dict) and st["rv"]["agg"].get("closure") == C
                    for r_ in raws.values() for b_ in r_["blocks"] for st in b_["stmts"])
        if not still and C in raws:
            del raws[C]
    return n


def devirtualise_closure_calls(raws, facts):
    """After a helper taking `impl FnOnce(..)` was inlined, the closure it was given is a local aggregate of the caller and
    `FnOnce::call_once(move closure, (args,))` is a call of a known closure body: rewrite the callee to that body (same
    argument convention: environment, argument tuple) so that interprocedural rules follow it. Only in bodies that received
    an inlining; the call is left alone unless its first argument is exactly one closure aggregate."""
    n = 0
    inlined_closures = []
    cur = mir.Program(dict(facts, bodies=list(raws.values())))
    for path, raw in list(raws.items()):
        if not any(b.get("term", {}).get("inlined") for b in raw["blocks"]):
            continue
        body = cur.by_path[path]
        for b, blk in enumerate(list(raw["blocks"])):
            t = blk["term"]
            if t["k"] != "call":
                continue
            fr = op_fn(t["func"])
            if fr is None and mir.op_place(t["func"]) is not None:
                # call through a fn pointer that is a non-capturing closure of this body (`callbacks: fn(&X) -> &Y` bound to
                # `|x| &x.field`): inline the closure body (its parameters are the call's arguments; no environment)
                os_ = mir.origins(body, t["func"])
                if len(os_) == 1:
                    o = next(iter(os_))
                    ag = None
                    if o[0] == "agg" and len(o) == 3 and o[2] < len(raw["blocks"][o[1]]["stmts"]):
                        ag = raw["blocks"][o[1]]["stmts"][o[2]]["rv"].get("agg")
                    if ag and ag.get("kind") == "closure" and not ag.get("ops") and ag.get("closure") in raws \
                            and raws[ag["closure"]]["arg_count"] == len(t["args"]) + 1 and len(raws[ag["closure"]]["blocks"]) < 40:
                        t["func"] = {"const": {"fn": {"path": ag["closure"], "resolved": ag["closure"], "args": []}, "ty": "fn"}}
                        t["args"] = [{"const": {"val": "()", "ty": "()"}}] + t["args"]
                        inline_call(raw, b, copy.deepcopy(raws[ag["closure"]]))
                        n += 1
                continue
            if fr is None or mir.tail2(fr["path"]) not in ("FnOnce::call_once", "FnMut::call_mut", "Fn::call") or not t["args"]:
                continue
            if fr.get("resolved") and "{closure" in fr["resolved"]:
                continue
            os_ = mir.origins(body, t["args"][0])
            if len(os_) != 1:
                continue
            o = next(iter(os_))
            if o[0] != "agg" or len(o) != 3:
                continue
            ag = raw["blocks"][o[1]]["stmts"][o[2]]["rv"].get("agg") if o[2] < len(raw["blocks"][o[1]]["stmts"]) else None
            if not ag or ag.get("kind") != "closure" or ag.get("closure") not in raws:
                continue
            t["func"] = {"const": {"fn": {"path": ag["closure"], "resolved": ag["closure"], "args": [], "devirtualised": fr["path"]}, "ty": "fn"}}
            n += 1
            # ... and, when the argument tuple is built right here, inline the (small) closure body at the call: what the
            # closure does with the value the helper hands it (an id, a guard) is then part of the caller's own flow
            clo_raw = raws[ag["closure"]]
            if len(t["args"]) != 2 or len(clo_raw["blocks"]) >= 60 or ag["closure"] == path or t.get("t") is None:
                continue
            tup = None
            tos = mir.origins(body, t["args"][1])
            if len(tos) == 1:
                o2 = next(iter(tos))
                if o2[0] == "agg" and len(o2) == 3 and o2[2] < len(raw["blocks"][o2[1]]["stmts"]):
                    tup = raw["blocks"][o2[1]]["stmts"][o2[2]]["rv"].get("agg")
            if not tup or tup.get("kind") != "tuple" or len(tup["ops"]) + 1 != clo_raw["arg_count"]:
                continue
            # the operands of the tuple must still hold their values at the call (plain locals assigned once)
            okops = True
            for op_ in tup["ops"]:
                p_ = mir.op_place(op_)
                if p_ is not None and (p_["p"] or len([d_ for d_ in body.defs.get(p_["l"], []) if d_[0] in ("stmt", "call", "partial", "partialcall")]) != 1):
                    okops = False
            if not okops:
                continue
            sty = clo_raw["locals"][1]["ty"]
            cp = mir.op_place(t["args"][0])
            if cp is None:
                continue
            L = raw["locals"]
            L.append({"ty": sty, "name": None})
            l_self = len(L) - 1
            line = t.get("line")
            if sty.startswith("&mut"):
                blk["stmts"].append({"k": "assign", "place": {"l": l_self, "p": []}, "rv": {"ref": {"l": cp["l"], "p": list(cp["p"])}, "mut": True}, "line": line, "exp": None, "inl": True})
            elif sty.startswith("&"):
                blk["stmts"].append({"k": "assign", "place": {"l": l_self, "p": []}, "rv": {"ref": {"l": cp["l"], "p": list(cp["p"])}, "mut": False}, "line": line, "exp": None, "inl": True})
            else:
                blk["stmts"].append({"k": "assign", "place": {"l": l_self, "p": []}, "rv": {"use": {"move": {"l": cp["l"], "p": list(cp["p"])}}}, "line": line, "exp": None, "inl": True})
            t["args"] = [{"move": {"l": l_self, "p": []}}] + [copy.deepcopy(op_) for op_ in tup["ops"]]
            inline_call(raw, b, copy.deepcopy(clo_raw))
            inlined_closures.append(ag["closure"])
    # a closure that now lives inside its caller and is not referenced by any other call is dropped (its stand-alone body
    # would be read out of context)
    for cpath in set(inlined_closures):
        still = False
        for raw in raws.values():
            for blk in raw["blocks"]:
                t = blk["term"]
                if t["k"] == "call":
                    fr = op_fn(t["func"])
                    if fr is not None and fr.get("path") == cpath:
                        still = True
        if not still and cpath in raws and not any(r.get("parent") == cpath or r.get("root") == cpath for r in raws.values()):
            del raws[cpath]
    return n


def split_arms(raw, max_blocks=1500):
    """Arm splitting (a semantics-preserving normalisation): if the body starts by matching on the variant of a by-value
    enum parameter, everything reachable from each arm is copied per arm, with the locals assigned inside the copy renamed
    per arm. A tail shared by the arms (`let (a, b, c) = match self { .. }; runner(a, b, c)`) then appears once per arm
    with that arm's own values, which is how per-arm rules read it. Returns a new raw body or the input."""
    blocks = raw["blocks"]
    nargs = raw["arg_count"]
    # the first switch on discriminant(param)
    sb = None
    for b, blk in enumerate(blocks):
        t = blk["term"]
        if blk["cleanup"] or t["k"] != "switch" or len(t["targets"]) < 2:
            continue
        p = mir.op_place(t["op"])
        if p is None or p["p"]:
            continue
        for st in reversed(blk["stmts"]):
            if st["k"] == "assign" and not st["place"]["p"] and st["place"]["l"] == p["l"] and "discr" in st.get("rv", {}):
                src = st["rv"]["discr"]
                if 1 <= src["l"] <= nargs and not src["p"]:
                    sb = b
                break
        if sb is not None:
            break
    if sb is None:
        return raw

    def succs(b):
        t = blocks[b]["term"]
        k = t["k"]
        if k == "goto":
            return [t["t"]]
        if k == "switch":
            return [bb for _, bb in t["targets"]] + [t["otherwise"]]
        if k in ("call", "drop", "assert"):
            return [t["t"]] if t.get("t") is not None else []
        return []

    def region(start):
        seen, st = set(), [start]
        while st:
            x = st.pop()
            if x in seen or blocks[x]["cleanup"]:
                continue
            seen.add(x)
            st.extend(succs(x))
        return seen
    arms = [bb for _, bb in blocks[sb]["term"]["targets"]]
    regions = [region(a) for a in arms]
    if sb in set().union(*regions) or sum(len(r) for r in regions) > max_blocks:
        return raw      # the match is inside a loop, or too big
    shared = set()
    for i in range(len(regions)):
        for j in range(i + 1, len(regions)):
            shared |= regions[i] & regions[j]
    if not shared:
        return raw      # nothing is shared between arms: already in per-arm form
    out = copy.deepcopy(raw)
    nb = out["blocks"]
    nloc = out["locals"]
    new_targets = []
    for ai, (arm, reg) in enumerate(zip(arms, regions)):
        # locals assigned (or call-destinations) inside the region get a fresh copy for this arm
        assigned = set()
        for b in reg:
            for st in blocks[b]["stmts"]:
                if st["k"] == "assign" and not st["place"]["p"]:
                    assigned.add(st["place"]["l"])
            t = blocks[b]["term"]
            if t["k"] == "call" and not t["dest"]["p"]:
                assigned.add(t["dest"]["l"])
        assigned = {l for l in assigned if l > nargs and l != 0}
        lmap = {}
        for l in sorted(assigned):
            lmap[l] = len(nloc)
            nloc.append(dict(raw["locals"][l]))
        bmap = {b: len(nb) + k for k, b in enumerate(sorted(reg))}

        def rl(p):
            q = {"l": lmap.get(p["l"], p["l"]), "p": []}
            for e in p["p"]:
                if isinstance(e, dict) and "index" in e:
                    e = dict(e, index=lmap.get(e["index"], e["index"]))
                q["p"].append(e)
            return q

        def ro(op):
            if op is None:
                return op
            if "copy" in op:
                return {"copy": rl(op["copy"])}
            if "move" in op:
                return {"move": rl(op["move"])}
            return op

        def rrv(rv):
            rv = copy.deepcopy(rv)
            if "use" in rv:
                rv["use"] = ro(rv["use"])
            elif "ref" in rv:
                rv["ref"] = rl(rv["ref"])
            elif "rawptr" in rv:
                rv["rawptr"] = rl(rv["rawptr"])
            elif "cast" in rv:
                rv["cast"]["op"] = ro(rv["cast"]["op"])
            elif "discr" in rv:
                rv["discr"] = rl(rv["discr"])
            elif "bin" in rv:
                rv["bin"]["l"] = ro(rv["bin"]["l"])
                rv["bin"]["r"] = ro(rv["bin"]["r"])
            elif "un" in rv:
                rv["un"]["x"] = ro(rv["un"]["x"])
            elif "agg" in rv:
                rv["agg"]["ops"] = [ro(o) for o in rv["agg"]["ops"]]
            return rv
        for b in sorted(reg):
            blk = blocks[b]
            c = {"cleanup": False, "stmts": [], "orig": b, "arm": ai}
            if "file" in blk:
                c["file"] = blk["file"]
            for st in blk["stmts"]:
                st2 = dict(st)
                if "place" in st2:
                    st2["place"] = rl(st2["place"])
                if "rv" in st2:
                    st2["rv"] = rrv(st2["rv"])
                c["stmts"].append(st2)
            t = dict(blk["term"])
            k = t["k"]
            m = lambda x: bmap.get(x, x)
            if k == "goto":
                t["t"] = m(t["t"])
            elif k == "switch":
                t["op"] = ro(t["op"])
                t["targets"] = [[v, m(bb)] for v, bb in t["targets"]]
                t["otherwise"] = m(t["otherwise"])
            elif k == "call":
                t["func"] = ro(t["func"]) if ("copy" in t["func"] or "move" in t["func"]) else t["func"]
                t["args"] = [ro(a) for a in t["args"]]
                t["dest"] = rl(t["dest"])
                t["t"] = m(t["t"]) if t.get("t") is not None else None
                t["unwind"] = None
            elif k == "drop":
                t["place"] = rl(t["place"])
                t["t"] = m(t["t"])
                t["unwind"] = None
            elif k == "assert":
                t["cond"] = ro(t["cond"])
                t["t"] = m(t["t"])
                t["unwind"] = None
            c["term"] = t
            nb.append(c)
        new_targets.append(bmap[arm])
    st = nb[sb]["term"]
    st["targets"] = [[v, nt] for (v, _), nt in zip(st["targets"], new_targets)]
    out["arm_split"] = {"switch": sb, "arms": len(arms)}
    return out


SIGS = os.path.join(os.path.dirname(os.path.abspath(__file__)), "signatures.json")


def signatures_of(prog):
    return {strip_generics(b.path): [b.local_ty(i) for i in range(1, b.arg_count + 1)] for b in prog.bodies if b.kind in ("fn", "assoc_fn")}


def _remap_body(raw, f):
    """renumber every local of a raw body with f(old) -> new (locals list is NOT touched)"""
    def pl(p):
        q = {"l": f(p["l"]), "p": []}
        for e in p["p"]:
            if isinstance(e, dict) and "index" in e:
                e = dict(e, index=f(e["index"]))
            q["p"].append(e)
        return q

    def op(o):
        if o is None:
            return o
        if "copy" in o:
            return {"copy": pl(o["copy"])}
        if "move" in o:
            return {"move": pl(o["move"])}
        return o

    def rv(r):
        r = copy.deepcopy(r)
        if "use" in r:
            r["use"] = op(r["use"])
        elif "ref" in r:
            r["ref"] = pl(r["ref"])
        elif "rawptr" in r:
            r["rawptr"] = pl(r["rawptr"])
        elif "cast" in r:
            r["cast"]["op"] = op(r["cast"]["op"])
        elif "discr" in r:
            r["discr"] = pl(r["discr"])
        elif "bin" in r:
            r["bin"]["l"], r["bin"]["r"] = op(r["bin"]["l"]), op(r["bin"]["r"])
        elif "un" in r:
            r["un"]["x"] = op(r["un"]["x"])
        elif "agg" in r:
            r["agg"]["ops"] = [op(o) for o in r["agg"]["ops"]]
        return r
    for blk in raw["blocks"]:
        for st in blk["stmts"]:
            if "place" in st:
                st["place"] = pl(st["place"])
            if "rv" in st:
                st["rv"] = rv(st["rv"])
        t = blk["term"]
        k = t["k"]
        if k == "switch":
            t["op"] = op(t["op"])
        elif k == "call":
            if "copy" in t["func"] or "move" in t["func"]:
                t["func"] = op(t["func"])
            t["args"] = [op(a) for a in t["args"]]
            t["dest"] = pl(t["dest"])
        elif k == "drop":
            t["place"] = pl(t["place"])
        elif k == "assert":
            t["cond"] = op(t["cond"])
    if raw.get("thread_seeds"):
        raw["thread_seeds"] = [f(x) for x in raw["thread_seeds"]]


def unbundle_params(raws, facts, sigs):
    """Parameter un-bundling (a semantics-preserving normalisation): a function of the pinned tree whose parameters
    (.., B, C, D, ..) have been bundled into one by-value crate struct S{b: B, c: C, d: D} is given its pinned signature
    back in the view: the struct parameter is replaced by one parameter per field (in the pinned order), the struct value
    is rebuilt by an aggregate at entry (so whole-value uses keep working), and every direct call site passes the fields
    of the argument instead of the argument. Returns the list of functions rewritten."""
    adts = {a["path"]: a for a in facts["adts"]}
    done = []
    for path, raw in list(raws.items()):
        if raw.get("kind") not in ("fn", "assoc_fn"):
            continue
        ps = sigs.get(strip_generics(path))
        n = raw["arg_count"]
        cs = [raw["locals"][i]["ty"] for i in range(1, n + 1)]
        if not ps or len(cs) >= len(ps):
            continue
        hit = None
        for k in range(len(cs)):
            adt = adts.get(cs[k])
            if cs[:k] != ps[:k] or adt is None or adt.get("kind") != "Struct":
                continue
            fields = adt["variants"][0]["fields"]
            m = len(fields)
            if len(cs) - 1 + m != len(ps) or cs[k + 1:] != ps[k + m:]:
                continue
            want = ps[k:k + m]
            ftys = [f["ty"] for f in fields]
            if sorted(want) != sorted(ftys) or len(set(want)) != m:
                continue
            hit = (k, m, fields, [ftys.index(w) for w in want])
            break
        if hit is None:
            continue
        k, m, fields, order = hit
        P = k + 1
        # the function must only be called directly (no fn-pointer uses)
        used_as_value = False
        for r2 in raws.values():
            for blk in r2["blocks"]:
                for st in blk["stmts"]:
                    if st["k"] == "assign":
                        for o in mir.rv_operands(st["rv"]):
                            fr = op_fn(o)
                            if fr and strip_generics(fr.get("resolved") or fr["path"]) == strip_generics(path):
                                used_as_value = True
        if used_as_value:
            continue
        nloc_old = len(raw["locals"])
        newP = nloc_old + m - 1

        def f(l, P=P, m=m, newP=newP):
            if l < P:
                return l
            if l == P:
                return newP
            return l + m - 1
        _remap_body(raw, f)
        old_locals = raw["locals"]
        new_locals = old_locals[:P]
        for j in range(m):
            fld = fields[order[j]]
            new_locals.append({"ty": fld["ty"], "name": fld["name"]})
        new_locals += old_locals[P + 1:]
        new_locals.append({"ty": old_locals[P]["ty"], "name": old_locals[P].get("name")})
        raw["locals"] = new_locals
        raw["arg_count"] = n + m - 1
        # rebuild the struct value at entry
        ops = [None] * m
        for j in range(m):
            ops[order[j]] = {"copy": {"l": P + j, "p": []}}
        raw["blocks"][0]["stmts"].insert(0, {"k": "assign", "place": {"l": newP, "p": []}, "line": raw["line"], "exp": None, "inl": True,
                                             "rv": {"agg": {"kind": "adt", "adt": adts_key(adts, cs[k]), "variant": 0, "vname": adts[cs[k]]["variants"][0]["name"],
                                                            "fields": [fl["name"] for fl in fields], "ops": ops}}})
        # call sites
        for r2 in raws.values():
            for blk in r2["blocks"]:
                t = blk["term"]
                if t["k"] != "call":
                    continue
                fr = op_fn(t["func"])
                if not fr or strip_generics(fr.get("resolved") or fr["path"]) != strip_generics(path) or len(t["args"]) != n:
                    continue
                a = t["args"][k]
                pl = mir.op_place(a)
                if pl is None:
                    continue
                newargs = []
                for j in range(m):
                    fld = fields[order[j]]
                    newargs.append({"copy": {"l": pl["l"], "p": list(pl["p"]) + [{"f": order[j], "ty": fld["ty"], "name": fld["name"], "adt": cs[k]}]}})
                t["args"] = t["args"][:k] + newargs + t["args"][k + 1:]
        done.append(strip_generics(path))
    return done


def permute_params(raws, facts, sigs):
    """Parameter re-ordering (a semantics-preserving normalisation): a function of the pinned tree whose parameters are the
    pinned ones in another order (all of distinct types; `&T` and `T` count as the same parameter) gets its pinned parameter
    order back in the view: the parameter locals are renumbered and every direct call site passes its arguments in the pinned
    order. Rules that name a parameter by position keep reading the parameter they mean. Returns the functions rewritten."""
    def norm(t):
        t = re.sub(r"^&(?:'\w+ )?(?:mut )?", "", t)
        if t.startswith("impl ") or re.fullmatch(r"[A-Z]\w*", t):
            return "$generic"
        return _strip_paths(_canon_generic(t))
    done = []
    for path, raw in list(raws.items()):
        if raw.get("kind") not in ("fn", "assoc_fn"):
            continue
        ps = sigs.get(strip_generics(path)) or sigs.get(MOVED.get(strip_generics(path), "")) or sigs.get(RENAMED.get(strip_generics(path), ""))
        n = raw["arg_count"]
        if not ps or len(ps) != n or n < 2:
            continue
        cs = [norm(raw["locals"][i]["ty"]) for i in range(1, n + 1)]
        pn = [norm(x) for x in ps]
        if cs == pn or sorted(cs) != sorted(pn) or len(set(cs)) != n:
            continue
        # not used as a value (fn pointer)
        used_as_value = False
        for r2 in raws.values():
            for blk in r2["blocks"]:
                for st in blk["stmts"]:
                    if st["k"] == "assign":
                        for o in mir.rv_operands(st["rv"]):
                            fr = op_fn(o)
                            if fr and strip_generics(fr.get("resolved") or fr["path"]) == strip_generics(path):
                                used_as_value = True
        if used_as_value:
            continue
        cur_of_pinned = [cs.index(t) for t in pn]          # pinned position j holds current parameter cur_of_pinned[j]
        new_of_cur = {ci + 1: j + 1 for j, ci in enumerate(cur_of_pinned)}
        _remap_body(raw, lambda l, m_=new_of_cur: m_.get(l, l))
        old = raw["locals"]
        raw["locals"] = [old[0]] + [old[ci + 1] for ci in cur_of_pinned] + old[n + 1:]
        for r2 in raws.values():
            for blk in r2["blocks"]:
                t = blk["term"]
                if t["k"] != "call":
                    continue
                fr = op_fn(t["func"])
                if not fr or strip_generics(fr.get("resolved") or fr["path"]) != strip_generics(path) or len(t["args"]) != n:
                    continue
                t["args"] = [t["args"][ci] for ci in cur_of_pinned]
        done.append(strip_generics(path) + " (parameters re-ordered)")
    return done


def _split_args(s):
    """top-level comma split of the text between the outer < > of a type"""
    out, depth, cur = [], 0, ""
    for ch in s:
        if ch in "<([":
            depth += 1
        elif ch in ">)]":
            depth -= 1
        if ch == "," and depth == 0:
            out.append(cur.strip())
            cur = ""
        else:
            cur += ch
    if cur.strip():
        out.append(cur.strip())
    return out


def _erase_in_ty(ty, nts):
    """replace every `<newtype path><args>` in the type string by the newtype's inner type (parameters substituted)"""
    for _ in range(4):
        hit = False
        for path, (inner, params) in nts.items():
            i = ty.find(path)
            while i >= 0:
                j = i + len(path)
                pre_ok = i == 0 or not (ty[i - 1].isalnum() or ty[i - 1] in "_:")
                if not pre_ok or (j < len(ty) and (ty[j].isalnum() or ty[j] in "_:")):
                    i = ty.find(path, j)
                    continue
                args = []
                if j < len(ty) and ty[j] == "<":
                    depth, k = 0, j
                    while k < len(ty):
                        if ty[k] == "<":
                            depth += 1
                        elif ty[k] == ">":
                            depth -= 1
                            if depth == 0:
                                break
                        k += 1
                    args = [a for a in _split_args(ty[j + 1:k]) if not a.startswith("'")]
                    j = k + 1
                rep = inner
                if params and len(args) == len(params):
                    rep = re.sub(r"\b(%s)\b(?!::)" % "|".join(map(re.escape, params)), lambda m: args[params.index(m.group(1))], inner)
                ty = ty[:i] + rep + ty[j:]
                hit = True
                i = ty.find(path, i + len(rep))
        if not hit:
            break
    return ty


def erase_newtypes(raws, facts, vocab):
    """A crate-private single-field tuple struct that is new in this tree (no pinned function mentions it) is a wrapper
    around its field: in the view the wrapper is transparent -- the `.0` projection disappears, `Wrapper(x)` is `x`, and
    types mention the inner type. (The wrapper's own methods are new helpers and have been inlined.)"""
    nts = {}
    for a in facts.get("adts", []):
        if a.get("kind") != "Struct" or a.get("reachable") is True or len(a.get("variants", [])) != 1:
            continue
        fs = a["variants"][0]["fields"]
        if len(fs) != 1 or fs[0]["name"] != "0":
            continue
        p = a["path"]
        if any(p in v for v in vocab):
            continue
        params = None
        for raw in raws.values():
            isf = raw.get("impl_self") or ""
            if isf.startswith(p + "<") and raw.get("generics") is not None and not raw.get("impl_trait"):
                params = [x for x in _split_args(isf[len(p) + 1:-1]) if not x.startswith("'")]
                break
        if params is None:
            params = []
            for m in re.finditer(r"(?<![\w:])([A-Z]\w*)(?![\w:<])", fs[0]["ty"]):
                if m.group(1) not in params:
                    params.append(m.group(1))
        nts[p] = (fs[0]["ty"], params)
    if not nts:
        return facts.get("adts", []), []

    def fix_place(pl):
        if not pl.get("p"):
            return
        newp = []
        for e in pl["p"]:
            if isinstance(e, dict) and e.get("adt") in nts and e.get("f") == 0:
                continue
            if isinstance(e, dict) and "ty" in e:
                e["ty"] = _erase_in_ty(e["ty"], nts)
            newp.append(e)
        pl["p"] = newp

    def walk(x):
        if isinstance(x, dict):
            if "l" in x and "p" in x and isinstance(x["p"], list):
                fix_place(x)
                return
            for v in x.values():
                walk(v)
        elif isinstance(x, list):
            for v in x:
                walk(v)

    for raw in raws.values():
        for l in raw["locals"]:
            l["ty"] = _erase_in_ty(l["ty"], nts)
        for blk in raw["blocks"]:
            for st in blk["stmts"]:
                if st["k"] == "assign" and "agg" in st.get("rv", {}) and st["rv"]["agg"].get("kind") == "adt" \
                        and st["rv"]["agg"].get("adt") in nts and len(st["rv"]["agg"]["ops"]) == 1:
                    st["rv"] = {"use": st["rv"]["agg"]["ops"][0]}
            walk(blk)
    adts2 = []
    for a in facts.get("adts", []):
        if a["path"] in nts:
            continue
        a = copy.deepcopy(a)
        for v in a.get("variants", []):
            for f in v["fields"]:
                f["ty"] = _erase_in_ty(f["ty"], nts)
        adts2.append(a)
    return adts2, sorted(nts)


def flatten_substructs(raws, facts, vocab):
    """A crate-private struct with named fields that is new in this tree (no pinned function mentions it) and is used as a field
    of another crate struct is a *grouping* of that struct's state. In the view the grouping is transparent:
      * a reference to the group (`let c = &mut self.current; (*c).reacting = true` - typically the `self` of the group's own
        methods after they were inlined) is folded into its uses (`self.current.reacting = true`),
      * the projection `outer.group.field` becomes one field `group.field` of the outer struct (ADT table, places, aggregates).
    Rules that find a state field by its role (the flag `start()` sets and `end()` clears, the sender / receiver pair, the
    pending list) then find it wherever it was grouped. Semantics preserved: pure re-addressing. Returns (adts, groups)."""
    adts = {a["path"]: a for a in facts.get("adts", [])}
    groups = {}
    for a in facts.get("adts", []):
        if a.get("kind") != "Struct" or a.get("reachable") is True or len(a.get("variants", [])) != 1:
            continue
        fs = a["variants"][0]["fields"]
        if not fs or any(f["name"].isdigit() for f in fs) or any(a["path"] in v for v in vocab):
            continue
        groups[a["path"]] = a
    # only groups that are the type of a field of another crate struct
    used = {}
    for a in facts.get("adts", []):
        for v in a.get("variants", []):
            for i, f in enumerate(v["fields"]):
                if f["ty"] in groups and a["path"] not in groups:
                    used.setdefault(f["ty"], []).append((a["path"], i, f["name"]))
    groups = {g: a for g, a in groups.items() if g in used}
    if not groups:
        return facts.get("adts", []), []

    def ends_in_group(pl):
        last = pl["p"][-1] if pl["p"] else None
        return isinstance(last, dict) and "f" in last and last.get("ty") in groups and all(e == "deref" or (isinstance(e, dict) and "f" in e) for e in pl["p"])

    for raw in raws.values():
        # 1. fold references to a group into their uses
        defs = {}
        for blk in raw["blocks"]:
            for st in blk["stmts"]:
                if st["k"] == "assign" and not st["place"]["p"]:
                    defs.setdefault(st["place"]["l"], []).append(st["rv"])
            t = blk["term"]
            if t["k"] == "call" and not t["dest"]["p"]:
                defs.setdefault(t["dest"]["l"], []).append({"call": True})
        target = {}
        changed = True
        while changed:
            changed = False
            for l, ds in defs.items():
                if l in target or len(ds) != 1 or l <= raw["arg_count"]:
                    continue
                rv = ds[0]
                q = rv.get("ref")
                if q is not None and ends_in_group(q) and (q["l"] <= raw["arg_count"] or len(defs.get(q["l"], [])) <= 1):
                    target[l] = q
                    changed = True
                elif q is not None and q["p"] == ["deref"] and q["l"] in target:      # reborrow `&mut *c`
                    target[l] = target[q["l"]]
                    changed = True
                elif "use" in rv:
                    sp = mir.op_place(rv["use"])
                    if sp is not None and not sp["p"] and sp["l"] in target:
                        target[l] = target[sp["l"]]
                        changed = True

        def fold(pl):
            if pl["l"] in target and pl["p"] and pl["p"][0] == "deref":
                q = target[pl["l"]]
                pl["l"] = q["l"]
                pl["p"] = copy.deepcopy(q["p"]) + pl["p"][1:]
            # 2. merge `outer.group` + `group.field`
            newp = []
            for e in pl["p"]:
                prev = newp[-1] if newp else None
                if isinstance(e, dict) and "f" in e and e.get("adt") in groups and isinstance(prev, dict) and "f" in prev and prev.get("ty") == e.get("adt"):
                    newp[-1] = {"f": 1000 * (prev["f"] + 1) + e["f"], "ty": e.get("ty"), "name": "%s.%s" % (prev.get("name"), e.get("name")), "adt": prev.get("adt")}
                else:
                    newp.append(e)
            pl["p"] = newp

        def walk(x):
            if isinstance(x, dict):
                if "l" in x and "p" in x and isinstance(x["p"], list) and isinstance(x["l"], int):
                    fold(x)
                    return
                for v in x.values():
                    walk(v)
            elif isinstance(x, list):
                for v in x:
                    walk(v)
        for blk in raw["blocks"]:
            walk(blk)
        # 2b. a write of the whole group (`self.current = entry`) is a write of each of its fields
        for blk in raw["blocks"]:
            out_st = []
            for st in blk["stmts"]:
                if st["k"] == "assign" and st["place"]["p"] and ends_in_group(st["place"]) and ("use" in st.get("rv", {}) or st.get("rv", {}).get("agg", {}).get("adt") in groups):
                    last = st["place"]["p"][-1]
                    g = groups[last["ty"]]
                    gfs = g["variants"][0]["fields"]
                    rv = st["rv"]
                    srcs = None
                    if "agg" in rv and rv["agg"].get("adt") == last["ty"] and len(rv["agg"].get("ops", [])) == len(gfs):
                        by_name = dict(zip(rv["agg"].get("fields", []), rv["agg"]["ops"]))
                        if all(f2["name"] in by_name for f2 in gfs):
                            srcs = [{"use": by_name[f2["name"]]} for f2 in gfs]
                    elif "use" in rv and mir.op_place(rv["use"]) is not None:
                        sp_ = mir.op_place(rv["use"])
                        kind_ = "move" if "move" in rv["use"] else "copy"
                        srcs = [{"use": {kind_: {"l": sp_["l"], "p": copy.deepcopy(sp_["p"]) + [{"f": j, "ty": f2["ty"], "name": f2["name"], "adt": last["ty"]}]}}}
                                for j, f2 in enumerate(gfs)]
                    if srcs is not None:
                        for j, (f2, rv2) in enumerate(zip(gfs, srcs)):
                            npl = {"l": st["place"]["l"], "p": copy.deepcopy(st["place"]["p"][:-1]) + [
                                {"f": 1000 * (last["f"] + 1) + j, "ty": f2["ty"], "name": "%s.%s" % (last.get("name"), f2["name"]), "adt": last.get("adt")}]}
                            st2 = dict(st)
                            st2["place"] = npl
                            st2["rv"] = rv2
                            st2["split_group_write"] = True
                            out_st.append(st2)
                        continue
                out_st.append(st)
            blk["stmts"] = out_st
        # 3. aggregates of the outer struct: splice the group's fields when the group value is built here
        aggdef = {}
        for blk in raw["blocks"]:
            for st in blk["stmts"]:
                if st["k"] == "assign" and not st["place"]["p"] and "agg" in st.get("rv", {}) and st["rv"]["agg"].get("adt") in groups:
                    aggdef.setdefault(st["place"]["l"], []).append(st["rv"]["agg"])

        def resolve(op, depth=0):
            pl = mir.op_place(op)
            if pl is None or pl["p"] or depth > 4:
                return None
            if pl["l"] in aggdef and len(aggdef[pl["l"]]) == 1 and len(defs.get(pl["l"], [])) == 1:
                return aggdef[pl["l"]][0]
            ds = defs.get(pl["l"], [])
            if len(ds) == 1 and "use" in ds[0]:
                return resolve(ds[0]["use"], depth + 1)
            return None
        for blk in raw["blocks"]:
            for st in blk["stmts"]:
                ag = st.get("rv", {}).get("agg") if st["k"] == "assign" else None
                if not ag or ag.get("kind") != "adt" or ag.get("adt") not in adts or ag.get("adt") in groups:
                    continue
                outer = adts[ag["adt"]]
                ftys = {f["name"]: f["ty"] for v in outer.get("variants", []) for f in v["fields"]}
                nf, no = [], []
                for fname, op in zip(ag.get("fields", []), ag["ops"]):
                    inner = resolve(op) if ftys.get(fname) in groups else None
                    if inner is not None:
                        for f2, o2 in zip(inner.get("fields", []), inner["ops"]):
                            nf.append("%s.%s" % (fname, f2))
                            no.append(o2)
                    else:
                        nf.append(fname)
                        no.append(op)
                ag["fields"], ag["ops"] = nf, no
    adts2 = []
    for a in facts.get("adts", []):
        if a["path"] in groups:
            continue
        a = copy.deepcopy(a)
        for v in a.get("variants", []):
            nf = []
            for f in v["fields"]:
                if f["ty"] in groups:
                    for f2 in groups[f["ty"]]["variants"][0]["fields"]:
                        nf.append({"name": "%s.%s" % (f["name"], f2["name"]), "ty": f2["ty"], "vis": f.get("vis")})
                else:
                    nf.append(f)
            v["fields"] = nf
        adts2.append(a)
    return adts2, sorted(groups)


def adts_key(adts, ty):
    return ty


def specialise_const_generics(facts):
    """Const-generic specialisation (a semantics-preserving normalisation of the view): a crate function with a const
    parameter (`fn hook<const SCOPED: bool>`) that is referenced with a literal argument (`hook::<false>`) gets one copy per
    literal, in which the parameter is that constant and the switches on it are folded; the references are re-pointed to the
    copy (transitively: `run::<false>` refers to `hook::<false>`). What a given instantiation *does* - which trackers it
    starts - can then be read per instantiation instead of as the union over all of them. Returns (facts2, [copies])."""
    bodies = {b["path"]: b for b in facts["bodies"]}

    def walk(x, f):
        if isinstance(x, dict):
            f(x)
            for v in x.values():
                walk(v, f)
        elif isinstance(x, list):
            for v in x:
                walk(v, f)

    def const_params(raw):
        gens = set(g for g in (raw.get("generics") or []) if not g.startswith("'"))
        found = set()
        def f(d):
            c = d.get("const")
            if isinstance(c, dict) and "val" not in c and "fn" not in c and c.get("repr") in gens and c.get("ty") in ("bool", "usize", "u8", "u32", "i32", "u64", "isize"):
                found.add(c["repr"])
        walk(raw["blocks"], f)
        return found
    cands = {}
    for p, raw in bodies.items():
        if raw.get("kind") == "closure" or not raw.get("generics"):
            continue
        cp = const_params(raw)
        if cp:
            cands[p] = cp
    if not cands:
        return facts, []
    # ... and, transitively, the functions that only hand their const parameter on (`run::<S>` naming `hook::<S>`)
    grew = True
    while grew:
        grew = False
        for p, raw in bodies.items():
            if raw.get("kind") == "closure" or not raw.get("generics"):
                continue
            own = set(g for g in raw["generics"] if not g.startswith("'"))
            add = set()
            def f2(d):
                fr = d.get("fn")
                if isinstance(fr, dict) and fr.get("path") in cands and isinstance(fr.get("args"), list):
                    qg = [g for g in (bodies[fr["path"]].get("generics") or [])]
                    qa = fr["args"]
                    if len(qg) != len(qa):
                        qg = [g for g in qg if not g.startswith("'")]
                        qa = [a for a in qa if not a.startswith("'")]
                    if len(qg) == len(qa):
                        for g, a in zip(qg, qa):
                            if g in cands[fr["path"]] and a in own:
                                add.add(a)
            walk(raw["blocks"], f2)
            if add - cands.get(p, set()):
                cands.setdefault(p, set()).update(add)
                grew = True
    out = {p: copy.deepcopy(b) for p, b in bodies.items()}
    made = {}

    def literal(a):
        if a in ("true", "false"):
            return 1 if a == "true" else 0
        if re.match(r"^\d+(_?[iu](8|16|32|64|size))?$", a or ""):
            return int(re.match(r"^\d+", a).group(0))
        return None

    def specialise(P, binding):
        key = (P, tuple(sorted(binding.items())))
        if key in made:
            return made[key]
        suffix = "__" + "_".join("%s_%s" % (k, binding[k][1]) for k in sorted(binding))
        sp = P + suffix
        made[key] = sp
        raw = copy.deepcopy(bodies[P])
        raw["path"] = sp
        if raw.get("name"):
            raw["name"] = raw["name"] + suffix
        raw["specialised_from"] = P
        def f(d):
            c = d.get("const")
            if isinstance(c, dict) and "val" not in c and "fn" not in c and c.get("repr") in binding:
                v, rep = binding[c["repr"]]
                c["val"] = v
                c["repr"] = rep
            fr = d.get("fn")
            if isinstance(fr, dict) and isinstance(fr.get("args"), list):
                fr["args"] = [binding[a][1] if a in binding else a for a in fr["args"]]
        walk(raw["blocks"], f)
        # fold the switches on the now-constant parameter
        for blk in raw["blocks"]:
            t = blk["term"]
            if t["k"] != "switch":
                continue
            p = mir.op_place(t["op"])
            val = None
            if p is not None and not p["p"]:
                for st in reversed(blk["stmts"]):
                    if st["k"] == "assign" and not st["place"]["p"] and st["place"]["l"] == p["l"]:
                        c = st.get("rv", {}).get("use", {}).get("const") if isinstance(st.get("rv", {}).get("use"), dict) else None
                        if isinstance(c, dict) and "val" in c and isinstance(c["val"], int):
                            val = c["val"]
                        break
            elif isinstance(t["op"], dict) and isinstance(t["op"].get("const"), dict) and isinstance(t["op"]["const"].get("val"), int):
                val = t["op"]["const"]["val"]
            if val is not None:
                tgt = dict((v, bb) for v, bb in t["targets"]).get(val, t["otherwise"])
                blk["term"] = {"k": "goto", "t": tgt, "line": t.get("line"), "exp": t.get("exp"), "folded": True}
        out[sp] = raw
        retarget(raw)
        return sp

    def retarget(raw):
        def f(d):
            fr = d.get("fn")
            if not (isinstance(fr, dict) and fr.get("path") in cands and isinstance(fr.get("args"), list)):
                return
            P = fr["path"]
            gens = [g for g in (bodies[P].get("generics") or [])]
            args = fr["args"]
            if len(gens) != len(args):
                gens = [g for g in gens if not g.startswith("'")]
                args = [a for a in args if not a.startswith("'")]
                if len(gens) != len(args):
                    return
            binding = {}
            for g, a in zip(gens, args):
                if g in cands[P]:
                    v = literal(a)
                    if v is None:
                        return
                    binding[g] = (v, a)
            if not binding:
                return
            sp = specialise(P, binding)
            fr["path"] = sp
            if fr.get("resolved"):
                fr["resolved"] = sp
        walk(raw["blocks"], f)
    for p in list(out):
        if p not in cands:
            retarget(out[p])
    if not made:
        return facts, []
    # the generic original goes when nothing refers to it any more
    still = set()
    def g(d):
        fr = d.get("fn")
        if isinstance(fr, dict) and fr.get("path") in cands:
            still.add(fr["path"])
    for p, raw in out.items():
        if p not in cands:
            walk(raw["blocks"], g)
    changed = True
    while changed:        # generic originals that only refer to each other
        changed = False
        for p in list(cands):
            if p in still and p in out:
                before = len(still)
                walk(out[p]["blocks"], g)
                changed = changed or len(still) != before
    for p in cands:
        if p not in still and p in out:
            del out[p]
    return dict(facts, bodies=list(out.values())), sorted(made.values())


def _bundled_abort_helpers(prog, helpers, adts):
    """role: a *new* function that the runner calls with the world and one by-value private record holding exactly one value of
    the runner's setup type and one of its cleanup type (other parameters / fields: ids and labels only) is the abort helper
    with its parameters bundled (`BufferedSyscommand::abort(self, world)` for `cleanup_on_abort(world, setup, cleanup)`). It
    keeps its role: it is not inlined, and the view gives it the flat parameter list back (world first). Returns
    {path: (flat signature for un-bundling, canonical signature)}."""
    import anchors as _A
    try:
        r = _A.runner(prog)
    except Exception:
        return {}
    st, ct = r.local_ty(3), r.local_ty(4)
    idish = lambda t_: t_.endswith(("::SystemCommand", "entity::Entity")) or t_.replace("'static ", "").replace("'_ ", "") in ("&str", "bool", "usize", "u32", "u8", "u64", "i32")
    # (only when the flat form is gone: a tree that still has `cleanup_on_abort(world, setup, cleanup)` has its abort helper)
    for b, t, fr in r.iter_calls():
        h = prog.resolve_local(fr) if fr is not None else None
        if h is not None and h.path != r.path and h.arg_count >= 3:
            tys_ = [h.local_ty(i) for i in range(1, h.arg_count + 1)]
            if "World" in tys_[0] and tys_.count(st) == 1 and tys_.count(ct) == 1:
                return {}
    def _consumes(h_, ty_):
        # the helper runs the carrier: calls a method of the carrier type
        for _, _, fr_ in h_.iter_calls():
            cb_ = prog.resolve_local(fr_) if fr_ is not None else None
            if cb_ is not None and re.sub(r"<.*$", "", cb_.raw.get("impl_self") or "") == re.sub(r"<.*$", "", ty_):
                return True
        return False
    out = {}
    for b, t, fr in r.iter_calls():
        h = prog.resolve_local(fr) if fr is not None else None
        if h is None or h.path not in helpers or h.path in out or h.path == r.path:
            continue
        cs = [h.local_ty(i) for i in range(1, h.arg_count + 1)]
        recs = [i for i, c in enumerate(cs) if adts.get(c) is not None and adts[c].get("kind") == "Struct"]
        if len(recs) != 1 or sum(1 for c in cs if "World" in c and c.startswith("&mut")) != 1:
            continue
        k = recs[0]
        ftys = [f["ty"] for f in adts[cs[k]]["variants"][0]["fields"]]
        if ftys.count(st) != 1 or ftys.count(ct) != 1 or len(set(ftys)) != len(ftys):
            continue
        if not all(t_ in (st, ct) or idish(t_) for t_ in ftys) or not all(idish(c) or ("World" in c) for i, c in enumerate(cs) if i != k):
            continue
        flat = cs[:k] + ftys + cs[k + 1:]
        if len(set(flat)) != len(flat) or not _consumes(h, st) or not _consumes(h, ct):
            continue
        world = [c for c in flat if "World" in c][0]
        out[h.path] = (flat, [world] + [c for c in flat if c != world])
    return out


def inlined_facts(facts, vocab=None):
    """returns (facts2, info) where facts2 is the helper-inlined view, or (None, info) when there is nothing to inline"""
    vocab = vocab if vocab is not None else load_vocab()
    _CRATE_ENUMS.clear()
    RENAMED.clear()
    _CRATE_ENUMS.update(a["path"] for a in facts.get("adts", []) if a.get("kind") == "Enum")
    _IMPL_INDEX.clear()
    for im in facts.get("impls", []):
        if im.get("trait") and im.get("self_adt"):
            _IMPL_INDEX[(im["self_adt"], im["trait"])] = {it["name"]: it["path"] for it in im.get("items", []) if it.get("kind") == "Fn"}
    try:
        facts, specialised = specialise_const_generics(facts)
    except Exception as e:
        specialised = ["error: %r" % (e,)]
    prog = mir.Program(facts)
    helpers = new_helpers(prog, vocab)
    try:
        bundled_abort = _bundled_abort_helpers(prog, helpers, {a["path"]: a for a in facts.get("adts", [])})
    except Exception:
        bundled_abort = {}
    for p_ in bundled_abort:
        helpers.pop(p_, None)
    info = {"new_helpers": sorted(mir.strip_generics(p) for p in helpers), "inlined_sites": 0, "dropped": [], "arm_split": []}
    if bundled_abort:
        info["bundled_abort_helper"] = sorted(mir.strip_generics(p) for p in bundled_abort)
    if specialised:
        info["const_specialised"] = specialised
    raws = {b["path"]: copy.deepcopy(b) for b in facts["bodies"]}
    # arm splitting of the Command::apply impls (shared tails after a match on the command's variant)
    for path, raw in list(raws.items()):
        if raw.get("name") == "apply" and (raw.get("impl_trait") or "").endswith("world::Command"):
            r2 = split_arms(raw)
            if r2 is not raw:
                raws[path] = r2
                info["arm_split"].append(mir.strip_generics(path))
    try:
        info["split_chains"] = split_chain_loops(raws, facts)
    except Exception as e:
        info["split_chains_error"] = repr(e)
    try:
        info["peeled_map_loops"] = peel_map_loops(raws, facts, set(helpers))
    except Exception as e:
        info["peel_map_loops_error"] = repr(e)
    info["desugared_extend"] = desugar_extend(raws, facts)
    try:
        info["desugared_extend"] += desugar_combinators(raws, facts)
    except Exception as e:       # the view stays without this normalisation
        info["desugar_combinators_error"] = repr(e)
    try:
        info["desugared_ctor"] = desugar_ctor_combinators(raws, facts)
    except Exception as e:
        info["desugar_ctor_error"] = repr(e)
    if not helpers and not info["arm_split"] and not info["desugared_extend"] and not info.get("split_chains") and not info.get("peeled_map_loops") and not info.get("desugared_ctor"):
        sigs = load_sigs()
        info["unbundled"] = (unbundle_params(raws, facts, sigs) + permute_params(raws, facts, sigs)) if sigs else []
        if not info["unbundled"]:
            return None, info
        return dict(facts, bodies=list(raws.values())), info
    if not helpers:
        sigs = load_sigs()
        info["unbundled"] = (unbundle_params(raws, facts, sigs) + permute_params(raws, facts, sigs)) if sigs else []
        return dict(facts, bodies=list(raws.values())), info
    for depth in range(MAX_DEPTH):
        changed = False
        cur = mir.Program(dict(facts, bodies=list(raws.values())))
        hs = {p: cur.by_path[p] for p in helpers if p in cur.by_path}
        for path, raw in raws.items():
            body = cur.by_path[path]
            # collect call sites first (indices of original blocks stay valid while appending)
            sites = []
            for b in range(len(raw["blocks"])):
                t = raw["blocks"][b]["term"]
                if t["k"] != "call":
                    continue
                fr = op_fn(t["func"])
                if fr is None:
                    continue
                h = cur.resolve_local(fr)
                if h is not None and h.path in hs and h.path != path:
                    sites.append((b, h.path))
            for b, hp in sites:
                inline_call(raw, b, raws[hp])
                info["inlined_sites"] += 1
                changed = True
        if not changed:
            break
    # an adapter that an inlined helper built (`fn reactions(..) -> impl Iterator { list.iter().map(|h| ..) }`) now sits in the
    # function whose loop it feeds
    try:
        info["split_chains"] = info.get("split_chains", 0) + split_chain_loops(raws, facts)
    except Exception as e:
        info["split_chains_error"] = repr(e)
    try:
        for _ in range(4):
            n_ = peel_map_loops(raws, facts, set(helpers))
            info["peeled_map_loops"] = info.get("peeled_map_loops", 0) + n_
            if not n_:
                break
    except Exception as e:
        info["peel_map_loops_error"] = repr(e)
    sigs = load_sigs()
    info["unbundled"] = (unbundle_params(raws, facts, sigs) + permute_params(raws, facts, sigs)) if sigs else []
    if bundled_abort:
        info["unbundled"] += unbundle_params(raws, facts, {strip_generics(p_): v_[0] for p_, v_ in bundled_abort.items()})
        info["unbundled"] += permute_params(raws, facts, {strip_generics(p_): v_[1] for p_, v_ in bundled_abort.items()})
    try:
        info["wrapped_closures"] = specialise_wrapped_closures(raws, facts)
    except Exception as e:
        info["wrapped_closures_error"] = repr(e)
    info["devirtualised"] = devirtualise_closure_calls(raws, facts)
    # separate the paths that the helpers' several returns merged (only in bodies that received an inlining)
    for path in list(raws):
        if any(b.get("term", {}).get("inlined") for b in raws[path]["blocks"]):
            try:
                raws[path] = thread_variants(raws[path])
            except Exception as e:       # the body stays unthreaded (the rules then read merged paths: fail closed, not open)
                info.setdefault("thread_errors", []).append("%s: %r" % (mir.strip_generics(path), e))
    # drop helpers that are no longer called directly or used as values
    cur = mir.Program(dict(facts, bodies=list(raws.values())))
    for hp in list(helpers):
        h = cur.by_path.get(hp)
        if h is None:
            continue
        callers = cur.callers_of(lambda n: n == hp or strip_generics(n) == strip_generics(hp))
        uses = cur.fn_value_uses(lambda n: n == hp or strip_generics(n) == strip_generics(hp))
        if not callers and not uses:
            del raws[hp]
            info["dropped"].append(strip_generics(hp))
    # closures defined in a dropped helper now belong to the function that builds them
    builder = {}
    for path, raw in raws.items():
        for blk in raw["blocks"]:
            for st in blk["stmts"]:
                if st["k"] == "assign" and "agg" in st.get("rv", {}) and st["rv"]["agg"]["kind"] == "closure":
                    builder.setdefault(st["rv"]["agg"]["closure"], path)
    dropped_full = {hp for hp in helpers if hp not in raws}
    for path, raw in raws.items():
        if raw["kind"] == "closure" and (raw.get("parent") in dropped_full or raw.get("root") in dropped_full):
            owner = builder.get(path)
            seen = set()
            while owner is not None and raws.get(owner, {}).get("kind") == "closure" and owner not in seen:
                seen.add(owner)
                owner = builder.get(owner, raws[owner].get("root"))
            if owner is not None:
                if raw.get("parent") in dropped_full:
                    raw["parent"] = builder.get(path)
                raw["root"] = raws.get(owner, {}).get("root", owner) if raws.get(owner, {}).get("kind") == "closure" else owner
    adts2, info["erased_newtypes"] = erase_newtypes(raws, facts, vocab)
    try:
        adts3, info["flattened_groups"] = flatten_substructs(raws, dict(facts, adts=adts2), vocab)
    except Exception as e:
        adts3, info["flattened_groups"] = adts2, []
        info["flatten_error"] = repr(e)
    facts2 = dict(facts, bodies=list(raws.values()), adts=adts3)
    return facts2, info


# ---------------------------------------------------------------------------------------------------------------
# variant threading: separate the paths that a helper's several `return`s merged

MAX_NODES = 6000
# calls whose result variant is a function of the variant of their first argument
TRANSFER = {"Try::branch": "branch", "Option::ok_or": "to_result", "Option::ok_or_else": "to_result", "Result::ok": "to_option",
            "Option::is_some": "is_good", "Result::is_ok": "is_good", "Option::is_none": "is_bad", "Result::is_err": "is_bad"}


def _top_args(ty):
    """top-level generic arguments of `path<A, B<C>, D>`"""
    i = ty.find("<")
    if i < 0 or not ty.endswith(">"):
        return []
    out, depth, cur = [], 0, ""
    for ch in ty[i + 1:-1]:
        if ch in "<([":
            depth += 1
        elif ch in ">)]":
            depth -= 1
        if ch == "," and depth == 0:
            out.append(cur.strip())
            cur = ""
        else:
            cur += ch
    if cur.strip():
        out.append(cur.strip())
    return out


def _carries_failure_enum(ty, depth=0):
    """`Result<T, E>` / `ControlFlow<Result<Infallible, E>, T>` whose E is a fieldless-or-not crate enum (a private failure kind)"""
    if depth > 2:
        return False
    if ty.startswith("core::result::Result<"):
        a = _top_args(ty)
        return len(a) == 2 and re.sub(r"<.*$", "", a[1]) in _CRATE_ENUMS
    if ty.startswith(("core::ops::control_flow::ControlFlow<", "core::ops::ControlFlow<")):
        a = _top_args(ty)
        return bool(a) and _carries_failure_enum(a[0], depth + 1)
    return False


def _same_err_type(res_ty, dest_ty):
    a, b = _top_args(res_ty), _top_args(dest_ty)
    return len(a) == 2 and len(b) == 2 and a[1] == b[1] and res_ty.startswith("core::result::Result<") and dest_ty.startswith("core::result::Result<")


def _variant_of_agg(agg):
    if agg.get("kind") == "adt" and "variant" in agg:
        return agg["variant"]
    return None


def thread_variants(raw):
    """State-product expansion of one body over facts `local -> known discriminant / small constant`.
    A `switch` on `discriminant(l)` (or on a bool/int local) with a known value keeps only the feasible target; blocks are
    duplicated per fact set, so paths that differ in the variant they returned stay apart (dominance and must-pass-through
    rules then see what a path-sensitive reading sees). Returns a new raw body, or the input when nothing can be gained
    or the expansion would exceed MAX_NODES."""
    blocks = raw["blocks"]
    # tracked locals: the return places / call destinations of inlined helpers and what they flow into by whole-value
    # moves, Try::branch and discriminant reads (forward closure). Everything else keeps a single copy of its blocks.
    def _threadable(l):
        ty = raw["locals"][l]["ty"] if l < len(raw["locals"]) else ""
        return ty.startswith(("core::option::Option<", "core::result::Result<", "core::ops::control_flow::ControlFlow<", "core::ops::ControlFlow<")) \
            or ty in ("bool", "isize", "usize", "u8", "u32", "i32", "u64") or re.sub(r"<.*$", "", ty) in _CRATE_ENUMS \
            or (ty.startswith("(") and any(e_ in ty for e_ in _CRATE_ENUMS))      # a tuple that carries a crate enum
    # only variant-like values are worth separating (a helper's Option / Result / bool return); a payload enum built inside a
    # loop would otherwise peel the loop (its variant is a "fact" on the back edge)
    relevant = {l for l in (raw.get("thread_seeds") or []) if _threadable(l)}
    if not relevant:
        return raw

    def _payload_proj(pl):
        """the field path (k1, k2, ..) of a place `(x as V).k1.k2` (downcasts and fields only, at least one field), else None"""
        pp = pl.get("p") or []
        path = []
        var = None
        for e in pp:
            if isinstance(e, dict) and "downcast" in e:
                var = e["downcast"]
                continue
            if isinstance(e, dict) and "f" in e:
                path.append((var, e["f"]))       # (variant it is a field of | None for a tuple / struct, field index)
                var = None
                continue
            return None
        return tuple(path) if path and var is None else None

    _defcount = {}
    for blk_ in blocks:
        for st_ in blk_["stmts"]:
            if st_["k"] == "assign" and not st_["place"]["p"]:
                _defcount[st_["place"]["l"]] = _defcount.get(st_["place"]["l"], 0) + 1
        t_ = blk_["term"]
        if t_["k"] == "call" and not t_["dest"]["p"]:
            _defcount[t_["dest"]["l"]] = _defcount.get(t_["dest"]["l"], 0) + 1

    def _single_def(l):
        return _defcount.get(l, 0) <= 1

    _onedef = {}
    for blk_ in blocks:
        for st_ in blk_["stmts"]:
            if st_["k"] == "assign" and not st_["place"]["p"]:
                _onedef.setdefault(st_["place"]["l"], []).append(st_.get("rv", {}))

    def _shared_ref(l):
        ty_ = raw["locals"][l]["ty"] if l < len(raw["locals"]) else ""
        return ty_.startswith("&") and not ty_.startswith("&mut")

    def _ref_root(l, depth=0):
        """the shared reference a local is a plain copy / reborrow of (single definitions all the way)"""
        if depth > 12 or not _shared_ref(l) or not _single_def(l):
            return l
        ds_ = _onedef.get(l) or []
        if len(ds_) != 1:
            return l
        rv_ = ds_[0]
        y = None
        if "use" in rv_:
            yp = mir.op_place(rv_["use"])
            if yp is not None and not yp["p"]:
                y = yp["l"]
        elif "ref" in rv_ and not rv_.get("mut") and rv_["ref"]["p"] == ["deref"]:
            y = rv_["ref"]["l"]
        if y is None or not _shared_ref(y) or not _single_def(y):
            return l
        return _ref_root(y, depth + 1)

    def _forget(facts, l):
        return {k: v for k, v in facts.items() if k != l and not (isinstance(k, tuple) and k[1] == l)}
    # constants of this body: assigned once, never borrowed mutably, from a variant literal / a constant / another constant local
    _mut_borrowed = set()
    for blk_ in blocks:
        for st_ in blk_["stmts"]:
            rv_ = st_.get("rv", {}) if st_["k"] == "assign" else {}
            for key_ in ("ref", "rawptr"):
                if key_ in rv_ and (rv_.get("mut") or key_ == "rawptr"):
                    _mut_borrowed.add(rv_[key_]["l"])
            if st_["k"] == "assign" and st_["place"]["p"]:
                _mut_borrowed.add(st_["place"]["l"])       # partial write
    const_locals = set()
    grew_ = True
    while grew_:
        grew_ = False
        for l_, ds_ in _onedef.items():
            if l_ in const_locals or l_ in _mut_borrowed or not _single_def(l_) or len(ds_) != 1 or l_ <= raw.get("arg_count", 0):
                continue
            rv_ = ds_[0]
            ok_ = False
            if "agg" in rv_ and rv_["agg"].get("kind") == "adt" and not (rv_["agg"].get("ops") or []):
                ok_ = True
            elif "use" in rv_:
                if isinstance(rv_["use"].get("const"), dict):
                    ok_ = True
                else:
                    p_ = mir.op_place(rv_["use"])
                    ok_ = p_ is not None and not p_["p"] and p_["l"] in const_locals
            if ok_:
                const_locals.add(l_)
                grew_ = True
    changed = True
    while changed:
        changed = False
        for blk in blocks:
            for st in blk["stmts"]:
                if st["k"] != "assign" or st["place"]["p"] or st["place"]["l"] in relevant:
                    continue
                rv = st.get("rv", {})
                src = None
                if "use" in rv:
                    src = mir.op_place(rv["use"])
                elif "discr" in rv:
                    src = rv["discr"]
                if src is not None and not src["p"] and src["l"] in relevant:
                    relevant.add(st["place"]["l"])
                    changed = True
                # a payload read of a tracked value (`(x as V).k`) that is itself variant-like
                elif src is not None and _payload_proj(src) is not None and src["l"] in relevant and _threadable(st["place"]["l"]):
                    relevant.add(st["place"]["l"])
                    changed = True
                # the discriminant of a crate enum behind a shared reference (`match *kind_ref`)
                elif src is not None and "discr" in rv and src["p"] == ["deref"] and _shared_ref(src["l"]) \
                        and re.sub(r"<.*$", "", raw["locals"][src["l"]]["ty"].lstrip("&").strip()) in _CRATE_ENUMS:
                    relevant.add(st["place"]["l"])
                    changed = True
            # backwards: what a tracked value is a whole-value copy / payload of, and what a tracked `?` / `ok_or` result was
            # computed from (the facts on the source only matter because they reach a tracked value)
            for st in blk["stmts"]:
                if st["k"] == "assign" and not st["place"]["p"] and st["place"]["l"] in relevant and "use" in st.get("rv", {}):
                    sp_ = mir.op_place(st["rv"]["use"])
                    # (only carriers of a crate enum - `Result<T, Failure>`: an `Option<Entity>` driving a loop is left alone)
                    if sp_ is not None and sp_["l"] not in relevant and _threadable(sp_["l"]) and (not sp_["p"] or _payload_proj(sp_) is not None) \
                            and _carries_failure_enum(raw["locals"][sp_["l"]]["ty"]):
                        relevant.add(sp_["l"])
                        changed = True
            t = blk["term"]
            if t["k"] == "call" and not t["dest"]["p"] and t["dest"]["l"] in relevant and t["args"]:
                fr_ = op_fn(t["func"])
                if fr_ and (mir.tail2(fr_["path"]) in TRANSFER or mir.tail2(fr_["path"]) == "FromResidual::from_residual"):
                    ap_ = mir.op_place(t["args"][0])
                    if ap_ is not None and not ap_["p"] and ap_["l"] not in relevant and _threadable(ap_["l"]) \
                            and _carries_failure_enum(raw["locals"][ap_["l"]]["ty"]):
                        relevant.add(ap_["l"])
                        changed = True
            # `opt.ok_or(Failure::X)` into a tracked result: which failure
            if t["k"] == "call" and not t["dest"]["p"] and t["dest"]["l"] in relevant and len(t["args"]) > 1:
                fr_ = op_fn(t["func"])
                if fr_ and TRANSFER.get(mir.tail2(fr_["path"])) == "to_result":
                    ep_ = mir.op_place(t["args"][1])
                    if ep_ is not None and not ep_["p"] and ep_["l"] not in relevant and re.sub(r"<.*$", "", raw["locals"][ep_["l"]]["ty"]) in _CRATE_ENUMS:
                        relevant.add(ep_["l"])
                        changed = True
            # ... and, backwards, the variant-like operands a tracked aggregate is built from (`Outer::V(inner)`)
            for st in blk["stmts"]:
                if st["k"] == "assign" and not st["place"]["p"] and st["place"]["l"] in relevant and "agg" in st.get("rv", {}):
                    for op_ in st["rv"]["agg"].get("ops") or []:
                        p_ = mir.op_place(op_)
                        if p_ is not None and not p_["p"] and p_["l"] not in relevant and _threadable(p_["l"]) \
                                and (re.sub(r"<.*$", "", raw["locals"][p_["l"]]["ty"]) in _CRATE_ENUMS or raw["locals"][p_["l"]]["ty"].startswith("(")):
                            relevant.add(p_["l"])
                            changed = True
            t = blk["term"]
            if t["k"] == "call" and not t["dest"]["p"] and t["dest"]["l"] not in relevant and t["args"]:
                fr = op_fn(t["func"])
                p = mir.op_place(t["args"][0])
                if p is not None and not p["p"] and p["l"] not in relevant and _single_def(p["l"]):
                    rds_ = _onedef.get(p["l"]) or []       # `x.is_none()`: the argument is a reference temporary `&x`
                    if len(rds_) == 1 and "ref" in rds_[0] and not rds_[0]["ref"]["p"]:
                        p = rds_[0]["ref"]
                if fr and mir.tail2(fr["path"]) in TRANSFER and p is not None and not p["p"] and p["l"] in relevant:
                    relevant.add(t["dest"]["l"])
                    changed = True


    def ty_kind(l):
        ty = raw["locals"][l]["ty"]
        if ty.startswith("core::option::Option<"):
            return "option"
        if ty.startswith("core::result::Result<"):
            return "result"
        return None

    def step_stmt(st, facts):
        if st["k"] != "assign":
            return facts
        pl = st["place"]
        rv = st.get("rv", {})
        # address taken mutably / partial write: forget
        for key in ("ref", "rawptr"):
            if key in rv and (rv.get("mut") or key == "rawptr") and (rv[key]["l"] in facts or any(isinstance(k, tuple) and k[1] == rv[key]["l"] for k in facts)):
                facts = _forget(facts, rv[key]["l"])
        if pl["p"]:
            if pl["l"] in facts or any(isinstance(k, tuple) and k[1] == pl["l"] for k in facts):
                # writing through a projection of a tracked local (e.g. a field of the payload) keeps the discriminant
                # only when the first projection is a downcast/field of the same variant; be conservative: forget
                facts = _forget(facts, pl["l"])
            return facts
        l = pl["l"]
        # (read the source's facts before the destination is forgotten: `x = move x.0` does not occur, but `x = y` may alias)
        src_facts = facts
        facts = _forget(facts, l)
        # what is known about `*r` travels with copies / reborrows of the shared reference r
        rsrc = None
        if "use" in rv:
            rp_ = mir.op_place(rv["use"])
            if rp_ is not None and not rp_["p"]:
                rsrc = rp_["l"]
        elif "ref" in rv and not rv.get("mut") and rv["ref"]["p"] == ["deref"]:
            rsrc = rv["ref"]["l"]
        if rsrc is not None and ("d", rsrc) in src_facts and raw["locals"][l]["ty"].startswith("&") and not raw["locals"][l]["ty"].startswith("&mut") \
                and _single_def(l):
            facts[("d", l)] = src_facts[("d", rsrc)]
        if l not in relevant:
            return facts
        if "agg" in rv:
            v = _variant_of_agg(rv["agg"])
            if v is not None:
                facts[l] = ("v", v)
            if v is not None or rv["agg"].get("kind") == "tuple":
                # what the payload operands are known to be (`Outer::V(Inner::W(..))`, `Some((e, Kind::W(..)))`): facts on
                # `(l as V).k` and, transitively, on the payloads of the payloads
                for k_, op_ in enumerate(rv["agg"].get("ops") or []):
                    p_ = mir.op_place(op_)
                    if p_ is None or p_["p"]:
                        continue
                    if p_["l"] in src_facts and src_facts[p_["l"]][0] == "v":
                        facts[("p", l, (v, k_))] = src_facts[p_["l"]]
                    for k2, v2 in list(src_facts.items()):
                        if isinstance(k2, tuple) and k2[0] == "p" and k2[1] == p_["l"]:
                            facts[("p", l, (v, k_)) + tuple(k2[2:])] = v2
        elif "use" in rv:
            op = rv["use"]
            c = op.get("const") if isinstance(op, dict) else None
            if c is not None and "val" in c:
                facts[l] = ("c", c["val"])
            else:
                p = mir.op_place(op)
                if p is not None and not p["p"] and (p["l"] in src_facts or any(isinstance(k2, tuple) and k2[1] == p["l"] for k2 in src_facts)):
                    if p["l"] in src_facts:
                        facts[l] = src_facts[p["l"]]
                    for k2, v2 in list(src_facts.items()):
                        if isinstance(k2, tuple) and k2[1] == p["l"]:
                            facts[("p", l) + tuple(k2[2:])] = v2
                    if "move" in op and p["l"] != l:
                        facts = _forget(facts, p["l"])       # moved-from: the value lives in the destination now
                elif p is not None and _payload_proj(p) is not None:
                    pre = ("p", p["l"]) + _payload_proj(p)
                    if pre in src_facts:
                        facts[l] = src_facts[pre]
                    for k2, v2 in list(src_facts.items()):
                        if isinstance(k2, tuple) and len(k2) > len(pre) and k2[:len(pre)] == pre:
                            facts[("p", l) + tuple(k2[len(pre):])] = v2
        elif "discr" in rv:
            src = rv["discr"]
            if not src["p"] and src["l"] in facts and facts[src["l"]][0] == "v":
                facts[l] = ("c", facts[src["l"]][1])
            elif src["p"] == ["deref"] and facts.get(("d", _ref_root(src["l"])), ("", None))[0] == "v":
                facts[l] = ("c", facts[("d", _ref_root(src["l"]))][1])
            elif _payload_proj(src) is not None and facts.get(("p", src["l"]) + _payload_proj(src), ("", None))[0] == "v":
                facts[l] = ("c", facts[("p", src["l"]) + _payload_proj(src)][1])
        return facts

    def key(facts):
        return tuple(sorted(facts.items(), key=repr))

    # facts are not carried around a loop: a back edge re-enters the header with no facts (otherwise the first iteration
    # would be peeled off and the loop rules would see two loops)
    loop_assigned = {}      # loop header -> locals (re)defined somewhere in the loop
    try:
        _b = mir.Body(raw, None)
        _loops = list(_b.loops())
        back_edges = {(x, h) for (h, blocks_, backs_) in _loops for x in backs_}
        for (h, blocks_, backs_) in _loops:
            acc_ = loop_assigned.setdefault(h, set())
            for bi_ in blocks_:
                for st_ in blocks[bi_]["stmts"]:
                    if st_["k"] == "assign":
                        acc_.add(st_["place"]["l"])
                        rv_ = st_.get("rv", {})
                        for key_ in ("ref", "rawptr"):
                            if key_ in rv_ and (rv_.get("mut") or key_ == "rawptr"):
                                acc_.add(rv_[key_]["l"])
                    elif st_["k"] not in ("nop", "storage_live", "storage_dead") and isinstance(st_.get("place"), dict):
                        acc_.add(st_["place"]["l"])
                t_ = blocks[bi_]["term"]
                if t_["k"] == "call":
                    acc_.add(t_["dest"]["l"])
                elif t_["k"] == "drop" and isinstance(t_.get("place"), dict):
                    acc_.add(t_["place"]["l"])
    except Exception:
        back_edges = set()
        loop_assigned = {}
    # a fact is dropped where its local is not mentioned any more (continuations that do not look at the value re-merge)
    def _mentions(x, acc):
        if isinstance(x, dict):
            if "l" in x and "p" in x and isinstance(x["l"], int):
                if x["l"] in relevant:
                    acc.add(x["l"])
                for e in x["p"]:
                    if isinstance(e, dict) and "index" in e and e["index"] in relevant:
                        acc.add(e["index"])
                return
            for v in x.values():
                _mentions(v, acc)
        elif isinstance(x, list):
            for v in x:
                _mentions(v, acc)
    ment = []
    for blk in blocks:
        acc = set()
        _mentions(blk["stmts"], acc)
        _mentions(blk["term"], acc)
        ment.append(acc)
    def _ts(t):
        k = t["k"]
        if k == "goto":
            return [t["t"]]
        if k == "switch":
            return [bb for _, bb in t["targets"]] + [t["otherwise"]]
        if k in ("call", "drop", "assert"):
            return [t["t"]] if t.get("t") is not None else []
        return []
    succ_raw = [_ts(blk["term"]) for blk in blocks]
    # (for the `*r` facts the reference local r need not be variant-like: its liveness is computed over all locals)
    def _mentions_any(x, acc):
        if isinstance(x, dict):
            if "l" in x and "p" in x and isinstance(x["l"], int):
                acc.add(x["l"])
                return
            for v in x.values():
                _mentions_any(v, acc)
        elif isinstance(x, list):
            for v in x:
                _mentions_any(v, acc)
    live_any = []
    for blk in blocks:
        acc = set()
        _mentions_any(blk["stmts"], acc)
        _mentions_any(blk["term"], acc)
        live_any.append(acc)
    live = [set(m) for m in ment]
    ch_ = True
    while ch_:
        ch_ = False
        for bi in range(len(blocks) - 1, -1, -1):
            for sb in succ_raw[bi]:
                if sb is not None and not live[sb] <= live[bi]:
                    live[bi] |= live[sb]
                    ch_ = True
                if sb is not None and not live_any[sb] <= live_any[bi]:
                    live_any[bi] |= live_any[sb]
                    ch_ = True
    nodes = {}
    order = []
    work = [(0, {})]
    nodes[(0, key({}))] = 0
    order.append((0, {}))
    edges = {}
    while work:
        b, facts_in = work.pop()
        nid = nodes[(b, key(facts_in))]
        blk = blocks[b]
        facts = dict(facts_in)
        for st in blk["stmts"]:
            facts = step_stmt(st, facts)
        t = blk["term"]
        succs = []     # (label, target block, facts)
        k = t["k"]
        if k == "goto":
            succs.append(("t", t["t"], facts))
        elif k == "switch":
            p = mir.op_place(t["op"])
            known = None
            if p is not None and not p["p"] and p["l"] in facts:
                known = facts[p["l"]][1]
            if known is not None:
                tgt = dict((v, bb) for v, bb in t["targets"]).get(known, t["otherwise"])
                # resolved: forget, so the paths re-merge behind the decision - except what is known about the payloads
                # (`Outer::V(Inner::W)`: the arm still has to read which W it carries)
                # ... and what is known about the constants of this body (a local assigned once, from a variant literal or from
                # another such local: the same fact on every path that reaches a use, so it separates nothing) - `kind` matched
                # a second time by the next helper
                succs.append(("only", tgt, {k_: v_ for k_, v_ in facts.items() if isinstance(k_, tuple) or k_ in const_locals}))
            else:
                # what an arm learns: the scrutinee `d = discriminant(P)` was computed in this block, so on the edge of value v
                # the variant of P is v - for `*r` behind a shared reference that is assigned once (the
                # referent cannot change while the `&` lives): a later `match` on the same value is decided per arm
                learn = None
                if p is not None and not p["p"]:
                    for st_ in reversed(blk["stmts"]):
                        if st_["k"] == "assign" and not st_["place"]["p"] and st_["place"]["l"] == p["l"]:
                            src_ = st_.get("rv", {}).get("discr")
                            # (a plain local is not learned: its arms would stay apart for as long as it is mentioned, which
                            # peels loops driven by it; its later matches are rare)
                            if src_ is not None and src_["p"] == ["deref"] and raw["locals"][src_["l"]]["ty"].startswith("&") \
                                    and not raw["locals"][src_["l"]]["ty"].startswith("&mut") and _single_def(src_["l"]):
                                learn = ("d", _ref_root(src_["l"]))
                            break
                for v, bb in t["targets"]:
                    f3 = dict(facts)
                    if learn is not None:
                        f3[learn] = ("v", v)
                    succs.append(("case", bb, f3, v))
                succs.append(("otherwise", t["otherwise"], facts))
        elif k == "call":
            f2 = dict(facts)
            d = t["dest"]
            # arguments passed by &mut may be changed by the callee
            if not d["p"]:
                f2 = _forget(f2, d["l"])
                fr = op_fn(t["func"])
                if fr is not None and d["l"] in relevant and t["args"]:
                    nm = mir.tail2(fr["path"])
                    a0 = mir.op_place(t["args"][0])
                    # `x.is_none()` takes `&x`: look through a reference temporary that is assigned once
                    if a0 is not None and not a0["p"] and a0["l"] not in facts and _single_def(a0["l"]):
                        rds_ = _onedef.get(a0["l"]) or []
                        if len(rds_) == 1 and "ref" in rds_[0] and not rds_[0]["ref"]["p"] and rds_[0]["ref"]["l"] in facts:
                            a0 = rds_[0]["ref"]
                    if nm in TRANSFER and TRANSFER[nm] == "to_result" and a0 is not None and not a0["p"]:
                        # `opt.ok_or(e)`: *if* the result is Err its payload is e, *if* it is Ok its payload is opt's (whatever
                        # the variant turns out to be)
                        if len(t["args"]) > 1:
                            ep_ = mir.op_place(t["args"][1])
                            if ep_ is not None and not ep_["p"] and ep_["l"] in facts and facts[ep_["l"]][0] == "v":
                                f2[("p", d["l"], (1, 0))] = facts[ep_["l"]]
                        for k2, v2 in list(facts.items()):
                            if isinstance(k2, tuple) and k2[0] == "p" and k2[1] == a0["l"] and len(k2) >= 3 and k2[2] == (1, 0):
                                f2[("p", d["l"], (0, 0)) + tuple(k2[3:])] = v2
                    if nm in TRANSFER and TRANSFER[nm] == "branch" and a0 is not None and not a0["p"] and ty_kind(a0["l"]) in ("option", "result"):
                        # `x?`: the payloads travel along whatever the variant turns out to be - *if* Continue(x) it carries the
                        # Ok / Some payload, *if* Break(r) the residual r is Err(e) with the same e / None
                        kind_ = ty_kind(a0["l"])
                        good_elem = (1, 0) if kind_ == "option" else (0, 0)      # Some(x) / Ok(x)
                        for k2, v2 in list(facts.items()):
                            if isinstance(k2, tuple) and k2[0] == "p" and k2[1] == a0["l"] and len(k2) >= 3:
                                if k2[2] == good_elem:
                                    f2[("p", d["l"], (0, 0)) + tuple(k2[3:])] = v2             # Continue(x)
                                elif kind_ == "result" and k2[2] == (1, 0):
                                    f2[("p", d["l"], (1, 0), (1, 0)) + tuple(k2[3:])] = v2     # Break(Err(e))
                        f2[("p", d["l"], (1, 0))] = ("v", 1 if kind_ == "result" else 0)      # the residual: Err(..) / None
                    if nm in TRANSFER and a0 is not None and not a0["p"] and a0["l"] in facts and facts[a0["l"]][0] == "v":
                        kind = ty_kind(a0["l"])
                        v = facts[a0["l"]][1]
                        good = (kind == "option" and v == 1) or (kind == "result" and v == 0)      # Some / Ok
                        if kind in ("option", "result"):
                            what = TRANSFER[nm]
                            if what == "branch":
                                f2[d["l"]] = ("v", 0 if good else 1)      # Continue(0) / Break(1)
                            elif what == "to_result":
                                f2[d["l"]] = ("v", 0 if good else 1)      # Ok(0) / Err(1)
                            elif what == "to_option":
                                f2[d["l"]] = ("v", 1 if good else 0)      # Some(1) / None(0)
                            elif what == "is_good":
                                f2[d["l"]] = ("c", 1 if good else 0)
                            elif what == "is_bad":
                                f2[d["l"]] = ("c", 0 if good else 1)
                    elif nm == "FromResidual::from_residual":
                        kind = ty_kind(d["l"])
                        if kind == "option":
                            f2[d["l"]] = ("v", 0)
                        elif kind == "result":
                            f2[d["l"]] = ("v", 1)
                            # `Err(From::from(e))`: the same error value when the error types are the same type
                            if a0 is not None and not a0["p"] and _same_err_type(raw["locals"][a0["l"]]["ty"], raw["locals"][d["l"]]["ty"]):
                                for k2, v2 in list(facts.items()):
                                    if isinstance(k2, tuple) and k2[0] == "p" and k2[1] == a0["l"] and len(k2) >= 3 and k2[2] == (1, 0):
                                        f2[("p", d["l"]) + tuple(k2[2:])] = v2
            if t["t"] is not None:
                succs.append(("t", t["t"], f2))
        elif k in ("drop", "assert"):
            f2 = dict(facts)
            if k == "drop" and not t["place"]["p"]:
                f2 = _forget(f2, t["place"]["l"])
            succs.append(("t", t["t"], f2))
        outs = []
        for s in succs:
            tb, f2 = s[1], s[2]
            f2 = {l: v for l, v in f2.items()
                  if ((l[1] if isinstance(l, tuple) else l) in relevant or (isinstance(l, tuple) and l[0] == "d"))
                  and ((isinstance(l, tuple) and l[0] == "d") or (l[1] if isinstance(l, tuple) else l) in live_any[tb])}
            if (b, tb) in back_edges or tb in loop_assigned:
                # into a loop header (from outside or around a back edge) only the constants of the body that are set before the loop are carried (the header keeps
                # one state per entry state, nothing is peeled, and what was known about them before the loop is known behind it)
                f2 = {l: v for l, v in f2.items() if not isinstance(l, tuple) and l in const_locals and l not in loop_assigned.get(tb, ())}
            kk = (tb, key(f2))
            if kk not in nodes:
                if len(nodes) >= MAX_NODES:
                    return raw
                nodes[kk] = len(nodes)
                order.append((tb, f2))
                work.append((tb, f2))
            outs.append((s[0], nodes[kk]) + tuple(s[3:]))
        edges[nid] = outs
    # rebuild
    new_blocks = []
    for nid, (b, facts) in enumerate(order):
        blk = blocks[b]
        # constant propagation inside the copy: `x = move y` where y is known to hold a constant on this path becomes
        # `x = const` (a helper's `return false` / `true` merged into one return place reads as a constant again)
        stmts2 = blk["stmts"]
        if facts and any(v[0] == "c" for v in facts.values()):
            stmts2 = []
            fcur = dict(facts)
            for st in blk["stmts"]:
                st2 = st
                if st["k"] == "assign" and "use" in st.get("rv", {}):
                    p_ = mir.op_place(st["rv"]["use"])
                    if p_ is not None and not p_["p"] and fcur.get(p_["l"], ("", None))[0] == "c" \
                            and raw["locals"][p_["l"]]["ty"] in ("bool", "usize", "isize", "u8", "u32", "i32", "u64"):
                        st2 = dict(st)
                        st2["rv"] = {"use": {"const": {"ty": raw["locals"][p_["l"]]["ty"], "val": fcur[p_["l"]][1],
                                                       "repr": str(fcur[p_["l"]][1])}}}
                        st2["propagated"] = True
                stmts2.append(st2)
                fcur = step_stmt(st, fcur)
        nb = {"cleanup": blk["cleanup"], "stmts": stmts2, "orig": b}
        if "file" in blk:
            nb["file"] = blk["file"]
        t = dict(blk["term"])
        outs = edges.get(nid, [])
        k = t["k"]
        if k == "goto":
            t["t"] = outs[0][1]
        elif k == "switch":
            if outs and outs[0][0] == "only":
                t = {"k": "goto", "t": outs[0][1], "line": t["line"], "exp": t.get("exp"), "threaded": True}
            else:
                t["targets"] = [[o[2], o[1]] for o in outs if o[0] == "case"]
                t["otherwise"] = [o[1] for o in outs if o[0] == "otherwise"][0]
        elif k == "call":
            t["t"] = outs[0][1] if outs else None
            t["unwind"] = None
        elif k in ("drop", "assert"):
            t["t"] = outs[0][1]
            t["unwind"] = None
        nb["term"] = t
        new_blocks.append(nb)
    out = dict(raw)
    out["blocks"] = new_blocks
    out["threaded"] = {"nodes": len(new_blocks), "from": len(blocks)}
    return out

"""A7 interprocedural event counting: summary(body) = set of possible numbers (0,1,2=many) of base events on a
path from entry to a normal return; composed through direct crate callees and through systems handed to the
syscall family (a queued syscall runs its system exactly once)."""
from collections import deque

import mir
from mir import op_fn
import lib

SYSCALL_NAMES = {"syscall", "syscall_with_validation", "syscall_once", "syscall_once_with_validation"}


class Effects:
    def __init__(self, prog, base, depth=4):
        self.prog = prog
        self.base = base          # base(body, block, term, fnref) -> set of multiplicities or None
        self.depth = depth
        self.memo = {}
        self.events = {}
        self.states = 0

    def summary(self, body, d=0):
        if body.path in self.memo:
            return self.memo[body.path]
        if d > self.depth:
            return {0}
        self.memo[body.path] = {0}
        ev = {}
        for b, t, fr in body.iter_calls():
            m = self.base(body, b, t, fr)
            if m is None and fr is not None:
                if lib.tail(mir.fn_name(fr), 1) in SYSCALL_NAMES:
                    for a in t["args"]:
                        fa = op_fn(a)
                        fb = self.prog.resolve_local(fa) if fa else None
                        if fb is not None:
                            s = self.summary(fb, d + 1)
                            if s != {0}:
                                m = s
                else:
                    cb = self.prog.resolve_local(fr)
                    if cb is not None and cb.path != body.path:
                        s = self.summary(cb, d + 1)
                        if s != {0}:
                            m = s
            if m is not None:
                ev[b] = m
        self.events[body.path] = ev
        out = self.count(body, ev)
        self.memo[body.path] = out
        return out

    def count(self, body, ev, start=0, within=None, sat=2):
        seen = {(start, 0)}
        dq = deque([(start, 0)])
        out = set()
        while dq:
            b, c = dq.popleft()
            cs = [c]
            if b in ev:
                cs = sorted({min(sat, c + m) for m in ev[b]})
            for c2 in cs:
                if body.blocks[b]["term"]["k"] == "return":
                    out.add(c2)
                for s in body.succ[b]:
                    if within is not None and s not in within:
                        continue
                    if (s, c2) not in seen:
                        seen.add((s, c2))
                        dq.append((s, c2))
        self.states += len(seen)
        return out

    def count_from(self, body, start):
        """counts on paths from block `start` to a return"""
        self.summary(body)
        return self.count(body, self.events.get(body.path, {}), start=start)

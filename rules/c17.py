"""C17 - syscall family: keyed persistent state, effects applied on return (DESIGN.md section 4, C17).
Take-run-put-back typestate of the three caches."""
import re

import mir
from mir import op_fn, op_place, origins
import lib
import anchors as A
import core

EXPLANATION = (
    "Take-run-put-back typestate on the entry points of the syscall family. syscall_with_validation: the cached system is "
    "removed from the resource keyed by the system *type* S, initialized only on the not-found arm, run exactly once with "
    "the deferred-applying System::run, and re-inserted under the same key on every path. named_syscall / "
    "named_syscall_direct: the node is emptied with Option::take, exactly one run followed by apply_deferred, the system "
    "is put back under the same SysName on every path; the direct variant returns Err before any run when the name is "
    "unknown; SysName::new::<S> folds TypeId::of::<S>() into the key. spawned_syscall: three Err returns (entity gone, "
    "component missing, system currently running), each before any run; exactly one run; re-insertion on every path where "
    "the post-run lookups succeed. run_initialized_system applies deferred commands on every path (shared with C04.a).")

NOT_DECIDED = ["return values; nested-call behaviour beyond the documented warning (an inner recursive syscall builds a fresh system by design)"]

EXCEPTIONS = {"spawned_syscall:?-after-run": "the `?` after callback.run is reachable only for CallbackSystem::Empty, which holds no system to lose"}


# ways of storing the system back into its slot: overwrite the Option in an existing slot, or insert a new slot
PUT_BACK_CALLS = ("Option::replace", "Option::insert", "HashMap::insert", "VacantEntry::insert", "OccupiedEntry::insert", "Entry::insert",
                  "Entry::insert_entry", "VacantEntry::insert_entry")


def runs(body, names=("System::run",)):
    return [b for b, t, fr in body.iter_calls() if fr and lib.tail(mir.fn_name(fr), 2) in names]


def check(ctx):
    ctx.explanation = EXPLANATION
    ctx.not_decided = NOT_DECIDED
    prog = ctx.prog
    # ---- C17.a syscall_with_validation ----
    try:
        sv = A.free_fn(prog, "syscall_with_validation")
        ctx.touch(sv, calls=len(list(sv.iter_calls())))
        rm = [(b, t, fr) for b, t, fr in sv.iter_calls() if fr and lib.tail(mir.fn_name(fr), 2) == "World::remove_resource"]
        ins = [(b, t, fr) for b, t, fr in sv.iter_calls() if fr and lib.tail(mir.fn_name(fr), 2) == "World::insert_resource"]
        rn = runs(sv)
        init = [b for b, t, fr in sv.iter_calls() if fr and lib.tail(mir.fn_name(fr), 2) == "System::initialize"]
        ok = len(rm) == 1 and len(ins) == 1 and len(rn) >= 1
        if ok:
            cnt, _, ns = lib.event_counts(sv, rn)
            ctx.touch(sv, states=ns)
            ctx.check(cnt == {1}, "C17.a", "syscall_with_validation:runs-exactly-once", sv.loc(rn[0]), "exactly one System::run per path", "runs %s times" % sorted(cnt))
            key_rm = rm[0][2].get("args", [])[:1]
            key_in = ins[0][2].get("args", [])[:1]
            ctx.check(key_rm == key_in and key_rm and re.search(r"<I, O, S>$", key_rm[0]) is not None, "C17.a", "syscall_with_validation:same-key-includes-system-type",
                      sv.loc(rm[0][0]), "cache key %s" % key_rm, "cache is removed as %s and inserted as %s (key must be the same and include the system type S)" % (key_rm, key_in))
            w = lib.path_to_return_avoiding(sv, [lib.call_target(sv, rm[0][0])], [ins[0][0]])
            ctx.check(w is None and all(sv.dominates(r, ins[0][0]) for r in rn), "C17.a", "syscall_with_validation:reinserted-after-run-on-every-path", sv.loc(ins[0][0]),
                      "insert_resource after the run on every path", "a path returns without putting the system back (its state would be lost)", lib.render_path(sv, w) if w else None)
            arms = lib.result_arms(sv, rm[0][0])
            ctx.check(bool(arms) and all(sv.dominates(arms[0][2], b) for b in init) and bool(init), "C17.a", "syscall_with_validation:initialize-only-when-not-cached",
                      sv.loc(init[0]) if init else sv.loc(rm[0][0]), "initialize only on the not-found arm", "the cached system is (re)initialized when it was found")
            # the inserted value is the removed-or-new local that was run
            io = origins(sv, ins[0][1]["args"][1])
            ok2 = all((o[0] == "call" and o[1] == rm[0][0]) or o[0] == "agg" for o in io) and bool(io)
            ctx.check(ok2, "C17.a", "syscall_with_validation:puts-back-the-system-it-ran", sv.loc(ins[0][0]), "", "the value inserted is not the system that was taken or created: %s" % lib.origin_str(io))
        else:
            ctx.fail("C17.a", "syscall_with_validation:anchor-lost:take-run-put", "%s:%d" % (sv.file, sv.line), "remove %d insert %d run %d" % (len(rm), len(ins), len(rn)))
    except mir.AnchorLost as e:
        ctx.fail("C17.a", "anchor-lost:syscall_with_validation", "", str(e))

    # ---- C17.b named syscalls ----
    for nm in ("named_syscall", "named_syscall_direct"):
        try:
            f = A.free_fn(prog, nm)
        except mir.AnchorLost as e:
            ctx.fail("C17.b", "anchor-lost:%s" % nm, "", str(e))
            continue
        ctx.touch(f, calls=len(list(f.iter_calls())))
        rn = runs(f)
        ad = [b for b, t, fr in f.iter_calls() if fr and lib.tail(mir.fn_name(fr), 2) == "System::apply_deferred"]
        cnt, _, ns = lib.event_counts(f, rn)
        ctx.touch(f, states=ns)
        allowed = {1} if nm == "named_syscall" else {0, 1}
        ctx.check(cnt <= allowed and 1 in cnt, "C17.b", "%s:runs-exactly-once" % nm, f.loc(rn[0]) if rn else "", "System::run counts %s" % sorted(cnt), "runs %s times" % sorted(cnt))
        w = lib.path_to_return_avoiding(f, [lib.call_target(f, r) for r in rn], ad)
        ctx.check(bool(ad) and w is None and all(any(f.dominates(r, a) for r in rn) for a in ad), "C17.b", "%s:apply_deferred-after-run" % nm, f.loc(ad[0]) if ad else "",
                  "apply_deferred follows the run on every path", "a path returns after the run without apply_deferred (queued commands would not be applied before returning)")
        # take through map_or closure
        taken = []
        for b, t, fr in f.iter_calls():
            if fr and lib.tail(mir.fn_name(fr), 1) in ("map_or", "and_then", "map") and t["args"]:
                # `.and_then(Option::take)`: the function item itself
                fi_ = op_fn(t["args"][-1])
                if fi_ is not None and lib.tail(mir.fn_name(fi_), 2) == "Option::take":
                    taken.append(b)
                for o in origins(f, t["args"][-1]):
                    if o[0] == "agg":
                        ag = f.blocks[o[1]]["stmts"][o[2]]["rv"]["agg"]
                        cb = prog.body(ag.get("closure")) if ag["kind"] == "closure" else None
                        if cb is not None and any(fr2 and lib.tail(mir.fn_name(fr2), 2) == "Option::take" for _, _, fr2 in cb.iter_calls()):
                            taken.append(b)
            if fr and lib.tail(mir.fn_name(fr), 2) == "Option::take":
                taken.append(b)
        ctx.check(len(taken) == 1 and all(f.dominates(taken[0], r) for r in rn), "C17.b", "%s:node-emptied-with-take-before-run" % nm, f.loc(taken[0]) if taken else "",
                  "the stored system is moved out with Option::take before it runs", "the named system is not taken out of its node before the run")
        # put back: replace or insert with the same key
        puts = [(b, t, lib.tail(mir.fn_name(fr), 2)) for b, t, fr in f.iter_calls() if fr and lib.tail(mir.fn_name(fr), 2) in PUT_BACK_CALLS
                and any(f.dominates(r, b) for r in rn)]
        w = lib.path_to_return_avoiding(f, [lib.call_target(f, r) for r in rn], [p[0] for p in puts])
        ctx.check(bool(puts) and w is None, "C17.b", "%s:put-back-on-every-path" % nm, f.loc(rn[0]) if rn else "", "system is put back (replace / insert) on every path after the run",
                  "a path returns after the run without putting the system back", lib.render_path(f, w) if w else None)
        gms = [(b, t) for b, t, fr in f.iter_calls() if fr and lib.tail(mir.fn_name(fr), 2) in ("HashMap::get_mut", "HashMap::get", "HashMap::entry")]
        keys = set()
        for b, t in gms:
            keys.add(frozenset(tuple(o) for o in origins(f, t["args"][1])))
        for b, t, n2 in puts:
            if n2 == "HashMap::insert":
                keys.add(frozenset(tuple(o) for o in origins(f, t["args"][1])))
        ctx.check(len(keys) == 1, "C17.b", "%s:same-name-for-take-and-put-back" % nm, "%s:%d" % (f.file, f.line), "one key origin %s" % [sorted(k) for k in keys],
                  "the system is taken from and put back under different names: %s" % [sorted(k) for k in keys])
        if nm == "named_syscall_direct":
            errs = [b for b, i, st in f.iter_stmts() if st["k"] == "assign" and st["place"]["l"] == 0 and "agg" in st["rv"] and st["rv"]["agg"].get("vname") == "Err"]
            # ... or through `?` (the Err is rebuilt by from_residual)
            errs += [b for b, t, fr in f.iter_calls() if lib.is_call(fr, "FromResidual::from_residual") and not t["dest"]["p"]
                     and (t["dest"]["l"] == 0 or any(st["k"] == "assign" and st["place"]["l"] == 0 and "use" in st["rv"] and (op_place(st["rv"]["use"]) or {}).get("l") == t["dest"]["l"]
                                                     for _, _, st in f.iter_stmts()))]
            ctx.check(bool(errs) and not any(b in f.reach_from(lib.call_target(f, r)) for r in rn for b in errs), "C17.b", "named_syscall_direct:err-before-any-run",
                      f.loc(errs[0]) if errs else "", "Err is returned only on a path without a run", "Err can be returned after the system ran")
    try:
        sn = A.method(prog, "SysName", "new")
        ctx.touch(sn)
        tid = [fr.get("args") for b, t, fr in sn.iter_calls() if fr and lib.tail(mir.fn_name(fr), 2) == "TypeId::of"]
        ctx.check(tid == [["S"]], "C17.b", "SysName::new:includes-type-of-S", "%s:%d" % (sn.file, sn.line), "key = (hash(name), TypeId::of::<S>())",
                  "SysName::new does not fold TypeId::of::<S>() into the key: %s" % tid)
    except mir.AnchorLost as e:
        ctx.fail("C17.b", "anchor-lost:SysName::new", "", str(e))

    # ---- C17.c spawned_syscall ----
    try:
        sp = A.free_fn(prog, "spawned_syscall")
        ctx.touch(sp, calls=len(list(sp.iter_calls())))
        rn = [b for b, t, fr in sp.iter_calls() if fr and lib.tail(mir.fn_name(fr), 2) in ("CallbackSystem::run", "CallbackSystem::run_with_cleanup")]
        cnt, _, ns = lib.event_counts(sp, rn)
        ctx.touch(sp, states=ns)
        ctx.check(cnt <= {0, 1} and 1 in cnt and len(rn) == 1, "C17.c", "spawned_syscall:runs-at-most-once", sp.loc(rn[0]) if rn else "", "run counts %s" % sorted(cnt), "runs %s times" % sorted(cnt))
        if rn:
            r = rn[0]
            pre = []
            for b, t, fr in sp.iter_calls():
                if fr and lib.tail(mir.fn_name(fr), 2) in ("World::get_entity_mut", "EntityWorldMut::get_mut", "EntityWorldMut::into_mut", "Option::take") and not sp.dominates(r, b):
                    for (sb, ok_t, fail_t) in lib.result_arms(sp, b):
                        pre.append((lib.tail(mir.fn_name(fr), 2), ok_t, fail_t))
            ctx.check(len(pre) == 3 and all(sp.dominates(ok_t, r) for _, ok_t, _ in pre), "C17.c", "spawned_syscall:three-guards-before-run", sp.loc(r),
                      "run is dominated by entity found, component found and system present (%s)" % [p[0] for p in pre],
                      "the spawned system can run without all of: entity found, component found, system not already running")
            errs = [b for b, i, st in sp.iter_stmts() if st["k"] == "assign" and st["place"]["l"] == 0 and "agg" in st["rv"] and st["rv"]["agg"].get("vname") == "Err"]
            after = sp.reach_from(lib.call_target(sp, r))
            # an error is returned only for a missing or currently running system: every early Err sits on the failure arm of
            # one of the three guards (an extra refusal - a depth limit, a flag - makes live, idle systems uncallable)
            early = [b for b in errs if b not in after]
            fails = [f_ for _, _, f_ in pre]
            ctx.check(all(lib.dominated_by_any(sp, b, fails) for b in early), "C17.c", "spawned_syscall:errors-only-for-missing-or-running-system", sp.loc(r),
                      "every Err before the run is on the failure arm of entity / component / system-present",
                      "spawned_syscall can refuse (Err) a system that exists and is not running")
            late = [b for b in errs if b in after]
            # exception: the `?` right after run (Try::branch on the run's own result)
            tb = [b for b, t, fr in sp.iter_calls() if lib.is_call(fr, "Try::branch")]
            late_ok = all(any(sp.dominates(x, b) for x in tb) for b in late)
            # an Err rebuilt by `?` (from_residual) after the run is excused only when the `?` is on the run's own result: a `?`
            # on a later lookup returns Err for a call whose system did run (and drops its callback)
            def _from_run(op_, depth=0):
                if depth > 6:
                    return False
                for o_ in origins(sp, op_):
                    if o_[0] != "call":
                        return False
                    if o_[1] == r:
                        continue
                    t_ = sp.blocks[o_[1]]["term"]
                    f_ = op_fn(t_["func"])
                    if f_ is not None and (lib.is_call(f_, "Try::branch") or lib.tail(mir.fn_name(f_), 2) in ("Option::ok_or", "Option::ok_or_else")) and t_["args"] \
                            and _from_run(t_["args"][0], depth + 1):
                        continue
                    return False
                return True
            for b_, t_, fr_ in sp.iter_calls():
                if lib.is_call(fr_, "FromResidual::from_residual") and b_ in after and t_["args"] and not t_["dest"]["p"] \
                        and sp.local_ty(t_["dest"]["l"]) == sp.local_ty(0) and sp.local_ty(0).startswith("core::result::Result<") \
                        and (t_["dest"]["l"] == 0 or any(st_["k"] == "assign" and st_["place"]["l"] == 0 and not st_["place"]["p"] and "use" in st_["rv"]
                                                        and (op_place(st_["rv"]["use"]) or {}).get("l") == t_["dest"]["l"] for _, _, st_ in sp.iter_stmts())):
                    # (the function's own error; a `?` inside an inlined Option-returning helper is not one)
                    if not _from_run(t_["args"][0]):
                        late_ok = False
            if late and late_ok:
                ctx.notes.append("exception applied: spawned_syscall `?` after run - " + EXCEPTIONS["spawned_syscall:?-after-run"])
            ctx.check(late_ok, "C17.c", "spawned_syscall:err-before-any-run", sp.loc(r), "Err returns precede the run (except the Empty-callback `?`)", "Err is returned after the system ran")
            # reinsertion
            post_fail = []
            for b, t, fr in sp.iter_calls():
                if lib.is_call(fr, "World::get_entity_mut", "EntityWorldMut::get_mut", "EntityWorldMut::into_mut", "Try::branch") and sp.dominates(r, b):
                    for (sb, ok_t, fail_t) in lib.result_arms(sp, b):
                        post_fail.append(fail_t)
            # the run's own `None` (the callback was Empty): `run(..).ok_or(())?` or `let Some(r) = run(..) else { return Err(()) }`
            for (sb, ok_t, fail_t) in lib.result_arms(sp, r):
                post_fail.append(fail_t)
            rein = []
            # the slot that holds the callback, by type (its private name may change)
            try:
                _ss = prog.adt_by_name("SpawnedSystem")
                _slots = [f_["name"] for f_ in _ss["variants"][0]["fields"] if f_["ty"].startswith("core::option::Option<") and "CallbackSystem<" in f_["ty"]]
                slot = _slots[0] if len(_slots) == 1 else "system"
            except (mir.AnchorLost, KeyError, IndexError):
                slot = "system"
            for b, i, adt, fld, rv in lib.field_writes(sp, "SpawnedSystem"):
                if fld == slot and sp.dominates(r, b):
                    src = rv.get("use")
                    agg = rv.get("agg")
                    okv = False
                    for o in (origins(sp, src) if src else ()):
                        if o[0] == "agg":
                            agg = sp.blocks[o[1]]["stmts"][o[2]]["rv"]["agg"]
                    if agg and agg.get("vname") == "Some":
                        okv = all(x[0] == "call" for x in origins(sp, agg["ops"][0]))
                    if okv:
                        rein.append(b)
            w = lib.path_to_return_avoiding(sp, [lib.call_target(sp, r)], set(rein) | set(post_fail))
            ctx.check(bool(rein) and w is None, "C17.c", "spawned_syscall:reinserted-unless-target-gone", sp.loc(r),
                      "every path after the run re-inserts the callback or passes a failed post-run lookup", "a path after the run drops the system although its entity and component still exist",
                      lib.render_path(sp, w) if w else None)
    except mir.AnchorLost as e:
        ctx.fail("C17.c", "anchor-lost:spawned_syscall", "", str(e))
    # CallbackSystem::run delegates to run_with_cleanup (=> run_initialized_system => deferred applied)
    try:
        cr = A.method(prog, "CallbackSystem", "run")
        ctx.touch(cr)
        ctx.check(bool(cr.calls_named(lambda n: lib.tail(n, 2) == "CallbackSystem::run_with_cleanup")), "C17.c", "CallbackSystem::run:through-run_with_cleanup",
                  "%s:%d" % (cr.file, cr.line), "", "CallbackSystem::run does not go through run_with_cleanup")
    except mir.AnchorLost as e:
        ctx.fail("C17.c", "anchor-lost:CallbackSystem::run", "", str(e))
    # state persists across calls: the boxed callback system is written back as Initialized with the same system and is
    # initialized only when new (shared with C13.b)
    import c13
    n13 = core.adopt(ctx, c13, lambda o: o["rule"] == "C13.b" and "CallbackSystem::" in o["key"] and "RawCallbackSystem" not in o["key"], "C17.c")
    ctx.floor("C17.c", n13, 4, "shared write-back obligations of CallbackSystem::run_with_cleanup (C13.b)")
    # ---- C17.d ----
    import c04
    n = core.adopt(ctx, c04, lambda o: o["rule"] == "C04.a" and any(k in o["key"] for k in ("deferred-applied", "exclusive-arm-always-runs", "run-then-cleanup")), "C17.d")
    ctx.floor("C17.d", n, 3, "shared run_initialized_system obligations")
    # syscall delegates to syscall_with_validation; World/Commands extension methods delegate to the free functions
    try:
        s = A.free_fn(prog, "syscall")
        ctx.check(bool(s.calls_named(lambda n: lib.tail(n, 1) == "syscall_with_validation")), "C17.a", "syscall:delegates", "%s:%d" % (s.file, s.line), "", "syscall does not delegate to syscall_with_validation")
    except mir.AnchorLost as e:
        ctx.fail("C17.a", "anchor-lost:syscall", "", str(e))
    import writers
    nwr = writers.check(ctx, "C17.f", ["SpawnedSystem", "IdMappedSystems"])
    ctx.notes.append("who-writes table: %d system-cache fields with pinned writers checked" % nwr)
    _cache_pairing(ctx, prog)
    _lifecycle(ctx, prog)
    _sysname(ctx, prog)
    _no_rekeying(ctx, prog)
    _ext_siblings(ctx, prog)
    _archetype_update(ctx, prog)


def _cache_pairing(ctx, prog):
    """C17.a: the persistent per-function-type state lives in a resource keyed by the system type; whoever takes it out
    (World::remove_resource::<K>) puts a K back on every path. A second entry point that borrows the 'take or create' code
    but never stores the system back silently resets the state of the first."""
    n = 0
    for body in prog.bodies:
        if not body.file.startswith("src/ecs/"):
            continue
        for b, t, fr in body.iter_calls():
            if fr is None or lib.tail(mir.fn_name(fr), 2) not in ("World::remove_resource", "World::remove_non_send_resource"):
                continue
            key = (fr.get("args") or [""])[0]
            if not re.search(r"(^|::)InitializedSystem<", key):
                continue
            n += 1
            ctx.touch(body)
            puts = [b2 for b2, t2, fr2 in body.iter_calls() if fr2 and lib.tail(mir.fn_name(fr2), 2) == "World::insert_resource" and (fr2.get("args") or [""])[0] == key]
            w = lib.path_to_return_avoiding(body, [lib.call_target(body, b)], puts)
            ctx.check(bool(puts) and w is None, "C17.a", "%s:cached-system-put-back" % lib.fkey(body), body.loc(b),
                      "every path after remove_resource::<%s> re-inserts it" % key.split("::")[-1],
                      "%s takes the cached system out (remove_resource::<%s>) and can return without putting it back: the persistent state of `syscall` with that system type is lost"
                      % (lib.fkey(body), key.split("::")[-1]), lib.render_path(body, w) if w else None)
    ctx.floor("C17.a", n, 1, "sites that take the cached system out of the world")


def _lifecycle(ctx, prog):
    """C17.e: a system created in place (IntoSystem::into_system) is initialized on every path before it is run"""
    n = 0
    for body in prog.bodies:
        if not body.file.startswith("src/ecs/"):
            continue
        creates = [b for b, t, fr in body.iter_calls() if fr and lib.tail(mir.fn_name(fr), 2) == "IntoSystem::into_system"]
        rn = [b for b, t, fr in body.iter_calls() if fr and lib.tail(mir.fn_name(fr), 2) in ("System::run", "System::run_unsafe", "System::run_without_applying_deferred")]
        if not creates or not rn:
            continue
        inits = [b for b, t, fr in body.iter_calls() if fr and lib.tail(mir.fn_name(fr), 2) == "System::initialize"]
        ctx.touch(body)
        for c in creates:
            n += 1
            w = lib.path_between_avoiding(body, [lib.call_target(body, c)], rn, inits)
            ctx.check(w is None, "C17.e", "%s:created-system-initialized-before-run" % lib.fkey(body), body.loc(c),
                      "every path from IntoSystem::into_system to the run passes System::initialize",
                      "a freshly created system can reach its run without System::initialize (it panics or runs with no state)",
                      lib.render_path(body, w) if w else None)
    ctx.floor("C17.e", n, 2, "in-place system creations that are run in the same function")


def _sysname(ctx, prog):
    """C17.b: the name key depends on the given id (and on the system type, checked above): independent keys"""
    try:
        sn = A.method(prog, "SysName", "new")
    except mir.AnchorLost:
        return
    hashed = [b for b, t, fr in sn.iter_calls() if fr and lib.tail(mir.fn_name(fr), 1) == "hash" and t["args"] and lib.originates_from_arg(sn, t["args"][0], 1)]
    fin = [b for b, t, fr in sn.iter_calls() if fr and lib.tail(mir.fn_name(fr), 1) == "finish"]
    aggs = [st["rv"]["agg"] for b, i, st in sn.iter_stmts() if st["k"] == "assign" and "agg" in st["rv"] and st["rv"]["agg"].get("adt", "").endswith("::SysName")]
    ok = bool(hashed) and bool(fin) and len(aggs) == 1 and any(lib.originates_from_call(sn, aggs[0]["ops"][0], f) for f in fin) \
        and all(any(sn.dominates(h, f) for h in hashed) for f in fin)
    ctx.check(ok, "C17.b", "SysName::new:key-depends-on-the-given-name", "%s:%d" % (sn.file, sn.line),
              "the id is hashed into the key before finish()", "SysName::new does not hash the given id into the key: every name of one system type maps to the same state")


def _no_rekeying(ctx, prog):
    """C17.b: a name is turned into a key exactly once. `named_syscall(world, id, ..)` hashes its `id` into a SysName; handing
    it an already built SysName (or calling SysName::new on a SysName) stores the state under hash(key) instead of key, so
    the same name used through another entry point sees a different instance."""
    n = 0
    bad = []
    for body in prog.bodies:
        for b, t, fr in body.iter_calls():
            if fr is None:
                continue
            nm = mir.strip_generics(mir.fn_name(fr))
            if nm.endswith("named_syscall::named_syscall") or nm.endswith("SysName::new"):
                n += 1
                idty = None
                if len(t["args"]) >= (2 if nm.endswith("named_syscall") else 1):
                    a = t["args"][1 if nm.endswith("named_syscall") else 0]
                    p = op_place(a)
                    idty = body.local_ty(p["l"]) if p is not None and not p["p"] else None
                if idty is not None and re.sub(r"^&(mut )?", "", idty).endswith("named_syscall::SysName"):
                    bad.append((body, b))
    for body, b in bad:
        ctx.fail("C17.b", "%s:name-keyed-once" % lib.fkey(body), body.loc(b), "an already built SysName is hashed again into a second key: the state is stored under a key that "
                 "no other entry point (named_syscall_direct, register_named_system) computes for this name")
    if not bad:
        ctx.ok("C17.b", "name-keyed-once", "", "no SysName is re-hashed into another SysName (%d keying sites)" % n)


def _ext_siblings(ctx, prog):
    """C17.a: the deferred / forwarding variants of the syscall family call the variant of the same name (a `syscall`
    that forwards to `syscall_once` silently loses the persistent state), on every path"""
    names = ("syscall", "syscall_with_validation", "syscall_once", "syscall_once_with_validation")
    n = 0
    for body in prog.bodies:
        if body.kind != "assoc_fn" or body.raw.get("name") not in names or not (body.raw.get("impl_trait") or "").endswith("SyscallExt"):
            continue
        st = re.sub(r"<.*$", "", body.raw.get("impl_self", ""))
        if not st.endswith(("Commands", "EntityCommands")):
            continue
        nm = body.raw.get("name")
        n += 1
        ctx.touch(body)
        # direct forwarding call, or a queued closure that makes the call
        sites = []
        for b, t, fr in body.iter_calls():
            if fr and lib.tail(mir.fn_name(fr), 1) in names and mir.fn_name(fr) != body.path:
                sites.append((body, b, lib.tail(mir.fn_name(fr), 1)))
        queued = []
        for b, t, fr in body.iter_calls():
            if fr and lib.tail(mir.fn_name(fr), 2) == "Commands::queue" and len(t["args"]) > 1:
                for o in origins(body, t["args"][1]):
                    if o[0] == "agg":
                        ag = body.blocks[o[1]]["stmts"][o[2]]["rv"]["agg"]
                        cb = prog.body(ag.get("closure")) if ag["kind"] == "closure" else None
                        if cb is not None:
                            queued.append((b, cb))
        key = "<%s as %s>::%s" % (st.split("::")[-1], body.raw.get("impl_trait").split("::")[-1], nm)
        if queued:
            qb, cb = queued[0]
            inner = [(b, lib.tail(mir.fn_name(fr), 1)) for b, t, fr in cb.iter_calls() if fr and lib.tail(mir.fn_name(fr), 1) in names]
            cnt, _, _ = lib.event_counts(cb, [b for b, _ in inner])
            w = lib.path_to_return_avoiding(body, [0], [qb])
            ctx.check(len(queued) == 1 and w is None and cnt == {1} and all(_same_class(x, nm) for _, x in inner), "C17.a", "%s:defers-the-same-variant" % key, body.loc(qb),
                      "queues, on every path, a command that calls World::%s exactly once" % nm,
                      "the deferred %s does not call World::%s exactly once on every path (calls: %s)" % (nm, nm, [x for _, x in inner]))
        else:
            cnt, _, _ = lib.event_counts(body, [b for _, b, _ in sites])
            ctx.check(cnt == {1} and all(_same_class(x, nm) for _, _, x in sites), "C17.a", "%s:forwards-to-the-same-variant" % key, "%s:%d" % (body.file, body.line),
                      "forwards to %s exactly once on every path" % nm, "%s does not forward to the variant of the same name exactly once (calls: %s)" % (nm, [x for _, _, x in sites]))
    ctx.floor("C17.a", n, 8, "deferred / forwarding syscall variants (Commands, EntityCommands)")


def _same_class(callee, own):
    """state-persisting variants may forward to each other (with / without validation), and so may the run-once ones"""
    return ("once" in callee) == ("once" in own)


def _archetype_update(ctx, prog):
    """C17.d: the non-exclusive arm refreshes the system's archetype access before run_unsafe (Bevy's contract for
    run_unsafe: a query would otherwise miss entities in archetypes created since the previous run)"""
    for body in prog.bodies:
        ru = [b for b, t, fr in body.iter_calls() if fr and lib.tail(mir.fn_name(fr), 2) == "System::run_unsafe"]
        if not ru or not body.file.startswith("src/"):
            continue
        up = [b for b, t, fr in body.iter_calls() if fr and lib.tail(mir.fn_name(fr), 2) == "System::update_archetype_component_access"]
        ctx.touch(body)
        for r in ru:
            ctx.check(any(body.dominates(u, r) for u in up), "C17.d", "%s:archetype-access-updated-before-run_unsafe" % lib.fkey(body), body.loc(r),
                      "update_archetype_component_access dominates run_unsafe", "run_unsafe is not preceded by update_archetype_component_access on every path")

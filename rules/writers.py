"""A11 - who-writes table (frozen, confirmed by reading; rules/writers.json = the pinned tree's writers of every piece of framework
state). A function *writes* a field when it takes a mutable borrow of it, assigns to it (or through it) or moves out of it;
closures count as the function that builds them. Rule: on the analysed tree, every writer of a pinned (Type.field) is one of the
pinned writers - or a pinned writer that was renamed (a pinned writer of the same type has disappeared), or a new private
helper, which the helper-inlined view folds into its caller. A brand-new function that edits a reactor table, a tracker's
pending list, the postponed queue, a payload counter ... is reported with the field it writes: new code on an existing
mechanism is exactly what the per-path rules cannot name in advance."""
import json
import os

import mir
import lib

TABLE = os.path.join(os.path.dirname(os.path.abspath(__file__)), "writers.json")


def root_of(b):
    return (b.raw.get("root") or b.path) if b.kind == "closure" else b.path


def current_writers(prog, type_names):
    W = {}
    for body in prog.bodies:
        for b, i, st in body.iter_stmts():
            if st["k"] != "assign":
                continue
            places = []
            rv = st["rv"]
            if "ref" in rv and rv.get("mut"):
                places.append(rv["ref"])
            if "rawptr" in rv:
                places.append(rv["rawptr"])
            if st["place"]["p"]:
                places.append(st["place"])
            for op in mir.rv_operands(rv):
                if "move" in op and op["move"]["p"]:
                    places.append(op["move"])
            for p in places:
                for adt, nm in lib.fields_in(p):
                    tn = adt.split("::")[-1]
                    if tn in type_names:
                        W.setdefault("%s.%s" % (tn, nm), {}).setdefault(mir.strip_generics(root_of(body)), body.loc(b, i))
    return W


def check(ctx, rule, type_names):
    """records one obligation per pinned field of the given types; returns the number of fields checked"""
    with open(TABLE) as fh:
        pinned = json.load(fh)
    prog = ctx.prog
    cur = current_writers(prog, set(type_names))
    present = {mir.strip_generics(b.path) for b in prog.bodies}
    n = 0
    for key in sorted(k for k in pinned if k.split(".")[0] in type_names):
        allowed = set(pinned[key])
        now = cur.get(key)
        if now is None:
            continue          # the field was renamed or removed: nothing to hold its writers to (other rules anchor on roles)
        n += 1
        # a writer that moved to another module (same name, same impl type) is the same writer
        def _tk(path_):
            segs = path_.split("::")
            return "::".join(segs[-2:]) if len(segs) >= 2 and segs[-2][:1].isupper() else segs[-1]
        gone_tk = {_tk(w) for w in allowed if w not in present}
        extra = sorted(w for w in now if w not in allowed and _tk(w) not in gone_tk)
        # renamed writers: a pinned writer of the same impl / module has disappeared from the tree
        gone = [w for w in sorted(allowed) if w not in present]
        unexpected = []
        for w in extra:
            pre = w.rsplit("::", 1)[0]
            match = [g for g in gone if g.rsplit("::", 1)[0] == pre]
            if match:
                gone.remove(match[0])
            else:
                unexpected.append(w)
        ctx.check(not unexpected, rule, "%s:written-only-by-its-pinned-writers" % key, now[unexpected[0]] if unexpected else "",
                  "writers: %s" % sorted(lib.tail(w, 2) for w in now),
                  "%s is written by %s, which is not one of the functions that maintain it (%s): new code edits framework state behind the protocol's back"
                  % (key, [lib.tail(w, 2) for w in unexpected], sorted(lib.tail(w, 2) for w in allowed)))
    return n


if __name__ == "__main__":
    import sys
    sys.path.insert(0, os.path.dirname(os.path.abspath(__file__)))
    import facts as F
    TYPES = ["ReactCache", "EntityReactors", "EventAccessTracker", "EntityReactionAccessTracker", "SystemEventAccessTracker", "DespawnAccessTracker",
             "CobwebCommandQueue", "SyscommandCounter", "SystemCommandStorage", "AutoDespawner", "DataEntityCounter", "ComponentReactors", "SpawnedSystem",
             "IdMappedSystems", "InitializedSystem"]
    data, _ = F.get_facts(())
    W = current_writers(mir.Program(data), set(TYPES))
    json.dump({k: sorted(v) for k, v in sorted(W.items())}, open(TABLE, "w"), indent=1)
    print("wrote", TABLE, len(W), "fields")

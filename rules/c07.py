"""C07 - Reactor lifetime follows its mode: no leak, no premature despawn (DESIGN.md section 4, C07)."""
import re

import mir
from mir import op_fn, op_place, origins
import lib
import loops as LP
import tables as T
import anchors as A

EXPLANATION = (
    "Ownership of the ref-counted reactor handle: ReactorMode::prepare maps Persistent to the plain handle and the other "
    "modes to a signal prepared for the same system entity; every struct/enum field of the crate whose type mentions the "
    "handle (the holder set, found by a type walk) has a release operation, is a by-value command field consumed in "
    "apply, or is a component released with its entity; the leak primitives (mem::forget, ManuallyDrop::new, Box::leak, "
    "Arc::into_raw, ...) are called nowhere in the crate; register_reactors only lends the handle and drops it, each "
    "trigger's register() clones it exactly once per queued registration; a despawn reaction removes the map entry, "
    "moves each handle through the command into the tracker and end() clears every handle slot start() filled; every "
    "despawn call in the crate is classified by the provenance of its entity (garbage collector, payload entity, the "
    "once-reactor's own id, the runner's own command on the component-missing arm) and none takes its entity from a "
    "handle, a sys_command() result or a table entry.")

NOT_DECIDED = [
    "the reference count itself over histories ('first GC after the last trigger disappears'): it is Arc's count given the decided clauses",
    "when garbage collection runs (any GC suffices for the statement; no placement rule is imposed)",
]

HANDLE_TYPES = ("ReactorHandle", "AutoDespawnSignal")


def check(ctx):
    ctx.explanation = EXPLANATION
    ctx.not_decided = NOT_DECIDED
    prog = ctx.prog
    # ---- C07.a mode -> handle ----
    prep = ctx.anchor("C07.a", lambda: A.method(prog, "ReactorMode", "prepare"), "ReactorMode::prepare")
    if prep is not None:
        ctx.touch(prep)
        sws = [(sb, pl) for sb, pl, tg, ow in lib.discr_switches(prep) if "ReactorMode" in lib.place_type(prep, pl)]
        cmp_form = None
        if not sws:
            # `if *self == ReactorMode::Persistent { Persistent(..) } else { AutoDespawn(..) }`: the compared constant is read
            # from the promoted constants
            for b_, t_, fr_ in prep.iter_calls():
                if fr_ and lib.tail(mir.fn_name(fr_), 1) in ("eq", "ne") and any("ReactorMode" in a for a in (fr_.get("args") or [])) and len(t_["args"]) >= 2:
                    v_ = lib.const_variant(prep, t_["args"][1]) or lib.const_variant(prep, t_["args"][0])
                    arms_ = lib.bool_arms(prep, b_)
                    if v_ and arms_:
                        eq_t, ne_t = (arms_[0][1], arms_[0][2]) if lib.tail(mir.fn_name(fr_), 1) == "eq" else (arms_[0][2], arms_[0][1])
                        cmp_form = (v_, eq_t, ne_t, b_)
        if cmp_form is None and len(sws) == 1:
            # `if let ReactorMode::Persistent = self { .. }` and the rest: a switch that lists only Persistent, every other mode
            # falls through - the same two-way form as the comparison
            ea_ = lib.enum_arms(prep, prog, sws[0][0])
            if ea_ and set(ea_[0]) == {"Persistent"} and not prep.is_unreachable_block(ea_[1]):
                cmp_form = ("Persistent", ea_[0]["Persistent"], ea_[1], sws[0][0])
        if cmp_form is not None and cmp_form[0] == "Persistent":
            ctx.ok("C07.a", "floor:match on ReactorMode", prep.loc(cmp_form[3]), "mode compared with ReactorMode::Persistent")
            ctx.ok("C07.a", "ReactorMode::prepare:match-exhaustive", prep.loc(cmp_form[3]), "two-way comparison: Persistent / every other mode")
            for v, tb in (("Persistent", cmp_form[1]), ("Cleanup", cmp_form[2]), ("Revokable", cmp_form[2])):
                region = prep.reach_from(tb)
                aggs = [(b, st["rv"]["agg"]) for b, i, st in prep.iter_stmts(region) if st["k"] == "assign" and "agg" in st["rv"]
                        and st["rv"]["agg"].get("adt", "").endswith("::ReactorHandle")]
                want = "Persistent" if v == "Persistent" else "AutoDespawn"
                ok = bool(aggs) and all(a["vname"] == want for b, a in aggs)
                if ok and want == "AutoDespawn":
                    for b, a in aggs:
                        for o in origins(prep, a["ops"][0]):
                            if o[0] != "call":
                                ok = False
                                continue
                            t = prep.blocks[o[1]]["term"]
                            fr = op_fn(t["func"])
                            ok = ok and fr is not None and lib.tail(mir.fn_name(fr), 2) == "AutoDespawner::prepare" \
                                and all(x[0] == "arg" and x[1] == 3 for x in origins(prep, t["args"][1]))
                if ok and want == "Persistent":
                    for b, a in aggs:
                        ok = ok and lib.originates_from_arg(prep, a["ops"][0], 3)
                ctx.check(ok, "C07.a", "ReactorMode::prepare[%s]:builds-%s" % (v, want), prep.loc(tb),
                          "%s -> ReactorHandle::%s for the given system" % (v, want),
                          "mode %s does not build ReactorHandle::%s for its own system entity" % (v, want))
        elif ctx.floor("C07.a", len(sws), 1, "match on ReactorMode"):
            arms, ow, adt = lib.enum_arms(prep, prog, sws[0][0])
            ctx.check(prep.is_unreachable_block(ow), "C07.a", "ReactorMode::prepare:match-exhaustive", prep.loc(sws[0][0]), "", "catch-all arm reachable")
            for v, tb in sorted(arms.items()):
                region = prep.reach_from(tb)
                aggs = [(b, st["rv"]["agg"]) for b, i, st in prep.iter_stmts(region) if st["k"] == "assign" and "agg" in st["rv"]
                        and st["rv"]["agg"].get("adt", "").endswith("::ReactorHandle")]
                want = "Persistent" if v == "Persistent" else "AutoDespawn"
                ok = bool(aggs) and all(a["vname"] == want for b, a in aggs)
                if ok and want == "AutoDespawn":
                    for b, a in aggs:
                        src = origins(prep, a["ops"][0])
                        for o in src:
                            if o[0] != "call":
                                ok = False
                                continue
                            t = prep.blocks[o[1]]["term"]
                            fr = op_fn(t["func"])
                            ok = ok and fr is not None and lib.tail(mir.fn_name(fr), 2) == "AutoDespawner::prepare" \
                                and all(x[0] == "arg" and x[1] == 3 for x in origins(prep, t["args"][1]))
                if ok and want == "Persistent":
                    for b, a in aggs:
                        ok = ok and lib.originates_from_arg(prep, a["ops"][0], 3)
                ctx.check(ok, "C07.a", "ReactorMode::prepare[%s]:builds-%s" % (v, want), prep.loc(tb),
                          "%s -> ReactorHandle::%s for the given system" % (v, want),
                          "mode %s does not build ReactorHandle::%s for its own system entity" % (v, want))

    # every registration entry point passes the mode its documentation promises
    want = {"on": "Cleanup", "on_persistent": "Persistent", "on_revokable": "Revokable"}
    for nm, mode in sorted(want.items()):
        try:
            m = A.method(prog, "ReactCommands", nm)
        except mir.AnchorLost as e:
            ctx.fail("C07.a", "anchor-lost:ReactCommands::%s" % nm, "", str(e))
            continue
        ctx.touch(m)
        got = []
        for b, t, fr in m.iter_calls():
            if fr and lib.tail(mir.fn_name(fr), 2) == "ReactCommands::with":
                for o in origins(m, t["args"][3]):
                    if o[0] == "agg":
                        got.append(m.blocks[o[1]]["stmts"][o[2]]["rv"]["agg"].get("vname"))
                    else:
                        got.append(str(o))
        ctx.check(got == [mode], "C07.a", "ReactCommands::%s:registers-%s" % (nm, mode), "%s:%d" % (m.file, m.line),
                  "registers with the constant ReactorMode::%s" % mode, "ReactCommands::%s registers with mode %s (documented: %s)" % (nm, got, mode))

    # ---- C07.b holders have releases ----
    def _owned(ty):
        """the part of a field type that *owns* what it mentions: a shared / mutable borrow (`&'a T`, `&'a [T]`), a borrowing slice
        iterator and an `Option` of those lend the handles of another holder - they can neither keep one alive nor drop it"""
        t_ = ty.strip()
        m_ = re.match(r"^core::option::Option<(.*)>$", t_)
        if m_:
            return _owned(m_.group(1))
        if t_.startswith("&") or re.match(r"^core::slice::iter::Iter(Mut)?<", t_):
            return ""
        return t_
    holders = []
    # a type holds a handle if it mentions a handle type or (transitively) a crate record with a holder field
    holding_adts = set()
    owned_elsewhere = {im.get("self_adt") for im in prog.impls if (im.get("trait") or "").endswith(("::Component", "::Resource", "::Command", "::SystemParam"))}
    grew = True
    while grew:
        grew = False
        for p, adt in prog.adts.items():
            if p in holding_adts or p in owned_elsewhere or p.split("::")[-1] in HANDLE_TYPES or p.endswith(A.signal_payload_name(prog)):
                continue
            for v in adt["variants"]:
                for f in v["fields"]:
                    if any(h in _owned(f["ty"]) for h in HANDLE_TYPES) or any(re.search(r"(?<![\w:])%s(?![\w])" % re.escape(q), _owned(f["ty"])) for q in holding_adts):
                        holding_adts.add(p)
                        grew = True
    for p, adt in prog.adts.items():
        if p.split("::")[-1] in HANDLE_TYPES or p.endswith(A.signal_payload_name(prog)):
            continue
        for v in adt["variants"]:
            for f in v["fields"]:
                if any(h in _owned(f["ty"]) for h in HANDLE_TYPES) or any(re.search(r"(?<![\w:])%s(?![\w])" % re.escape(q), _owned(f["ty"])) for q in holding_adts if q != p):
                    holders.append((p, v["name"], f["name"], f["ty"]))
    ctx.floor("C07.b", len(holders), 11, "holder fields (type mentions ReactorHandle / AutoDespawnSignal)")
    comp_impls = {im.get("self_adt") for im in prog.impls if (im.get("trait") or "").endswith("component::Component")}
    cmd_impls = {im.get("self_adt") for im in prog.impls if (im.get("trait") or "").endswith("world::Command")}
    for (adt, variant, field, ty) in holders:
        aname = adt.split("::")[-1]
        key = "%s.%s" % (aname, field)
        releases, unclassified = [], []
        for body in prog.bodies:
            for b, t, n, chain in lib.field_method_calls(body, adt, field):
                sn = mir.strip_generics(n)
                t2 = lib.tail(n, 2)
                if sn in T._norm(T.RELEASE) or t2 in ("HashMap::remove", "Option::take", "SmallVec::drain_filter", "Vec::drain", "Vec::remove", "Vec::swap_remove"):
                    releases.append((body, b, t2))
            for (b, i, a2, f2, rv) in lib.field_writes(body, adt):
                if f2 == field and lib.writes_none(body, rv):
                    releases.append((body, b, "= None"))
        if adt in cmd_impls:
            # by-value command field: consumed (moved out) in apply
            ap = A.apply_impl(prog, aname)
            moved = any(st["k"] == "assign" and "use" in st["rv"] and "move" in st["rv"]["use"]
                        and lib.field_of(st["rv"]["use"]["move"]) == (adt, field) for b, i, st in ap.iter_stmts())
            ctx.check(moved, "C07.b", "%s:consumed-by-apply" % key, "%s:%d" % (ap.file, ap.line), "command field is moved out in apply",
                      "command field %s is not consumed by apply" % key)
            continue
        if releases:
            ctx.ok("C07.b", "%s:has-release" % key, releases[0][0].loc(releases[0][1]),
                   "%d release operation(s), e.g. %s in %s" % (len(releases), releases[0][2], lib.fkey(releases[0][0])))
        elif adt in comp_impls:
            ctx.ok("C07.b", "%s:component-released-with-entity" % key, "", "component field")
        elif any(a2 != adt and re.search(r"(?<![\w:])%s(?![\w])" % re.escape(adt), t2) for (a2, v2, f2, t2) in holders):
            # a plain record owned by another holder field: dropped (or moved out field by field) with its owner, whose own
            # release obligation is checked above
            ctx.ok("C07.b", "%s:released-with-owning-record" % key, "", "field of a record stored in another holder")
        elif adt not in owned_elsewhere and any(st["k"] == "assign" and "use" in st["rv"] and "move" in st["rv"]["use"] and lib.field_of(st["rv"]["use"]["move"]) == (adt, field)
                                                for body in prog.bodies for b, i, st in body.iter_stmts()):
            # a plain by-value record (a private parameter object): not a place where handles rest - its field is moved out
            # again by the function that receives it; what that function does with the handle is the receiving holder's rule
            ctx.ok("C07.b", "%s:moved-out-by-value" % key, "", "field of a by-value record, moved out by its consumer")
        else:
            ctx.fail("C07.b", "%s:no-release" % key, "", "holder field %s: %s has no release operation anywhere in the crate (handles stored there are never dropped)" % (key, ty))
    ctx.sample({"holders": ["%s.%s" % (a.split("::")[-1], f) for a, v, f, t in holders]})

    # ---- C07.c no leak primitives ----
    leak_norm = T._norm(T.LEAK_FNS)
    n_calls = 0
    hits = []
    for body in prog.bodies:
        for b, t, fr in body.iter_calls():
            n_calls += 1
            if fr is None:
                continue
            for n in (fr["path"], fr.get("resolved") or ""):
                if mir.strip_generics(n) in leak_norm:
                    hits.append((body, b, n))
    ctx.touch(None, calls=n_calls)
    # matcher self-check (expected-zero rule must be able to match)
    ctx.check(mir.strip_generics("core::mem::forget::<T>") in leak_norm and mir.strip_generics("alloc::sync::Arc::<T, A>::into_raw") in leak_norm,
              "C07.c", "leak-matcher-selfcheck", "", "positive example matches", "leak matcher does not match its positive example")
    ctx.check(not hits, "C07.c", "no-leak-primitives", "", "no mem::forget / ManuallyDrop::new / Box::leak / Arc::into_raw among %d call sites" % n_calls,
              "leak primitive called: %s" % [(lib.fkey(bd), bd.loc(b), n) for bd, b, n in hits])
    for bd, b, n in hits:
        ctx.fail("C07.c", "%s:%s" % (lib.fkey(bd), lib.tail(n, 2)), bd.loc(b), "leak primitive %s" % n)

    # ---- C07.d registration does not keep the original ----
    rr = ctx.anchor("C07.d", lambda: A.free_fn(prog, "register_reactors"), "register_reactors")
    if rr is not None and prep is not None:
        ctx.touch(rr)
        pc = lib.call_blocks(rr, lambda n: n == prep.path)
        if ctx.floor("C07.d", len(pc), 1, "mode.prepare call"):
            hl = rr.blocks[pc[0]]["term"]["dest"]["l"]
            moved = []
            for b, i, st in rr.iter_stmts():
                if st["k"] == "assign":
                    for op in mir.rv_operands(st["rv"]):
                        if "move" in op and op["move"]["l"] == hl and not op["move"]["p"]:
                            moved.append((b, i))
                        if "copy" in op and op["copy"]["l"] == hl and not op["copy"]["p"]:
                            moved.append((b, i))
            for b, t, fr in rr.iter_calls():
                for a in t["args"]:
                    pp = op_place(a)
                    if pp and pp["l"] == hl and not pp["p"]:
                        moved.append((b, None))
            drops = [b for b in rr.reachable if rr.blocks[b]["term"]["k"] == "drop" and rr.blocks[b]["term"]["place"]["l"] == hl]
            w = lib.path_to_return_avoiding(rr, [lib.call_target(rr, pc[0])], drops)
            ctx.check(not moved and bool(drops) and w is None, "C07.d", "register_reactors:handle-only-lent-then-dropped", rr.loc(pc[0]),
                      "the prepared handle is only borrowed and is dropped on every path",
                      "register_reactors moves or keeps the prepared handle (an empty or all-dead bundle would leave a clone alive)")
    handle_linearity(ctx, prog)
    import c01
    n_tr = 0
    for im in c01.trigger_impls(prog):
        reg = next((prog.body(i["path"]) for i in im["items"] if i["name"] == "register"), None)
        if reg is None:
            continue
        n_tr += 1
        nm = im["self_adt"].split("::")[-1]
        clones = [b for b, t, fr in reg.iter_calls() if fr and lib.tail(mir.fn_name(fr), 1) == "clone" and lib.originates_from_arg(reg, t["args"][0], 3)]
        sysc = [b for b, t, fr in reg.iter_calls() if fr and lib.tail(mir.fn_name(fr), 1) == "syscall" and len(t["args"]) >= 3 and c01.carries_handle(reg, t["args"][1])]
        cc, _, _ = lib.event_counts(reg, clones)
        # every clone flows into exactly one syscall: per path, #clones == #carrying syscalls
        pair_ok = True
        for want in (0, 1, 2):
            pass
        seen = set()
        from collections import deque
        dq = deque([(0, 0, 0)])
        seen.add((0, 0, 0))
        bad = False
        while dq:
            b, c, s = dq.popleft()
            if b in clones:
                c = min(2, c + 1)
            if b in sysc:
                s = min(2, s + 1)
            if reg.blocks[b]["term"]["k"] == "return" and c != s:
                bad = True
            for x in reg.succ[b]:
                if (x, c, s) not in seen:
                    seen.add((x, c, s))
                    dq.append((x, c, s))
        ctx.check(not bad and bool(clones), "C07.d", "%s::register:one-clone-per-registration" % nm, "%s:%d" % (reg.file, reg.line),
                  "on every path the number of handle clones equals the number of queued registrations (%d clone site(s))" % len(clones),
                  "a path through register() clones the handle without queueing it (or queues without cloning)")
    ctx.floor("C07.d", n_tr, 11, "trigger register() functions")
    # registration systems drop the handle when the entity is missing: the handle parameter flows only into the table insert
    for fname, sinks in (("register_entity_reactor", ("EntityReactors::insert", "EntityCommands::insert")), ("register_despawn_reactor", ("ReactCache::register_despawn_reactor",))):
        try:
            f = A.free_fn(prog, fname)
        except mir.AnchorLost as e:
            ctx.fail("C07.d", "anchor-lost:%s" % fname, "", str(e))
            continue
        bodies = [f] + prog.closures_of(f)
        bad = []
        for bd in bodies:
            ctx.touch(bd)
            for b, t, fr in bd.iter_calls():
                if fr is None:
                    continue
                for a in t["args"]:
                    tyl = bd.local_ty(op_place(a)["l"]) if op_place(a) else ""
                    if "ReactorHandle" in tyl and "move" in a and lib.tail(mir.fn_name(fr), 2) not in sinks and lib.tail(mir.fn_name(fr), 1) not in ("into_inner", "drop", "call_once", "resource_scope"):
                        bad.append((bd.loc(b), mir.fn_name(fr)))
        ctx.check(not bad, "C07.d", "%s:handle-flows-only-into-table" % fname, "%s:%d" % (f.file, f.line),
                  "the handle is stored only by the table insertion (dropped on the entity-missing path)", "handle escapes to %s" % bad)

    # ---- C07.e despawn reaction keeps the reactor alive exactly until its run ends ----
    try:
        sd = A.method(prog, "ReactCache", "schedule_despawn_reactions")
        ctx.touch(sd)
        ops = [lib.tail(n, 2) for b, t, n, ch in lib.field_method_calls(sd, "ReactCache", "despawn_reactors")]
        ctx.check("HashMap::remove" in ops and not any(o in ("HashMap::get", "HashMap::get_mut") for o in ops), "C07.e",
                  "schedule_despawn_reactions:consumes-map-entry", "%s:%d" % (sd.file, sd.line), "the entry is removed (handles are moved, not cloned)",
                  "schedule_despawn_reactions reads the entry without removing it: %s" % ops)
        clones = [b for b, t, fr in sd.iter_calls() if fr and lib.tail(mir.fn_name(fr), 1) == "clone" and any("ReactorHandle" in a for a in fr.get("args", []))]
        ctx.check(not clones, "C07.e", "schedule_despawn_reactions:moves-handles", "%s:%d" % (sd.file, sd.line), "no handle clone", "handles are cloned into the despawn commands")
        dt = "DespawnAccessTracker"
        st_, en = A.method(prog, dt, "start"), A.method(prog, dt, "end")
        adt = prog.adt_by_name(dt)
        slots = [f["name"] for f in adt["variants"][0]["fields"] if f["ty"].startswith("core::option::Option<") and "ReactorHandle" in f["ty"]]
        ctx.floor("C07.e", len(slots), 1, "Option<ReactorHandle> slots in the despawn tracker")
        for s in slots:
            sw = [rv for b, i, a, f, rv in lib.field_writes(st_, adt["path"]) if f == s]
            ew = [(b, rv) for b, i, a, f, rv in lib.field_writes(en, adt["path"]) if f == s]
            okn = bool(ew) and all(lib.writes_none(en, rv) for b, rv in ew)
            # `self.slot.take()` (its result dropped or not) leaves None in the slot, too
            tk = [b for b, t, n, ch in lib.field_method_calls(en, adt["path"], s) if lib.tail(n, 2) == "Option::take" and not ch]
            if tk and (okn or not ew):
                okn = True
            w = lib.path_to_return_avoiding(en, [0], [b for b, rv in ew] + tk)
            ctx.check(okn and w is None, "C07.e", "DespawnAccessTracker::end:clears-%s" % s, "%s:%d" % (en.file, en.line),
                      "end() stores None into %s on every path" % s, "end() does not clear the handle slot %s that start() fills (the reactor would never be collected)" % s)
    except mir.AnchorLost as e:
        ctx.fail("C07.e", "anchor-lost", "", str(e))

    # ---- C07.g handles are dropped by revocation exactly when their trigger is revoked (shared with C06.b / C06.e / C06.f) ----
    # too few removals leak the reactor (a handle survives its revoked trigger); too many despawn it prematurely
    import core, c06
    ng = core.adopt(ctx, c06, lambda o: o["rule"] in ("C06.b", "C06.f", "C06.g") or (o["rule"] == "C06.e" and ("token-lists" in o["key"] or "one-entry-per" in o["key"] or "built-from-bundle" in o["key"] or "token-matches" in o["key"])), "C07.g")
    ctx.floor("C07.g", ng, 30, "shared revoke-exactness obligations (C06.b/e/f)")

    # a reactor whose trigger can never fire must not keep a handle (registered for a dead entity => never collected);
    # shared with C08.c
    import c08
    n8 = core.adopt(ctx, c08, lambda o: o["rule"] == "C08.c" and any(k in o["key"] for k in ("registers-only-live-entity", "consumes-registration", "tracker-not-replaced", "one-entity", "never-removed-from-a-live-entity")), "C07.g")
    ctx.floor("C07.g", n8, 3, "shared despawn-registration obligations (C08.c)")
    # the handle a despawn reaction parks in its tracker is taken out again whatever happens to the command: every path of
    # the runner has exactly one disposition (run / postpone / abort), each of which runs the command's setup and cleanup
    import c02 as _c02
    # 'exists as long as a despawn reaction for it is pending': the handle travels in the pending list of the despawn tracker,
    # which keeps one entry per prepared reaction (append on prepare, first-match claim on start; shared with C03.e / C11)
    import c03 as _c03, c11 as _c11
    nh = core.adopt(ctx, _c03, lambda o: o["rule"] in ("C03.e", "C03.b") and "DespawnAccessTracker" in o["key"], "C07.e")
    nh += core.adopt(ctx, _c11, lambda o: o["rule"] == "C11.prepared" and "DespawnAccessTracker" in o["key"], "C07.e")
    ctx.floor("C07.e", nh, 3, "shared pending-list obligations of the despawn tracker (C03.b/e, C11.prepared)")
    # the handles an entity's EntityReactors holds are released one entry at a time by revocation: the component itself (with
    # every other reactor's handles) is never taken off a live entity (shared with C16.c)
    import c16 as _c16
    n16_ = core.adopt(ctx, _c16, lambda o: o["rule"] == "C16.c" and "EntityReactors:never-removed-from-a-live-entity" in o["key"], "C07.g")
    ctx.floor("C07.g", n16_, 1, "shared EntityReactors-not-removed obligation (C16.c)")
    n2 = core.adopt(ctx, _c02, lambda o: o["rule"] == "C02.a" and any(k in o["key"] for k in ("single-disposition", "dispositions=", "abort-only")), "C07.e")
    ctx.floor("C07.e", n2, 2, "shared disposition obligations of the runner (C02.a)")

    # ---- C07.f who may despawn ----
    sites = despawn_sites(prog)
    # conditional rule (IF the framework despawns THEN only these provenances): the floor only guards against the site
    # enumeration itself going blind, not against a maintainer removing a despawn
    ctx.floor("C07.f", len(sites), 2, "despawn call sites")
    for (body, b, name, cls, detail) in sites:
        ctx.touch(body)
        ctx.check(cls is not None, "C07.f", "%s:%s:%s" % (lib.fkey(body), name, cls or "unclassified"), body.loc(b),
                  "despawn of %s" % detail, "despawn call whose entity is %s: not one of the allowed provenances (GC receiver, payload entity, once-reactor id, runner's own command on the component-missing arm)" % detail)


def despawn_sites(prog):
    out = []
    for body in prog.bodies:
        if "react::" not in body.path and "ecs::auto_despawn" not in body.path:
            continue
        for b, t, fr in body.iter_calls():
            if fr is None:
                continue
            n2 = lib.tail(mir.fn_name(fr), 2)
            if n2 not in T.DESPAWN_FNS:
                continue
            cls, detail = classify_despawn(prog, body, b, t, n2)
            out.append((body, b, n2, cls, detail))
    return out


def entity_of_receiver(prog, body, op, depth=0):
    """(body', origins) of the entity a World/EntityWorldMut/EntityCommands receiver was looked up with"""
    res = []
    for o in origins(body, op):
        if o[0] == "call":
            t = body.blocks[o[1]]["term"]
            fr = op_fn(t["func"])
            n2 = lib.tail(mir.fn_name(fr), 2) if fr else ""
            if n2 in ("World::get_entity_mut", "World::entity_mut", "Commands::entity", "Commands::get_entity", "World::get_entity") and len(t["args"]) > 1:
                res.append((body, origins(body, t["args"][1]), o[1]))
            else:
                res.append((body, {("opaque-call", n2)}, o[1]))
        elif o[0] == "arg" and body.kind == "closure" and o[1] == 2 and depth < 2:
            # closure parameter: find the combinator call in the parent that applies this closure
            parent = prog.body(body.raw.get("parent")) or prog.body(body.raw.get("root"))
            found = False
            if parent is not None:
                for pb, pt, pfr in parent.iter_calls():
                    if pfr is None or lib.tail(mir.fn_name(pfr), 2) not in ("Option::map", "Result::map", "Option::and_then"):
                        continue
                    for oo in origins(parent, pt["args"][-1]):
                        if oo[0] == "agg":
                            ag = parent.blocks[oo[1]]["stmts"][oo[2]]["rv"]["agg"]
                            if ag["kind"] == "closure" and ag["closure"] == body.path:
                                res += entity_of_receiver(prog, parent, pt["args"][0], depth + 1)
                                found = True
            if not found:
                res.append((body, {tuple(o)}, None))
        else:
            res.append((body, {tuple(o)}, None))
    return res


def classify_despawn(prog, body, b, t, n2):
    if n2 in ("World::despawn", "World::try_despawn"):
        ents = [(body, origins(body, t["args"][1]), None)]
    else:
        ents = entity_of_receiver(prog, body, t["args"][0])
    classes = set()
    details = []
    for (bd, os_, lookup_block) in ents:
        for o in os_:
            details.append("%s in %s" % (o, lib.fkey(bd)))
            c = None
            if o[0] == "call":
                fr = op_fn(bd.blocks[o[1]]["term"]["func"])
                nm = lib.tail(mir.fn_name(fr), 2) if fr else ""
                if nm == "AutoDespawner::try_recv" or nm == _despawner_recv_name(prog):
                    c = "gc-receiver"
                elif lib.tail(nm, 1) == "try_recv" and any(f_[0].endswith("::AutoDespawner") and f_[1] == "receiver"
                                                          for f_, ch_ in lib.receiver_chains(bd, bd.blocks[o[1]]["term"]["args"][0])):
                    c = "gc-receiver"      # the collector reads the despawner's channel itself (try_recv helper inlined)
                elif nm.endswith("AccessTracker::end"):
                    c = "payload-entity"
                elif nm in ("ReactorHandle::sys_command", "AutoDespawnSignal::entity"):
                    c = None
            elif o[0] == "arg":
                if _release_helper_path(prog) == bd.path and o[1] == 2:
                    c = "payload-entity"
                elif bd.kind == "closure" and o[1] == 1 and ("::once::" in bd.path or mir.strip_generics(bd.raw.get("root") or "").endswith("ReactCommands::once")):
                    c = "once-reactor-own-id" if once_entity_is_fresh(prog, bd, o) else None
                elif lib.tail(bd.path, 1) == "syscommand_runner" and o[1] == 2:
                    c = "runner-own-command-component-missing" if on_component_missing_arm(bd, b) else None
            classes.add(c)
    if len(classes) == 1 and None not in classes:
        return classes.pop(), "; ".join(details)
    return None, "; ".join(details) or "unknown"


_RH = {}
_DRN = {}


def _despawner_recv_name(prog):
    """`AutoDespawner::<the method that reads the despawn channel>` under its current (possibly renamed) name"""
    if id(prog) not in _DRN:
        try:
            _DRN[id(prog)] = lib.tail(A.method(prog, "AutoDespawner", "try_recv").path, 2)
        except mir.AnchorLost:
            _DRN[id(prog)] = None
    return _DRN[id(prog)]


def _release_helper_path(prog):
    if id(prog) not in _RH:
        try:
            _RH[id(prog)] = A.release_helper(prog).path
        except mir.AnchorLost:
            _RH[id(prog)] = None
    return _RH[id(prog)]


def once_entity_is_fresh(prog, cbody, o):
    """the captured entity of the once closure is the id returned by spawn_empty() in ReactCommands::once"""
    parent = prog.body(cbody.raw.get("parent"))
    if parent is None or len(o) < 3:
        return False
    idx = o[2].lstrip(".")
    if not idx.isdigit():
        return False
    for b, i, st in parent.iter_stmts():
        if st["k"] == "assign" and "agg" in st["rv"] and st["rv"]["agg"].get("closure") == cbody.path:
            cap = st["rv"]["agg"]["ops"][int(idx)]
            oos = set()
            for oo in origins(parent, cap):
                # the id may be captured as the `SystemCommand(entity)` wrapping it
                if oo[0] == "agg" and len(oo) == 3:
                    ag_ = parent.blocks[oo[1]]["stmts"][oo[2]]["rv"]["agg"]
                    if ag_.get("adt", "").endswith("::SystemCommand") and len(ag_["ops"]) == 1:
                        oos |= origins(parent, ag_["ops"][0])
                        continue
                oos.add(oo)
            for oo in oos:
                if oo[0] != "call":
                    return False
                t = parent.blocks[oo[1]]["term"]
                fr = op_fn(t["func"])
                if not fr or lib.tail(mir.fn_name(fr), 1) != "id":
                    return False
                for o3 in origins(parent, t["args"][0]):
                    fr3 = op_fn(parent.blocks[o3[1]]["term"]["func"]) if o3[0] == "call" else None
                    if not fr3 or lib.tail(mir.fn_name(fr3), 2) != "Commands::spawn_empty":
                        return False
            return True
    return False


def on_component_missing_arm(R, b):
    """the block is dominated by callback.run and by the failure arm of a get_mut::<SystemCommandStorage> lookup"""
    runs = lib.call_blocks(R, lib.ends("SystemCommandCallback::run"))
    if not any(R.dominates(r, b) for r in runs):
        return False
    for cb, t, fr in R.iter_calls():
        if fr and lib.tail(mir.fn_name(fr), 2) == "EntityWorldMut::get_mut" and any("SystemCommandStorage" in a for a in fr.get("args", [])):
            for (sb, ok_t, fail_t) in lib.result_arms(R, cb):
                if R.dominates(fail_t, b):
                    return True
    return False


def handle_linearity(ctx, prog):
    """C07.h: a function that receives a ReactorHandle by value (directly or inside its In<(..)> input) stores or forwards it
    on every path; the only excused paths are those through the failure arm of a fallible entity/component lookup (the
    target is gone: dropping the handle is the release). A handle that is silently dropped on a normal path is a
    registration that never happens."""
    n = 0
    for body in prog.bodies:
        if body.kind not in ("fn", "assoc_fn") or not body.file.startswith("src/react/"):
            continue
        params = []
        for i in range(1, body.arg_count + 1):
            ty = body.local_ty(i)
            if ty.endswith("::ReactorHandle") and not ty.startswith("&"):
                params.append(i)
            elif "ReactorHandle" in ty and not ty.startswith("&") and ("In<(" in ty or ty.startswith("(")):
                params.append(i)
        if not params:
            continue
        fk = lib.fkey(body)
        # blocks that move the handle (or a local it was moved into) into a call argument / aggregate / field
        carriers = set()
        for i in params:
            carriers.add(i)
        grew = True
        while grew:
            grew = False
            for b, i, st in body.iter_stmts():
                if st["k"] == "assign" and not st["place"]["p"] and "use" in st["rv"]:
                    p = op_place(st["rv"]["use"])
                    if p is not None and p["l"] in carriers and "ReactorHandle" in body.local_ty(st["place"]["l"]) and st["place"]["l"] not in carriers:
                        carriers.add(st["place"]["l"])
                        grew = True
        sinks = []
        for b, t, fr in body.iter_calls():
            for a in t["args"]:
                p = op_place(a)
                if p is not None and "move" in a and p["l"] in carriers and "ReactorHandle" in lib.place_type(body, p):
                    nm = lib.tail(mir.fn_name(fr), 2) if fr else "?"
                    if nm not in ("mem::drop",):
                        sinks.append(b)
        for b, i, st in body.iter_stmts():
            if st["k"] == "assign" and "agg" in st["rv"] and st["rv"]["agg"]["kind"] in ("adt", "tuple", "closure"):
                for a in st["rv"]["agg"]["ops"]:
                    p = op_place(a)
                    if p is not None and "move" in a and p["l"] in carriers and "ReactorHandle" in lib.place_type(body, p):
                        # the aggregate must itself be stored / passed on: accept when its local is later moved into a call
                        sinks.append(b)
            if st["k"] == "assign" and st["place"]["p"] and "use" in st["rv"]:
                p = op_place(st["rv"]["use"])
                if p is not None and "move" in st["rv"]["use"] and p["l"] in carriers and lib.field_of(st["place"]):
                    sinks.append(b)
        excuse = []
        for b, t, fr in body.iter_calls():
            # only a lookup of the entity itself says "the target is gone"; a failed component query does not
            if fr and lib.tail(mir.fn_name(fr), 2) in ("Commands::get_entity", "World::get_entity", "World::get_entity_mut", "Entities::contains"):
                for (sb, ok_t, fail_t) in lib.result_arms(body, b):
                    excuse.append(fail_t)
        n += 1
        ctx.touch(body)
        w = lib.path_to_return_avoiding(body, [0], set(sinks) | set(excuse))
        ctx.check(bool(sinks) and w is None, "C07.h", "%s:handle-stored-or-forwarded-on-every-path" % fk, "%s:%d" % (body.file, body.line),
                  "the received ReactorHandle is stored or passed on on every path (excused: failed entity lookups)",
                  "a path of %s drops the ReactorHandle it received without storing it (the registration silently does not happen)" % fk,
                  lib.render_path(body, w) if w else None)
    ctx.floor("C07.h", n, 8, "functions receiving a ReactorHandle by value")

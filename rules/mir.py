"""Shared analyses over the E1 fact file (DESIGN.md section 3): program index, CFG, dominators, loops,
local provenance (A3), typestate propagation (A2), call graph (A6). Standard library only."""
import json
import re
import sys
from collections import defaultdict, deque


# ---------------------------------------------------------------------------------------------------------------
# operands / places

def op_place(op):
    """place dict of a copy/move operand, else None"""
    if op is None:
        return None
    if "copy" in op:
        return op["copy"]
    if "move" in op:
        return op["move"]
    return None


def op_const(op):
    return op.get("const") if op else None


def op_fn(op):
    """fn-ref dict if the operand is a fn item constant"""
    c = op_const(op)
    if c and "fn" in c:
        return c["fn"]
    return None


def op_closure_const(op):
    c = op_const(op)
    if c and "closure" in c:
        return c["closure"]
    return None


def place_local(p):
    return p["l"]


def place_is_local(p):
    return not p["p"]


def proj_str(e):
    if isinstance(e, str):
        return "*" if e == "deref" else e
    if "f" in e:
        n = e.get("name")
        return "." + (n if n is not None else str(e["f"]))
    if "downcast" in e:
        return " as " + str(e.get("name") or e["downcast"])
    if "index" in e:
        return "[_%d]" % e["index"]
    return str(e)


def place_str(p):
    s = "_%d" % p["l"]
    for e in p["p"]:
        ps = proj_str(e)
        if ps == "*":
            s = "(*%s)" % s
        else:
            s += ps
    return s


def fn_name(fr):
    """canonical callee name: resolved impl item if known, else the path"""
    if fr is None:
        return None
    return fr.get("resolved") or fr["path"]


def op_str(op):
    if op is None:
        return "?"
    if "copy" in op:
        return place_str(op["copy"])
    if "move" in op:
        return "move " + place_str(op["move"])
    if "const" in op:
        c = op["const"]
        if "fn" in c:
            return "fn " + fn_name(c["fn"]) + ("<%s>" % ",".join(c["fn"]["args"]) if c["fn"]["args"] else "")
        if "closure" in c:
            return "closure " + c["closure"]
        if "val" in c:
            return "const %s: %s" % (c["val"], c["ty"])
        return "const " + c.get("repr", "?")
    return str(op)


def rv_str(rv):
    if "use" in rv:
        return op_str(rv["use"])
    if "ref" in rv:
        return ("&mut " if rv.get("mut") else "&") + place_str(rv["ref"])
    if "rawptr" in rv:
        return "&raw " + place_str(rv["rawptr"])
    if "cast" in rv:
        c = rv["cast"]
        return "%s as %s (%s)" % (op_str(c["op"]), c["ty"], c["kind"])
    if "discr" in rv:
        return "discriminant(%s)" % place_str(rv["discr"])
    if "bin" in rv:
        b = rv["bin"]
        return "%s(%s, %s)" % (b["op"], op_str(b["l"]), op_str(b["r"]))
    if "un" in rv:
        return "%s(%s)" % (rv["un"]["op"], op_str(rv["un"]["x"]))
    if "agg" in rv:
        a = rv["agg"]
        if a["kind"] == "adt":
            head = "%s::%s" % (a["adt"], a["vname"])
        elif a["kind"] == "closure":
            head = "closure " + a["closure"]
        else:
            head = a["kind"]
        return "%s{%s}" % (head, ", ".join(op_str(o) for o in a["ops"]))
    return rv.get("other", str(rv))


# ---------------------------------------------------------------------------------------------------------------

class Body:
    def __init__(self, raw, prog):
        self.raw = raw
        self.prog = prog
        self.path = raw["path"]
        self.kind = raw["kind"]
        self.file = raw["file"]
        self.line = raw["line"]
        self.blocks = raw["blocks"]
        self.n = len(self.blocks)
        self.locals = raw["locals"]
        self.arg_count = raw["arg_count"]
        self._succ = None
        self._pred = None
        self._dom = None
        self._pdom = None
        self._defs = None
        self._reach = None

    def __repr__(self):
        return "<Body %s>" % self.path

    # -- CFG on the non-cleanup subgraph; unwind edges dropped (A1) -------------------------------------------
    def term(self, b):
        return self.blocks[b]["term"]

    def raw_succ(self, b):
        t = self.blocks[b]["term"]
        k = t["k"]
        if k == "goto":
            return [t["t"]]
        if k == "switch":
            out = [bb for _, bb in t["targets"]]
            out.append(t["otherwise"])
            return out
        if k in ("call",):
            return [t["t"]] if t["t"] is not None else []
        if k in ("drop", "assert"):
            return [t["t"]]
        return []

    @property
    def succ(self):
        if self._succ is None:
            self._succ = []
            for b in range(self.n):
                if self.blocks[b]["cleanup"]:
                    self._succ.append([])
                    continue
                seen = []
                for s in self.raw_succ(b):
                    if s not in seen and not self.blocks[s]["cleanup"]:
                        seen.append(s)
                self._succ.append(seen)
        return self._succ

    @property
    def pred(self):
        if self._pred is None:
            self._pred = [[] for _ in range(self.n)]
            for b in range(self.n):
                for s in self.succ[b]:
                    self._pred[s].append(b)
        return self._pred

    @property
    def reachable(self):
        if self._reach is None:
            seen = {0}
            dq = deque([0])
            while dq:
                b = dq.popleft()
                for s in self.succ[b]:
                    if s not in seen:
                        seen.add(s)
                        dq.append(s)
            self._reach = seen
        return self._reach

    def is_unreachable_block(self, b):
        """block whose only content is an `unreachable` terminator (match otherwise arms)"""
        return self.blocks[b]["term"]["k"] == "unreachable"

    def return_blocks(self):
        return [b for b in sorted(self.reachable) if self.blocks[b]["term"]["k"] == "return"]

    def diverging_blocks(self):
        """reachable non-cleanup blocks with no successors that are not returns (panic / unreachable / diverging call)"""
        return [b for b in sorted(self.reachable)
                if not self.succ[b] and self.blocks[b]["term"]["k"] not in ("return", "unreachable")]

    def _dominators(self, succ, roots, nodes):
        # iterative dataflow dominators
        pred = defaultdict(list)
        for b in nodes:
            for s in succ(b):
                if s in nodes:
                    pred[s].append(b)
        order = []
        seen = set()
        # reverse postorder
        def dfs(r):
            stack = [(r, iter(succ(r)))]
            seen.add(r)
            while stack:
                node, it = stack[-1]
                adv = False
                for s in it:
                    if s in nodes and s not in seen:
                        seen.add(s)
                        stack.append((s, iter(succ(s))))
                        adv = True
                        break
                if not adv:
                    order.append(node)
                    stack.pop()
        for r in roots:
            if r not in seen:
                dfs(r)
        order.reverse()
        full = set(order)
        dom = {b: set(full) for b in order}
        for r in roots:
            dom[r] = {r}
        changed = True
        while changed:
            changed = False
            for b in order:
                if b in roots:
                    continue
                ps = [p for p in pred[b] if p in dom]
                if not ps:
                    new = {b}
                else:
                    new = set(dom[ps[0]])
                    for p in ps[1:]:
                        new &= dom[p]
                    new.add(b)
                if new != dom[b]:
                    dom[b] = new
                    changed = True
        return dom

    @property
    def dom(self):
        """dom[b] = set of blocks dominating b (reachable, non-cleanup subgraph)"""
        if self._dom is None:
            self._dom = self._dominators(lambda b: self.succ[b], [0], self.reachable)
        return self._dom

    @property
    def pdom(self):
        """post-dominators w.r.t. normal returns only: pdom[b] = blocks on every path from b to a return.
        Blocks that cannot reach a return (panic arms) post-dominate nothing and are excluded."""
        if self._pdom is None:
            rets = self.return_blocks()
            # restrict to blocks that can reach a return
            can = set(rets)
            dq = deque(rets)
            while dq:
                b = dq.popleft()
                for p in self.pred[b]:
                    if p in self.reachable and p not in can:
                        can.add(p)
                        dq.append(p)
            EXIT = -1
            def rsucc(b):
                if b == EXIT:
                    return rets
                return [p for p in self.pred[b] if p in can]
            nodes = set(can) | {EXIT}
            self._pdom = self._dominators(rsucc, [EXIT], nodes)
            self._can_return = can
        return self._pdom

    def can_reach_return(self, b):
        self.pdom
        return b in self._can_return

    def dominates(self, a, b):
        return b in self.dom and a in self.dom[b]

    def reach_from(self, start, avoid=()):
        """blocks reachable from `start` (inclusive) without entering `avoid`"""
        avoid = set(avoid)
        seen = set()
        dq = deque([start])
        while dq:
            b = dq.popleft()
            if b in seen or b in avoid:
                continue
            seen.add(b)
            for s in self.succ[b]:
                dq.append(s)
        return seen

    def loops(self):
        """natural loops: list of (header, body-set, back-edge sources)"""
        out = {}
        for b in self.reachable:
            for s in self.succ[b]:
                if self.dominates(s, b):
                    body = out.setdefault(s, [set([s]), []])
                    body[1].append(b)
                    stack = [b]
                    while stack:
                        x = stack.pop()
                        if x in body[0]:
                            continue
                        body[0].add(x)
                        stack.extend(self.pred[x])
        return [(h, v[0], v[1]) for h, v in sorted(out.items())]

    # -- statements ------------------------------------------------------------------------------------------
    def iter_stmts(self, blocks=None):
        for b in (sorted(blocks) if blocks is not None else sorted(self.reachable)):
            for i, st in enumerate(self.blocks[b]["stmts"]):
                yield b, i, st

    def iter_calls(self, blocks=None):
        """(block, term, fnref-or-None) for every call terminator"""
        for b in (sorted(blocks) if blocks is not None else sorted(self.reachable)):
            t = self.blocks[b]["term"]
            if t["k"] == "call":
                yield b, t, op_fn(t["func"])

    def calls_named(self, pred, blocks=None):
        """calls whose canonical name satisfies pred (str or callable)"""
        out = []
        for b, t, fr in self.iter_calls(blocks):
            if fr is None:
                continue
            if callee_matches(fr, pred):
                out.append((b, t, fr))
        return out

    # -- definitions of locals (flow-insensitive) -------------------------------------------------------------
    @property
    def defs(self):
        """local -> list of ('stmt', b, i, rv) / ('call', b, term) / ('arg',) definitions of the whole local"""
        if self._defs is None:
            d = defaultdict(list)
            for l in range(1, self.arg_count + 1):
                d[l].append(("arg", l))
            for b in range(self.n):
                if self.blocks[b]["cleanup"]:
                    continue
                for i, st in enumerate(self.blocks[b]["stmts"]):
                    if st["k"] == "assign":
                        p = st["place"]
                        if not p["p"]:
                            d[p["l"]].append(("stmt", b, i, st["rv"]))
                        else:
                            d[p["l"]].append(("partial", b, i, st))
                t = self.blocks[b]["term"]
                if t["k"] == "call":
                    p = t["dest"]
                    if not p["p"]:
                        d[p["l"]].append(("call", b, t))
                    else:
                        d[p["l"]].append(("partialcall", b, t))
            self._defs = d
        return self._defs

    def local_ty(self, l):
        return self.locals[l]["ty"]

    def local_name(self, l):
        return self.locals[l].get("name")

    def line_of(self, b, i=None):
        if i is None or i >= len(self.blocks[b]["stmts"]):
            return self.blocks[b]["term"]["line"]
        return self.blocks[b]["stmts"][i]["line"]

    def loc(self, b, i=None):
        return "%s:%d" % (self.blocks[b].get("file", self.file), self.line_of(b, i))

    # -- pretty printer ----------------------------------------------------------------------------------------
    def pp(self, out=sys.stdout, show_cleanup=False):
        w = out.write
        w("fn %s  [%s:%d] kind=%s args=%d\n" % (self.path, self.file, self.line, self.kind, self.arg_count))
        for i, l in enumerate(self.locals):
            w("  let _%d: %s%s\n" % (i, l["ty"], ("  // " + l["name"]) if l.get("name") else ""))
        for u in self.raw.get("upvars", []):
            w("  upvar %s = %s\n" % (u["name"], place_str(u["place"])))
        for b in range(self.n):
            blk = self.blocks[b]
            if blk["cleanup"] and not show_cleanup:
                continue
            w("  bb%d%s:\n" % (b, " (cleanup)" if blk["cleanup"] else ""))
            for st in blk["stmts"]:
                if st["k"] == "assign":
                    w("    %s = %s;  // L%d%s\n" % (place_str(st["place"]), rv_str(st["rv"]), st["line"],
                                                    " exp=" + st["exp"] if st.get("exp") else ""))
                else:
                    w("    %s %s;\n" % (st["k"], place_str(st["place"])))
            t = blk["term"]
            k = t["k"]
            exp = (" exp=" + t["exp"]) if t.get("exp") else ""
            if k == "goto":
                w("    goto bb%d;\n" % t["t"])
            elif k == "switch":
                w("    switch %s [%s, otherwise bb%d];  // L%d%s\n" % (
                    op_str(t["op"]), ", ".join("%d:bb%d" % (v, bb) for v, bb in t["targets"]), t["otherwise"],
                    t["line"], exp))
            elif k == "call":
                w("    %s = %s(%s) -> %s;  // L%d%s\n" % (
                    place_str(t["dest"]), op_str(t["func"]), ", ".join(op_str(a) for a in t["args"]),
                    ("bb%d" % t["t"]) if t["t"] is not None else "!", t["line"], exp))
            elif k == "drop":
                w("    drop(%s) -> bb%d;\n" % (place_str(t["place"]), t["t"]))
            elif k == "assert":
                w("    assert(%s == %s) -> bb%d;\n" % (op_str(t["cond"]), t["expected"], t["t"]))
            else:
                w("    %s;%s\n" % (k, exp))


def callee_matches(fr, pred):
    names = [fr["path"]]
    if fr.get("resolved"):
        names.append(fr["resolved"])
    if callable(pred):
        return any(pred(n) for n in names)
    if isinstance(pred, (list, tuple, set, frozenset)):
        return any(callee_matches(fr, p) for p in pred)
    if isinstance(pred, re.Pattern):
        return any(pred.search(n) for n in names)
    return any(n == pred or strip_generics(n) == pred for n in names)


_gen_re = re.compile(r"::<[^<>]*(?:<[^<>]*(?:<[^<>]*>[^<>]*)*>[^<>]*)*>")


def strip_generics(path):
    """`alloc::vec::Vec::<T, A>::swap_remove` -> `alloc::vec::Vec::swap_remove`; keeps <X as Trait> prefixes"""
    prev = None
    while prev != path:
        prev = path
        path = _gen_re.sub("", path)
    return path


class Program:
    def __init__(self, facts):
        self.facts = facts
        self.bodies = [Body(b, self) for b in facts["bodies"]]
        self.by_path = {}
        for b in self.bodies:
            self.by_path[b.path] = b
        self.adts = {a["path"]: a for a in facts["adts"]}
        self.impls = facts["impls"]
        self._callers = None

    def body(self, path):
        return self.by_path.get(path)

    def find(self, pred):
        """bodies whose path (generics stripped) equals / matches pred"""
        out = []
        for b in self.bodies:
            sp = strip_generics(b.path)
            if callable(pred):
                ok = pred(b.path) or pred(sp)
            elif isinstance(pred, re.Pattern):
                ok = bool(pred.search(b.path) or pred.search(sp))
            else:
                ok = b.path == pred or sp == pred
            if ok:
                out.append(b)
        return out

    def one(self, pred):
        r = self.find(pred)
        if len(r) != 1:
            raise AnchorLost("%r matched %d bodies" % (pred, len(r)))
        return r[0]

    def closures_of(self, body):
        """closure bodies defined directly in `body`, plus closures whose aggregate is built in `body`
        (the latter matters in the helper-inlined view, where a helper's closures are built by its caller)"""
        out = {b.path: b for b in self.bodies if b.kind == "closure" and b.raw.get("parent") == body.path}
        for blk in body.blocks:
            for st in blk["stmts"]:
                if st["k"] == "assign" and "agg" in st.get("rv", {}) and st["rv"]["agg"]["kind"] == "closure":
                    cb = self.by_path.get(st["rv"]["agg"]["closure"])
                    if cb is not None:
                        out[cb.path] = cb
        return list(out.values())

    def adt(self, path):
        return self.adts.get(path)

    def adt_by_name(self, name):
        r = [a for p, a in self.adts.items() if p == name or p.endswith("::" + name)]
        if len(r) != 1:
            raise AnchorLost("adt %r matched %d" % (name, len(r)))
        return r[0]

    def impls_of_trait(self, trait_pred):
        out = []
        for im in self.impls:
            t = im.get("trait")
            if t is None:
                continue
            if (callable(trait_pred) and trait_pred(t)) or t == trait_pred or t.endswith("::" + str(trait_pred)):
                out.append(im)
        return out

    def type_impls(self, adt_path, trait_name):
        """impl records of `trait_name` (last segment or full path) for the ADT"""
        out = []
        for im in self.impls:
            if im.get("self_adt") != adt_path:
                continue
            t = im.get("trait")
            if t and (t == trait_name or t.endswith("::" + trait_name)):
                out.append(im)
        return out

    # -- A6 call graph ------------------------------------------------------------------------------------------
    def local_callees(self, body):
        """set of local body paths referenced from `body`: direct calls (resolved), fn items used as values,
        closures constructed"""
        out = set()
        for b in sorted(body.reachable):
            blk = body.blocks[b]
            for st in blk["stmts"]:
                if st["k"] != "assign":
                    continue
                for op in rv_operands(st["rv"]):
                    fr = op_fn(op)
                    if fr:
                        self._add_local(out, fr)
                    cc = op_closure_const(op)
                    if cc and cc in self.by_path:
                        out.add(cc)
                rv = st["rv"]
                if "agg" in rv and rv["agg"]["kind"] == "closure" and rv["agg"]["closure"] in self.by_path:
                    out.add(rv["agg"]["closure"])
            t = blk["term"]
            if t["k"] == "call":
                fr = op_fn(t["func"])
                if fr:
                    self._add_local(out, fr)
                    # generic args that are fn items / closures of this crate (e.g. syscall::<.., {fn item}, ..>)
                for a in t["args"]:
                    fr2 = op_fn(a)
                    if fr2:
                        self._add_local(out, fr2)
                    cc = op_closure_const(a)
                    if cc and cc in self.by_path:
                        out.add(cc)
        return out

    def _add_local(self, out, fr):
        for key in ("resolved", "path"):
            n = fr.get(key)
            if not n:
                continue
            if n in self.by_path:
                out.add(n)
                return
            # generic instantiation printed with args: match by stripped name
            sn = strip_generics(n)
            for cand in self._stripped_index().get(sn, ()):
                out.add(cand)
                return

    def _stripped_index(self):
        if not hasattr(self, "_sidx"):
            self._sidx = defaultdict(list)
            for b in self.bodies:
                self._sidx[strip_generics(b.path)].append(b.path)
        return self._sidx

    def resolve_local(self, fr):
        """Body for a fn-ref if it names a body of this crate"""
        s = set()
        self._add_local(s, fr)
        for p in s:
            return self.by_path[p]
        return None

    def reachable_bodies(self, roots, depth=4):
        seen = {}
        frontier = [(r, 0) for r in roots]
        while frontier:
            b, d = frontier.pop()
            if b.path in seen and seen[b.path] <= d:
                continue
            seen[b.path] = d
            if d >= depth:
                continue
            for c in self.local_callees(b):
                frontier.append((self.by_path[c], d + 1))
        return [self.by_path[p] for p in seen]

    def callers_of(self, pred):
        """[(body, block, term, fnref)] of every call in the crate whose callee matches pred"""
        out = []
        for body in self.bodies:
            for b, t, fr in body.iter_calls():
                if fr is not None and callee_matches(fr, pred):
                    out.append((body, b, t, fr))
        return out

    def fn_value_uses(self, pred):
        """[(body, block, where)] where a fn item matching pred is used as a value (not as a direct callee)"""
        out = []
        for body in self.bodies:
            for b in sorted(body.reachable):
                blk = body.blocks[b]
                for i, st in enumerate(blk["stmts"]):
                    if st["k"] == "assign":
                        for op in rv_operands(st["rv"]):
                            fr = op_fn(op)
                            if fr and callee_matches(fr, pred):
                                out.append((body, b, i, fr))
                t = blk["term"]
                if t["k"] == "call":
                    for a in t["args"]:
                        fr = op_fn(a)
                        if fr and callee_matches(fr, pred):
                            out.append((body, b, None, fr))
        return out


def rv_operands(rv):
    if "use" in rv:
        return [rv["use"]]
    if "cast" in rv:
        return [rv["cast"]["op"]]
    if "bin" in rv:
        return [rv["bin"]["l"], rv["bin"]["r"]]
    if "un" in rv:
        return [rv["un"]["x"]]
    if "agg" in rv:
        return list(rv["agg"]["ops"])
    return []


class AnchorLost(Exception):
    pass


# ---------------------------------------------------------------------------------------------------------------
# A3 provenance

PASS_THROUGH = [
    # (last two path segments of the callee or of its trait method, index of the argument whose origin flows to the result)
    ("Deref::deref", 0), ("DerefMut::deref_mut", 0), ("Into::into", 0), ("From::from", 0), ("Clone::clone", 0),
    ("BorrowMut::borrow_mut", 0), ("Borrow::borrow", 0), ("AsRef::as_ref", 0), ("AsMut::as_mut", 0),
    ("Mut::into_inner", 0), ("ResMut::into_inner", 0), ("Res::into_inner", 0), ("In::into_inner", 0),
    ("IntoIterator::into_iter", 0), ("Try::branch", 0),
    ("Option::as_mut", 0), ("Option::as_ref", 0), ("Option::unwrap", 0), ("Result::unwrap", 0), ("Result::ok", 0),
    ("Option::expect", 0), ("Result::expect", 0), ("Option::unwrap_or_default", 0), ("Option::unwrap_or", 0),
    ("Option::as_deref", 0), ("Option::as_deref_mut", 0), ("Option::copied", 0), ("Option::cloned", 0),
]


def tail2(path):
    """last two segments of a path; `<X as a::Trait<..>>::m` -> `Trait::m`"""
    if path.startswith("<"):
        depth = 0
        for i, ch in enumerate(path):
            if ch == "<":
                depth += 1
            elif ch == ">":
                depth -= 1
                if depth == 0:
                    inner, rest = path[1:i], path[i + 1:]
                    if " as " in inner and rest.startswith("::"):
                        # split at the top-level " as "
                        d2 = 0
                        for j in range(len(inner)):
                            if inner[j] == "<":
                                d2 += 1
                            elif inner[j] == ">":
                                d2 -= 1
                            elif d2 == 0 and inner.startswith(" as ", j):
                                tr = inner[j + 4:]
                                tr = tr.split("<")[0].split("::")[-1]
                                meth = strip_generics(rest[2:]).split("::")[-1]
                                return tr + "::" + meth
                    break
    sp = strip_generics(path)
    parts = sp.split("::")
    return "::".join(parts[-2:])


def pass_through_index(fr):
    """argument index whose origin flows to the result, or None"""
    names = {tail2(fr["path"])}
    if fr.get("resolved"):
        names.add(tail2(fr["resolved"]))
    if fr.get("trait"):
        names.add(fr["trait"].split("::")[-1] + "::" + strip_generics(fr["path"]).split("::")[-1])
    if fr.get("impl_trait"):
        names.add(fr["impl_trait"].split("::")[-1] + "::" + strip_generics(fr["path"]).split("::")[-1])
    for name, idx in PASS_THROUGH:
        if name in names:
            return idx
    return None


class Origin:
    """origins of a value inside one body. kinds: ('arg', n, projpath) ('call', block, projpath) ('const', repr)
    ('agg', block, idx) ('unknown', why)"""


def origins(body, op, _seen=None, depth=0, extra=()):
    """set of origin tuples for an operand (flow-insensitive over-approximation); `extra` = projection keys still to
    be applied to the value (pushed down through copies, borrows, pass-through calls and freshly built aggregates)"""
    if "const" in op:
        c = op["const"]
        if "fn" in c:
            return {("fnitem", fn_name(c["fn"]))}
        if "val" in c:
            return {("const", c["val"], c["ty"])}
        return {("const", c.get("repr"), c["ty"])}
    p = op_place(op)
    if p is None:
        return {("unknown", "operand")}
    return place_origins(body, p, _seen, depth, extra)


def _proj_key(projs):
    out = []
    for e in projs:
        if isinstance(e, str):
            if e == "deref":
                continue
            out.append(e)
        elif "f" in e:
            out.append("." + str(e.get("name") if e.get("name") is not None else e["f"]))
        elif "downcast" in e:
            out.append("@" + str(e.get("name") or e["downcast"]))
        else:
            out.append(json.dumps(e, sort_keys=True))
    return tuple(out)


def place_origins(body, p, _seen=None, depth=0, extra=()):
    if _seen is None:
        _seen = set()
    l = p["l"]
    proj = _proj_key(p["p"]) + tuple(extra)
    key = (l, proj)
    if key in _seen or depth > 60:
        return set()
    _seen = _seen | {key}
    out = set()
    ds = body.defs.get(l, [])
    if not ds:
        return {("unknown", "no-def:_%d" % l)}
    rec_seen = set()      # a threaded view repeats one statement in several copies of its block: recurse into it once
    other_variant = False
    for d in ds:
        if d[0] == "arg":
            out.add(("arg", d[1]) + proj)
        elif d[0] == "stmt":
            rv = d[3]
            if len(ds) > 2 and ("use" in rv or "ref" in rv or "rawptr" in rv or "cast" in rv or ("agg" in rv and proj)):
                rk = repr(rv)
                if rk in rec_seen:
                    continue
                rec_seen.add(rk)
            if "use" in rv:
                out |= origins(body, rv["use"], _seen, depth + 1, proj)
            elif "ref" in rv or "rawptr" in rv:
                q = rv.get("ref") or rv.get("rawptr")
                out |= place_origins(body, q, _seen, depth + 1, proj)
            elif "cast" in rv:
                out |= origins(body, rv["cast"]["op"], _seen, depth + 1, proj)
            elif "agg" in rv:
                a = rv["agg"]
                pj = proj
                if pj and pj[0].startswith("@") and a["kind"] == "adt":
                    if a.get("vname") == pj[0][1:]:
                        pj = pj[1:]          # downcast to the variant that was built
                    else:
                        other_variant = True
                        continue             # downcast to another variant: this definition cannot be the source
                # projection into a freshly built aggregate: follow the field operand if we can
                if pj and a["kind"] in ("tuple", "adt", "closure"):
                    idx = _field_index(a, pj[0])
                    if idx is not None and idx < len(a["ops"]):
                        out |= origins(body, a["ops"][idx], _seen, depth + 1, pj[1:])
                        continue
                out.add(("agg", d[1], d[2]) + pj)
            elif "discr" in rv:
                out.add(("discr",) + tuple(sorted(map(str, place_origins(body, rv["discr"], _seen, depth + 1)))))
            elif "bin" in rv:
                out.add(("bin", d[1], d[2]))
            else:
                out.add(("rv", d[1], d[2]))
        elif d[0] == "call":
            t = d[2]
            fr = op_fn(t["func"])
            passed = False
            if fr is not None and len(ds) > 2 and pass_through_index(fr) is not None:
                rk = repr((t["func"], t["args"]))
                if rk in rec_seen:
                    continue
                rec_seen.add(rk)
            if fr is not None:
                idx = pass_through_index(fr)
                if idx is not None and idx < len(t["args"]):
                    pj2 = proj
                    if pj2 and pj2[0] == "@Continue" and fr["path"].endswith("Try::branch"):
                        # `x?`: the Continue payload of the branch is the Ok / Some payload of x
                        ap = op_place(t["args"][idx])
                        aty = body.local_ty(ap["l"]) if ap is not None and not ap["p"] else ""
                        if aty.startswith("core::result::Result<"):
                            pj2 = ("@Ok",) + tuple(pj2[1:])
                        elif aty.startswith("core::option::Option<"):
                            pj2 = ("@Some",) + tuple(pj2[1:])
                    out |= origins(body, t["args"][idx], _seen, depth + 1, pj2)
                    passed = True
            if not passed and fr is not None and proj and proj[0] == "@Ok" and tail2(fr["path"]) in ("Option::ok_or", "Option::ok_or_else") and t["args"]:
                # `opt.ok_or(e)`: the Ok payload is the Some payload of opt
                out |= origins(body, t["args"][0], _seen, depth + 1, ("@Some",) + tuple(proj[1:]))
                passed = True
            if not passed and fr is not None and proj and proj[0] == "@Some" and tail2(fr["path"]) == "Result::ok" and t["args"]:
                # `res.ok()`: the Some payload is the Ok payload of res
                out |= origins(body, t["args"][0], _seen, depth + 1, ("@Ok",) + tuple(proj[1:]))
                passed = True
            if not passed and fr is not None and proj and proj[0] in ("@Some", "@Ok", "@Continue") and tail2(fr["path"]) == "FromResidual::from_residual":
                # `?` on the failure path builds None / Err: that definition cannot be the source of a Some / Ok payload
                passed = True
            if not passed:
                out.add(("call", d[1]) + proj)
        elif d[0] in ("partial", "partialcall"):
            # a field of the local is written separately: only relevant when asking for that field
            pass
    if not out and not (other_variant and depth > 0):
        # (a local that only ever holds another variant than the one asked for contributes no origin to the value it was moved into)
        out.add(("unknown", "only-partial-defs:_%d" % l))
    return out


def _field_index(agg, key):
    if not key.startswith("."):
        return None
    name = key[1:]
    if name.isdigit():
        return int(name)
    flds = agg.get("fields")
    if flds and name in flds:
        return flds.index(name)
    return None


def _extend(o, proj):
    if not proj:
        return o
    return tuple(o) + tuple(proj)


def origin_is_arg(o, n=None):
    return o[0] == "arg" and (n is None or o[1] == n)


# ---------------------------------------------------------------------------------------------------------------
# A2 typestate propagation

class Automaton:
    """Deterministic automaton over events; subclasses define init(), on_block_entry, stmt_events, edge events.
    propagate() computes reachable (block, state) pairs with back-pointers for witness paths."""

    def __init__(self, body):
        self.body = body
        self.visited = {}       # (block, state) -> predecessor (block, state) or None
        self.exit_states = {}   # block -> set(state) at the *end* of the block (before edges)
        self.violations = []    # (message, (block, state))

    def init(self):
        return 0

    def block_step(self, b, state):
        """run the events of block b (statements then terminator) on state; return new state"""
        return state

    def edge_step(self, b, succ, state):
        """state after taking edge b->succ; return None to prune the edge (infeasible)"""
        return state

    def propagate(self, start=0, init=None):
        body = self.body
        s0 = self.init() if init is None else init
        work = deque([(start, s0)])
        self.visited[(start, s0)] = None
        end_states = defaultdict(set)
        while work:
            b, st = work.popleft()
            st2 = self.block_step(b, st)
            end_states[b].add(st2)
            self.on_block_end(b, st, st2)
            for s in body.succ[b]:
                st3 = self.edge_step(b, s, st2)
                if st3 is None:
                    continue
                if (s, st3) not in self.visited:
                    self.visited[(s, st3)] = (b, st)
                    work.append((s, st3))
        self.end_states = end_states
        return end_states

    def on_block_end(self, b, st_in, st_out):
        pass

    def witness(self, node):
        path = []
        while node is not None:
            path.append(node)
            node = self.visited.get(node)
        path.reverse()
        return path

    def states_at_returns(self):
        out = []
        for b in self.body.return_blocks():
            for (bb, st) in list(self.visited):
                if bb == b:
                    out.append((b, st, self.block_step(b, st)))
        return out


def switch_on(body, b):
    """If block b ends in a switchInt, describe what is switched on:
    returns dict(kind='discr', place=<place>, local_def=...)/('bool', op)/('int', op) plus targets map"""
    t = body.blocks[b]["term"]
    if t["k"] != "switch":
        return None
    op = t["op"]
    p = op_place(op)
    info = {"targets": {v: bb for v, bb in t["targets"]}, "otherwise": t["otherwise"], "op": op, "kind": "value"}
    if p is not None and not p["p"]:
        # find the defining statement in the same block (MIR emits discriminant() right before the switch)
        for st in reversed(body.blocks[b]["stmts"]):
            if st["k"] == "assign" and not st["place"]["p"] and st["place"]["l"] == p["l"]:
                rv = st["rv"]
                if "discr" in rv:
                    info["kind"] = "discr"
                    info["place"] = rv["discr"]
                elif "bin" in rv:
                    info["kind"] = "bin"
                    info["bin"] = rv["bin"]
                elif "un" in rv:
                    info["kind"] = "un"
                    info["un"] = rv["un"]
                elif "use" in rv:
                    info["kind"] = "use"
                    info["use"] = rv["use"]
                break
        else:
            ds = body.defs.get(p["l"], [])
            if len(ds) == 1 and ds[0][0] == "call":
                info["kind"] = "callresult"
                info["call"] = ds[0][2]
                info["call_block"] = ds[0][1]
            elif len(ds) == 1 and ds[0][0] == "stmt":
                rv = ds[0][3]
                for k in ("discr", "bin", "un", "use"):
                    if k in rv:
                        info["kind"] = k if k != "discr" else "discr"
                        info["place" if k == "discr" else k] = rv[k]
    # `let flag = a == 0; .. if flag` : the switch reads a copy of a local whose single definition is the comparison
    seen = set()
    while info["kind"] == "use" and len(seen) < 6:
        q = op_place(info["use"])
        if q is None or q["p"] or q["l"] in seen:
            break
        seen.add(q["l"])
        ds = [d for d in body.defs.get(q["l"], []) if d[0] in ("stmt", "call")]
        if len(ds) != 1 or ds[0][0] != "stmt":
            break
        rv = ds[0][3]
        for k in ("discr", "bin", "un", "use"):
            if k in rv:
                info["kind"] = k
                info["place" if k == "discr" else k] = rv[k]
                break
        else:
            break
    return info


def load_program(path):
    with open(path) as fh:
        return Program(json.load(fh))


if __name__ == "__main__":
    import os
    sys.path.insert(0, os.path.dirname(os.path.abspath(__file__)))
    import facts as F
    data, meta = F.get_facts(())
    prog = Program(data)
    if len(sys.argv) >= 3 and sys.argv[1] == "pp":
        for b in prog.bodies:
            if sys.argv[2] in b.path:
                b.pp()
                print()
    elif len(sys.argv) >= 3 and sys.argv[1] == "ls":
        for b in prog.bodies:
            if sys.argv[2] in b.path or sys.argv[2] in b.file:
                print(b.path, b.kind, "%s:%d" % (b.file, b.line), len(b.blocks))

"""C08 - Every removal and despawn is reacted to exactly once (DESIGN.md section 4, C08)."""
import re

import mir
from mir import op_fn, op_place, origins
import lib
import loops as LP
import anchors as A
import core

EXPLANATION = (
    "Detectors and polling: both removal triggers reach ReactCache::track_removals::<C> with their own C (queued before "
    "the registration for the entity-scoped trigger); the removal collector of a RemovalChecker is a persistent system "
    "(called through the state-preserving syscall, never syscall_once), reads RemovedComponents<React<C>> for the same C "
    "whose TypeId keys the checker; a DespawnTracker is inserted only where the entity has none (replacing one would "
    "fire its Drop), carries the entity it is inserted on, which is also the registration key, and its Drop sends that "
    "entity exactly once; schedule_despawn_reactions consumes the map entry (at most one reaction per registration); the "
    "polled dispatch loops are exhaustive (shared with C01.b); every RUN path of the runner polls after the callback ran; "
    "the poll function calls both schedulers then flushes; ReactPlugin adds it to Last after AutoDespawnSet, in which "
    "setup_auto_despawn puts the collector.")

NOT_DECIDED = [
    "exactly-once over arbitrary insert/remove/re-insert histories between polls and across frames: contract of Bevy's RemovedComponents buffers and of component drop on despawn (trusted)",
    "'nothing runs for a component that was not removed'; system-order independence inside a frame",
]


def check(ctx):
    ctx.explanation = EXPLANATION
    ctx.not_decided = NOT_DECIDED
    prog = ctx.prog
    import c01
    # ---- C08.a removal tracking installed by both removal triggers ----
    try:
        tr = A.method(prog, "ReactCache", "track_removals")
    except mir.AnchorLost as e:
        ctx.fail("C08.a", "anchor-lost:track_removals", "", str(e))
        return
    ctx.touch(tr)
    n = 0
    for im in c01.trigger_impls(prog):
        nm = im["self_adt"].split("::")[-1]
        rt = next((prog.body(i["path"]) for i in im["items"] if i["name"] == "reactor_type"), None)
        reg = next((prog.body(i["path"]) for i in im["items"] if i["name"] == "register"), None)
        if rt is None or reg is None:
            continue
        aggs = [st["rv"]["agg"]["vname"] for b, i, st in rt.iter_stmts() if st["k"] == "assign" and "agg" in st["rv"]
                and st["rv"]["agg"].get("adt", "").endswith("::ReactorType")]
        if not aggs or "Removal" not in aggs[0]:
            continue
        n += 1
        ctx.touch(reg)
        # find syscalls and the generic instantiation with which track_removals is reached
        reached = []   # (block in reg, type args)
        carry = None
        for b, t, fr in reg.iter_calls():
            if not (fr and lib.tail(mir.fn_name(fr), 1) == "syscall" and len(t["args"]) >= 3):
                continue
            if c01.carries_handle(reg, t["args"][1]):
                carry = b
            F = op_fn(t["args"][2])
            Fb = prog.resolve_local(F) if F else None
            if Fb is None:
                continue
            ctx.touch(Fb)
            for b2, t2, fr2 in Fb.iter_calls():
                if fr2 and mir.fn_name(fr2) == tr.path:
                    # callee's C = Fb's own generic param instantiated by F's args
                    reached.append((b, F.get("args", [])[:1], fr2.get("args", [])[:1]))
        ok = bool(reached) and all(fa == ["C"] and ca == ["C"] for b, fa, ca in reached)
        ctx.check(ok, "C08.a", "%s::register:installs-removal-tracking" % nm, "%s:%d" % (reg.file, reg.line),
                  "register() reaches ReactCache::track_removals::<C> with its own C",
                  "register() of %s does not install removal tracking for its own component type (removals would never be detected)" % nm)
        if reached and carry is not None:
            ctx.check(any(b == carry or reg.dominates(b, carry) for b, _, _ in reached), "C08.a", "%s::register:tracking-before-registration" % nm,
                      reg.loc(carry), "tracking is queued no later than the registration", "removal tracking is queued after the registration")
    ctx.floor("C08.a", n, 2, "removal trigger kinds")
    # track_removals pushes a checker at most once per type: guarded by the tracked set
    pushes = [b for b, t, fr in tr.iter_calls() if fr and lib.tail(mir.fn_name(fr), 2) == "Vec::push"]
    cont = [b for b, t, fr in tr.iter_calls() if fr and lib.tail(mir.fn_name(fr), 1) == "contains"]
    okg = bool(pushes) and bool(cont)
    if okg:
        arms = lib.bool_arms(tr, cont[0])
        okg = bool(arms) and all(tr.dominates(arms[0][2], p) for p in pushes)
    if not okg and pushes:
        # `if !set.insert(key) { return }`: HashSet::insert returns true exactly when the key was not present
        for b, t, fr in tr.iter_calls():
            if fr and lib.tail(mir.fn_name(fr), 2) in ("HashSet::insert", "BTreeSet::insert"):
                arms = lib.bool_arms(tr, b)
                if arms and all(tr.dominates(arms[0][1], p) for p in pushes):
                    okg = True
    ctx.check(okg, "C08.a", "ReactCache::track_removals:one-checker-per-type", "%s:%d" % (tr.file, tr.line),
              "a checker is pushed only when the type is not yet tracked", "track_removals can push a second checker for a tracked type (each removal would be reported twice)")

    # ---- C08.b the removal reader persists ----
    try:
        rcn = A.method(prog, "RemovalChecker", "new")
        coll = A.free_fn(prog, "collect_component_removals")
    except mir.AnchorLost as e:
        ctx.fail("C08.b", "anchor-lost:RemovalChecker", "", str(e))
        rcn = coll = None
    if rcn is not None:
        ctx.touch(rcn)
        ctx.touch(coll)
        entry = []
        for c in [rcn] + prog.closures_of(rcn):
            for b, t, fr in c.iter_calls():
                if fr is None:
                    continue
                for a in t["args"]:
                    fa = op_fn(a)
                    if fa and mir.fn_name(fa) == coll.path:
                        entry.append((c, b, lib.tail(mir.fn_name(fr), 1), fa.get("args", [])))
        ctx.check(bool(entry) and all(e[2] in ("syscall", "syscall_with_validation") for e in entry), "C08.b",
                  "RemovalChecker::new:collector-state-persists", "%s:%d" % (rcn.file, rcn.line),
                  "collector runs through the cached syscall (its RemovedComponents cursor persists)",
                  "the removal collector is run through %s: a fresh RemovedComponents cursor per poll re-delivers old removals" % [e[2] for e in entry])
        ctx.check(bool(entry) and all(e[3][:1] == ["C"] for e in entry), "C08.b", "RemovalChecker::new:collector-for-own-type", "%s:%d" % (rcn.file, rcn.line),
                  "collector instantiated with the checker's own C", "collector instantiated with %s" % [e[3] for e in entry])
        ids = []
        for b, i, st in rcn.iter_stmts():
            if st["k"] == "assign" and "agg" in st["rv"] and st["rv"]["agg"].get("adt", "").endswith("::RemovalChecker"):
                ag = st["rv"]["agg"]
                ids.append(LP._key_of(rcn, ag["ops"][ag["fields"].index("component_id")]))
        ctx.check(ids == [(("TypeId::of", "C"),)], "C08.b", "RemovalChecker::new:keyed-by-own-type", "%s:%d" % (rcn.file, rcn.line),
                  "component_id = TypeId::of::<C>()", "component_id is %s" % ids)
        rparam = [l["ty"] for l in coll.locals[1:coll.arg_count + 1] if "RemovedComponents" in l["ty"]]
        ctx.check(len(rparam) == 1 and re.search(r"RemovedComponents<'\w+, '\w+, react::react_component::React<C>>", rparam[0]) is not None, "C08.b",
                  "collect_component_removals:reads-React<C>", "%s:%d" % (coll.file, coll.line), "reads RemovedComponents<React<C>>",
                  "collector reads %s" % rparam)

        # the collector reports only this poll's removals: the reused buffer is cleared before reading, and only
        # entities produced by RemovedComponents::read are pushed
        clr = [b for b, t, fr in coll.iter_calls() if fr and lib.tail(mir.fn_name(fr), 2) == "Vec::clear"]
        rd = [b for b, t, fr in coll.iter_calls() if fr and lib.tail(mir.fn_name(fr), 2) == "RemovedComponents::read"]
        pushes = []
        for bd in [coll] + prog.closures_of(coll):
            for b, t, fr in bd.iter_calls():
                if fr and lib.tail(mir.fn_name(fr), 2) in ("Vec::push", "Vec::extend", "Vec::insert"):
                    pushes.append((bd, b, t))
        okc = len(rd) == 1 and bool(clr) and all(coll.dominates(c, rd[0]) for c in clr[:1])
        def _only_read_items(bd, t):
            # a for_each closure pushing its parameter, or `buffer.extend(removed.read())` / its desugared loop in the collector
            if bd is not coll:
                return all(o[0] == "arg" and o[1] == 2 for o in origins(bd, t["args"][1]))
            return bool(rd) and _derives_from_call(coll, t["args"][1], rd[0])
        okp = bool(pushes) and all(_only_read_items(bd, t) for bd, b, t in pushes)
        ctx.check(okc and okp, "C08.b", "collect_component_removals:fresh-buffer-per-poll", "%s:%d" % (coll.file, coll.line),
                  "buffer.clear() dominates removed.read(); only the iterator's entities are pushed",
                  "the removal collector does not clear its reused buffer before reading (entities of an earlier poll would be reported again) or pushes something else")
        # every entity reported by RemovedComponents::read is forwarded: no filtering adaptor between read() and the consumer,
        # and the consumer's closure pushes its element on every path (a removal followed by a re-insert is still a removal)
        FILTERS = ("filter", "filter_map", "skip", "take", "step_by", "skip_while", "take_while", "rev", "dedup", "map_while", "scan", "flat_map")
        chain_bad, consumers = [], 0
        for bd in [coll] + prog.closures_of(coll):
            for b, t, fr in bd.iter_calls():
                if fr is None or not t["args"]:
                    continue
                n1 = lib.tail(mir.fn_name(fr), 1)
                if n1 in ("for_each", "extend", "collect", "next") or n1 in FILTERS:
                    srcs = origins(bd, t["args"][0] if n1 != "extend" else t["args"][-1])
                    def from_read(os_, body=bd, depth=0):
                        for o in os_:
                            if o[0] == "call":
                                fr2 = op_fn(body.blocks[o[1]]["term"]["func"])
                                nm = lib.tail(mir.fn_name(fr2), 2) if fr2 else ""
                                if nm == "RemovedComponents::read":
                                    return True
                                if fr2 and depth < 6 and body.blocks[o[1]]["term"]["args"] and from_read(origins(body, body.blocks[o[1]]["term"]["args"][0]), body, depth + 1):
                                    return True
                        return False
                    if from_read(srcs):
                        if n1 in FILTERS:
                            chain_bad.append(n1)
                        else:
                            consumers += 1
        push_counts = set()
        for bd, b, t in pushes:
            if bd is not coll:
                c_, _, _ = lib.event_counts(bd, [b])
                push_counts |= c_
        # a hand-written loop in the collector itself: every iteration pushes exactly once (no `continue` that skips an entity -
        # a de-duplication or sanity guard drops the second removal of an entity that was re-inserted in between) and the loop
        # runs until the iterator is exhausted
        loop_ok = True
        own = [(b, t) for bd, b, t in pushes if bd is coll and lib.tail(mir.fn_name(op_fn(t["func"])), 1) != "extend"]
        if own:
            import loops as _LP
            for (pb, pt) in own:
                Ls_ = [L_ for L_ in _LP.find_loops(coll) if pb in L_.blocks and L_.driver is not None]
                if not Ls_:
                    continue        # not in a loop (e.g. a single push before the loop): counted by fresh-buffer rule
                L_ = Ls_[0]
                cnt_, _ = _LP.iteration_counts(coll, L_, [pb])
                if cnt_ != {1} or L_.exits:
                    loop_ok = False
                    push_counts |= cnt_
        ctx.check(loop_ok and not chain_bad and consumers >= 1 and (push_counts == {1} or not pushes or all(bd is coll for bd, b, t in pushes)), "C08.b",
                  "collect_component_removals:forwards-every-removal", "%s:%d" % (coll.file, coll.line),
                  "every entity yielded by RemovedComponents::read() is forwarded (no filtering adaptor, unconditional push)",
                  "the removal collector drops some removals (adaptors %s, push counts %s): a removal followed by a re-insert before the poll would never be reacted to" % (chain_bad, sorted(push_counts)))
        rets = [st for b, i, st in coll.iter_stmts() if st["k"] == "assign" and st["place"]["l"] == 0 and not st["place"]["p"]]
        ctx.check(len(rets) == 1 and "use" in rets[0]["rv"] and all(o[0] == "arg" and o[1] == 1 for o in origins(coll, rets[0]["rv"]["use"])), "C08.b",
                  "collect_component_removals:returns-the-filled-buffer", "%s:%d" % (coll.file, coll.line), "", "the collector does not return the buffer it filled")

    # ---- C08.c despawn tracker ----
    try:
        rdr = A.free_fn(prog, "register_despawn_reactor")
        cls = prog.closures_of(rdr)
        c = next(x for x in cls if x.calls_named(lambda n: lib.tail(n, 2) == "ReactCache::register_despawn_reactor"))
        ctx.touch(c, calls=len(list(c.iter_calls())))
        ins = [(b, t) for b, t, fr in c.iter_calls() if fr and lib.tail(mir.fn_name(fr), 2) in ("EntityWorldMut::insert", "EntityCommands::insert", "EntityCommands::try_insert")
               and lib.has_type(fr.get("args"), "DespawnTracker")]
        cont = [b for b, t, fr in c.iter_calls() if fr and lib.tail(mir.fn_name(fr), 2) == "EntityWorldMut::contains" and lib.has_type(fr.get("args"), "DespawnTracker")]
        regc = [(b, t) for b, t, fr in c.iter_calls() if fr and lib.tail(mir.fn_name(fr), 2) == "ReactCache::register_despawn_reactor"]
        live = [(b, t) for b, t, fr in c.iter_calls() if fr and lib.tail(mir.fn_name(fr), 2) in ("World::get_entity_mut", "World::get_entity")]
        ok = bool(ins) and bool(cont)
        if ok:
            arms = lib.bool_arms(c, cont[0])
            ok = bool(arms) and all(c.dominates(arms[0][2], b) for b, t in ins)
        ctx.check(ok, "C08.c", "register_despawn_reactor:tracker-not-replaced", c.loc(ins[0][0]) if ins else "%s:%d" % (c.file, c.line),
                  "DespawnTracker is inserted only on the contains::<DespawnTracker>() == false arm",
                  "an existing DespawnTracker can be replaced (its Drop would report a live entity as despawned)")
        # the tracker's entity field by type (the private name may change)
        try:
            _dt_adt = prog.adt_by_name("DespawnTracker")
            _efs = [f_["name"] for f_ in _dt_adt["variants"][0]["fields"] if f_["ty"].endswith("entity::Entity")]
            pfield = _efs[0] if len(_efs) == 1 else "parent"
        except (mir.AnchorLost, KeyError, IndexError):
            pfield = "parent"
        ents = set()
        for b, t in ins:
            ents |= {tuple(o) for r in [x for x in entity_of(c, t["args"][0])] for o in r}
            ag = None
            for o in origins(c, t["args"][1]):
                if o[0] == "agg":
                    ag = c.blocks[o[1]]["stmts"][o[2]]["rv"]["agg"]
            if ag:
                if pfield not in ag.get("fields", []):
                    raise mir.AnchorLost("DespawnTracker aggregate without its entity field")
                for o in origins(c, ag["ops"][ag["fields"].index(pfield)]):
                    # `entity_mut.id()` is the entity that `entity_mut` was looked up with
                    if o[0] == "call":
                        t_ = c.blocks[o[1]]["term"]
                        fr_ = op_fn(t_["func"])
                        if fr_ and lib.tail(mir.fn_name(fr_), 2) in ("EntityWorldMut::id", "EntityRef::id", "EntityMut::id", "EntityCommands::id") and len(o) == 2:
                            ents |= {tuple(o2) for r in entity_of(c, t_["args"][0]) for o2 in r}
                            continue
                    ents.add(tuple(o))
        for b, t in regc:
            ents |= {tuple(o) for o in origins(c, t["args"][1])}
        ctx.check(len(ents) == 1, "C08.c", "register_despawn_reactor:one-entity", "%s:%d" % (c.file, c.line),
                  "tracker.parent, the entity it is inserted on and the registration key are one value %s" % sorted(ents),
                  "tracker parent / insertion entity / registration key differ: %s" % sorted(ents))
        okl = bool(live)
        for b, t in live:
            arms = lib.result_arms(c, b)
            okl = okl and bool(arms) and all(c.dominates(arms[0][1], rb) for rb, _ in regc)
        ctx.check(okl, "C08.c", "register_despawn_reactor:registers-only-live-entity", "%s:%d" % (c.file, c.line),
                  "registration is dominated by the entity lookup succeeding", "a despawn reactor can be registered for an entity that no longer exists (it would never fire or be released)")
        dt = A.trait_method(prog, "DespawnTracker", "Drop", "drop")
        ctx.touch(dt)
        sends = [(b, t) for b, t, fr in dt.iter_calls() if fr and lib.tail(mir.fn_name(fr), 1) == "send"]
        cnt, _, _ = lib.event_counts(dt, [b for b, t in sends])
        oks = cnt == {1} and all(all(o[0] == "arg" and o[1] == 1 and o[-1] == "." + pfield for o in origins(dt, t["args"][1])) for b, t in sends)
        oks = oks and all(lib.tail(mir.fn_name(op_fn(dt.blocks[b]["term"]["func"])), 1) == "send" for b, t in sends)
        ctx.check(oks, "C08.c", "DespawnTracker::drop:sends-parent-once", "%s:%d" % (dt.file, dt.line), "Drop sends self.parent exactly once",
                  "Drop for DespawnTracker sends %s times / not self.parent" % sorted(cnt))
    except (mir.AnchorLost, StopIteration) as e:
        ctx.fail("C08.c", "anchor-lost:despawn-tracker", "", str(e))
    try:
        dflt = A.trait_method(prog, "ReactCache", "Default", "default")
        ctx.touch(dflt)
        # the two ends of the despawn channel by type (wherever the cache keeps them: own fields or a private grouping)
        rc_adt = prog.adt_by_name("ReactCache")
        sfs = [f["name"] for f in rc_adt["variants"][0]["fields"] if re.search(r"channel::Sender<bevy_ecs::entity::Entity>$", f["ty"])]
        rfs = [f["name"] for f in rc_adt["variants"][0]["fields"] if re.search(r"channel::Receiver<bevy_ecs::entity::Entity>$", f["ty"])]
        if len(sfs) != 1 or len(rfs) != 1:
            raise mir.AnchorLost("despawn channel fields of ReactCache: %s / %s" % (sfs, rfs))
        sfield, rfield = sfs[0], rfs[0]
        ok, det = lib.channel_pairing(dflt, "ReactCache", sfield, rfield)
        ctx.check(ok, "C08.c", "ReactCache::default:despawn-channel-paired", "%s:%d" % (dflt.file, dflt.line),
                  "despawn_sender and despawn_receiver are the two ends of one channel", "the despawn sender and receiver are not the two ends of the same channel (%s)" % det)
        ds = A.method(prog, "ReactCache", "despawn_sender")
        cl = [lib.tail(n, 2) for b, t, n, ch in lib.field_method_calls(ds, "ReactCache", sfield)]
        ctx.check(cl in (["Sender::clone"], ["Clone::clone"]), "C08.c", "ReactCache::despawn_sender:clones-own-sender", "%s:%d" % (ds.file, ds.line), "", "despawn_sender() does not return a clone of the cache's own sender: %s" % cl)
        sdr = A.method(prog, "ReactCache", "schedule_despawn_reactions")
        # calls *on the receiver itself* (what is done with a received entity, e.g. logging it, is not a read of the channel)
        rc = [lib.tail(n, 2) for b, t, n, ch in lib.field_method_calls(sdr, "ReactCache", rfield) if not ch]
        # `while let Ok(e) = rx.try_recv()` or the lazy `for e in rx.try_iter()` (TryIter::next is try_recv().ok()); not a
        # collected snapshot
        snap = [lib.tail(n, 1) for b, t, n, ch in lib.field_method_calls(sdr, "ReactCache", rfield) if ch and lib.tail(n, 1) in ("collect", "count", "last", "fold")]
        ctx.check(rc in (["Receiver::try_recv"], ["Receiver::try_iter"]) and not snap, "C08.c", "schedule_despawn_reactions:reads-own-receiver",
                  "%s:%d" % (sdr.file, sdr.line), "", "schedule_despawn_reactions reads %s %s" % (rc, snap))
        # ... and the read goes on until the channel is empty: no adapter on the receiver's iterator may end the iteration
        # early (`map_while`, `take_while`, `take(n)`, a short-circuiting `try_for_each` / `find` / `any`), which would leave the
        # notifications behind the first uninteresting one in the channel for some later tree
        EARLY_STOP = ("map_while", "take_while", "take", "scan", "step_by", "nth", "find", "find_map", "position", "any", "all",
                      "try_for_each", "try_fold", "next")
        # (`next` driving a `for` loop is the loop itself; only an explicit single `next()` outside a loop header stops early)
        loop_heads = set()
        try:
            import loops as _LP
            loop_heads = {L_.driver for L_ in _LP.find_loops(sdr) if L_.driver is not None}
        except Exception:
            pass
        stops = [lib.tail(n, 1) for b, t, n, ch in lib.field_method_calls(sdr, "ReactCache", rfield)
                 if ch and lib.tail(n, 1) in EARLY_STOP and not (lib.tail(n, 1) == "next" and b in loop_heads)]
        ctx.check(not stops, "C08.c", "schedule_despawn_reactions:drains-without-early-stop", "%s:%d" % (sdr.file, sdr.line),
                  "no early-stopping adapter on the receiver's iterator", "the despawn channel is read through %s, which can stop before the channel is empty" % stops)
    except mir.AnchorLost as e:
        ctx.fail("C08.c", "anchor-lost:despawn channel", "", str(e))
    try:
        sd = A.method(prog, "ReactCache", "schedule_despawn_reactions")
        ops = [lib.tail(n, 2) for b, t, n, ch in lib.field_method_calls(sd, "ReactCache", "despawn_reactors")]
        ctx.check("HashMap::remove" in ops, "C08.c", "schedule_despawn_reactions:consumes-registration", "%s:%d" % (sd.file, sd.line),
                  "the map entry is removed: at most one reaction per registration", "despawn registrations are not consumed when they fire")
    except mir.AnchorLost as e:
        ctx.fail("C08.c", "anchor-lost:schedule_despawn_reactions", "", str(e))

    # ---- C08.d dispatch loops are exhaustive (shared with C01.b) ----
    nshared = core.adopt(ctx, c01, lambda o: o["rule"] == "C01.b" and ("schedule_removal_reactions" in o["key"] or "schedule_despawn_reactions" in o["key"]), "C08.d")
    ctx.floor("C08.d", nshared, 8, "shared C01.b obligations of the polled schedulers")
    # a scheduled removal / despawn reaction is not merged with another pending one: its command prepares exactly one
    # pending entry and calls the runner exactly once on every path (shared with C02.d / C11.prepared)
    import c02 as _c02, c11 as _c11
    nm = core.adopt(ctx, _c02, lambda o: o["rule"] == "C02.d" and "ReactionCommand" in o["key"] and "one-runner-call-per-path" in o["key"], "C08.f")
    nm += core.adopt(ctx, _c11, lambda o: o["rule"] == "C11.prepared" and "appends-exactly-one-entry" in o["key"], "C08.f")
    nm2 = core.adopt(ctx, _c02, lambda o: o["rule"] == "C02.a" and any(k in o["key"] for k in ("single-disposition", "dispositions=", "abort-only")), "C08.f")
    ctx.floor("C08.f", nm + nm2, 5, "shared one-run-per-scheduled-reaction obligations (C02.a, C02.d, C11.prepared): a scheduled reaction runs, is postponed or is aborted only because its target is gone")
    # a removal / despawn reaction postponed because its reactor is busy is replayed (every postponed entry for the finished
    # system, not just the first; shared with C02.c)
    nm3 = core.adopt(ctx, _c02, lambda o: o["rule"] == "C02.c", "C08.f")
    ctx.floor("C08.f", nm3, 8, "shared replay obligations (C02.c)")
    nk = core.adopt(ctx, c01, lambda o: o["rule"] == "C01.a" and "entity-scoped-dispatch:every-component-kind" in o["key"], "C08.d")
    # 'every reactor registered for it throughout': a removal / despawn registration disappears only through its own
    # revocation (the entry of a component is deleted only when all of its lists are empty; a revoke removes one entry)
    import c06 as _c06
    nk += core.adopt(ctx, _c06, lambda o: o["rule"] == "C06.f" or (o["rule"] == "C06.b" and "one-removal-site" in o["key"]), "C08.d")
    ctx.floor("C08.d", nk, 1, "shared entity-scoped dispatch coverage (C01.a)")

    # the tracker component is never taken off a live entity by the crate: removing it runs its Drop, which reports the
    # (live) entity as despawned
    rm = []
    for body in prog.bodies:
        for b, t, fr in body.iter_calls():
            if fr and any("DespawnTracker" in a for a in fr.get("args", [])) and lib.tail(mir.fn_name(fr), 1) in ("remove", "take", "remove_by_id", "retain", "remove_with_requires", "clear", "try_remove"):
                rm.append((body, b, lib.tail(mir.fn_name(fr), 2)))
    ctx.check(not rm, "C08.c", "DespawnTracker:never-removed-from-a-live-entity", rm[0][0].loc(rm[0][1]) if rm else "",
              "no site removes the DespawnTracker component", "the DespawnTracker is removed from its entity by %s: its Drop sends a despawn notification for an entity that is alive; "
              "a despawn reactor registered before the next poll runs for it" % [(lib.fkey(bd), n_) for bd, _, n_ in rm])
    _one_checker_per_component(ctx, prog)
    _removal_scheduler_shape(ctx, prog)

    # ---- C08.e poll coverage ----
    R = ctx.anchor("C08.e", lambda: A.runner(prog), "runner")
    poll = ctx.anchor("C08.e", lambda: A.free_fn(prog, A.TABLE["poll"]), "poll function")
    if R is not None and poll is not None:
        ctx.touch(R)
        ctx.touch(poll)
        runs = lib.call_blocks(R, lib.ends(A.names(prog)["callback_run"]))
        polls = [b for b in lib.call_blocks(R, lambda n: n == poll.path) if any(R.dominates(r, b) for r in runs)]
        w = lib.path_to_return_avoiding(R, [lib.call_target(R, r) for r in runs], polls)
        ctx.check(bool(polls) and w is None, "C08.e", "runner:polls-after-every-run", R.loc(runs[0]) if runs else "",
                  "every path from callback.run to return passes the removal/despawn poll", "a run path of the runner returns without polling removals and despawns",
                  lib.render_path(R, w) if w else None)
        # the entry pass: before the target's callback is looked up, entities released so far are collected and removals /
        # despawns detected so far are scheduled - on every path, at every depth (a nested run's commands are applied inside
        # its parent's callback, so no exit pass has happened between a despawn it made and the next command it queued)
        takes = lib.call_blocks(R, lib.ends(A.names(prog)["storage_take"]))
        gcs = lib.call_blocks(R, lambda n: n.endswith(A.TABLE["gc"]))
        ok_entry = bool(takes) and all(any(R.dominates(p_, tk) for p_ in lib.call_blocks(R, lambda n: n == poll.path)) and
                                       any(R.dominates(g_, tk) for g_ in gcs) for tk in takes)
        ctx.check(ok_entry, "C08.e", "runner:collects-and-polls-before-every-lookup", R.loc(takes[0]) if takes else "%s:%d" % (R.file, R.line),
                  "garbage collection and the removal/despawn poll dominate the lookup of the target's callback",
                  "the runner can look its target up without having collected released entities and polled removals/despawns first "
                  "(a despawn made earlier in the tree is then reacted to after a later event)")
        # the abort helper: its cleanup may release the last handle of an entity (a payload that owns a signal), so it
        # collects and polls *after* the cleanup on every path (else that despawn is reacted to in a later tree)
        try:
            ab = A.abort_helper(prog)
            ctx.touch(ab)
            cl_runs = lib.call_blocks(ab, lib.ends(A.names(prog)["cleanup_run"])) if A.names(prog).get("cleanup_run") else \
                [b for b, t, fr in ab.iter_calls() if fr and lib.tail(mir.fn_name(fr), 2).endswith("Cleanup::run")]
            ab_polls = lib.call_blocks(ab, lambda n: n == poll.path)
            ab_gcs = lib.call_blocks(ab, lambda n: n.endswith(A.TABLE["gc"]))
            wa = lib.path_to_return_avoiding(ab, [lib.call_target(ab, c_) for c_ in cl_runs], ab_polls) if cl_runs else [0]
            wg = lib.path_to_return_avoiding(ab, [lib.call_target(ab, c_) for c_ in cl_runs], ab_gcs) if cl_runs else [0]
            ctx.check(bool(cl_runs) and bool(ab_polls) and bool(ab_gcs) and wa is None and wg is None, "C08.e", "abort-helper:collects-and-polls-after-cleanup",
                      "%s:%d" % (ab.file, ab.line), "every path from the cleanup to return passes garbage collection and the removal/despawn poll",
                      "the abort helper can return after the cleanup without collecting released entities and polling removals/despawns: a despawn "
                      "caused by releasing the aborted command's payload is not reacted to in this tree")
        except mir.AnchorLost as e:
            ctx.fail("C08.e", "anchor-lost:abort-helper", "", str(e))
        # ... and a command for a busy target is postponed only after the entry poll (reactions detected by the poll for the
        # same busy target are postponed first: they were caused first)
        pushes = lib.call_blocks(R, lib.ends(A.names(prog)["queue_push"])) if A.names(prog).get("queue_push") else []
        if pushes:
            okp_ = all(any(R.dominates(p_, pb) for p_ in lib.call_blocks(R, lambda n: n == poll.path)) for pb in pushes)
            ctx.check(okp_, "C08.e", "runner:polls-before-postponing", R.loc(pushes[0]),
                      "the removal/despawn poll dominates the postponement of a command for a busy target",
                      "the runner postpones a command for a busy target before polling removals/despawns: a reaction to a despawn made "
                      "earlier is then delivered after the later command")
        # ... and after the finished system was put back (or dropped): reactions polled here may target that system, and
        # dropping its callback may release signals whose despawns must be seen in this tree
        inserts = lib.call_blocks(R, lib.ends(A.names(prog)["storage_insert"]))
        drops = [b for b, t, fr in R.iter_calls() if fr and lib.tail(mir.fn_name(fr), 2) == "mem::drop" and any(R.dominates(r, b) for r in runs)
                 and any("SystemCommandCallback" in a for a in fr.get("args", []))]
        starts = [lib.call_target(R, b) for b in inserts + drops]
        w2 = lib.path_to_return_avoiding(R, starts, polls)
        ctx.check(bool(starts) and w2 is None, "C08.e", "runner:polls-after-reinsertion", R.loc(inserts[0]) if inserts else "%s:%d" % (R.file, R.line),
                  "every path from the re-insertion (or drop) of the callback to return passes the removal/despawn poll (%d+%d sites)" % (len(inserts), len(drops)),
                  "the runner does not poll removals/despawns after the finished system was re-inserted or dropped: polled reactions run while the system still looks busy, "
                  "and despawns caused by dropping its callback are missed in this tree", lib.render_path(R, w2) if w2 else None)
        # poll calls both schedulers then flushes
        sch = {}
        # the body handed to resource_scope: a closure of poll, or a crate function passed by name
        scoped = list(prog.closures_of(poll))
        for b, t, fr in poll.iter_calls():
            if fr and lib.tail(mir.fn_name(fr), 1) == "resource_scope":
                for a in t["args"]:
                    for o in origins(poll, a):
                        if o[0] == "fnitem":
                            fb_ = prog.by_path.get(o[1]) or (prog.find(o[1])[0] if prog.find(o[1]) else None)
                            if fb_ is not None and fb_ not in scoped:
                                scoped.append(fb_)
        for bd in [poll] + scoped:
            ctx.touch(bd)
            for b, t, fr in bd.iter_calls():
                if fr and lib.tail(mir.fn_name(fr), 1) in ("schedule_removal_reactions", "schedule_despawn_reactions"):
                    sch[lib.tail(mir.fn_name(fr), 1)] = (bd, b)
        flush = [b for b, t, fr in poll.iter_calls() if fr and lib.tail(mir.fn_name(fr), 2) == "World::flush"]
        scope = [b for b, t, fr in poll.iter_calls() if fr and lib.tail(mir.fn_name(fr), 1) in ("resource_scope",)]
        okp = len(sch) == 2 and bool(flush)
        if okp and scope:
            okp = all(poll.dominates(s, f) for s in scope for f in flush)
        for nm, (bd, b) in sch.items():
            c_, _, _ = lib.event_counts(bd, [b])
            okp = okp and c_ == {1}
        wf = lib.path_to_return_avoiding(poll, [0], flush)
        ctx.check(okp and wf is None, "C08.e", "poll:both-schedulers-then-flush", "%s:%d" % (poll.file, poll.line),
                  "poll calls schedule_removal_reactions and schedule_despawn_reactions once each, then World::flush on every path",
                  "the poll function does not call both schedulers and then flush")
    try:
        build = A.trait_method(prog, "ReactPlugin", "Plugin", "build")
        ctx.touch(build)
        after = [fr for b, t, fr in build.iter_calls() if fr and lib.tail(mir.fn_name(fr), 1) == "after"]
        adds = [fr for b, t, fr in build.iter_calls() if fr and lib.tail(mir.fn_name(fr), 2) == "App::add_systems"]
        oka = any(poll is not None and poll.path.split("::")[-1] in a0 and any(x.endswith("AutoDespawnSet") for x in fr.get("args", [])) for fr in after for a0 in fr.get("args", [])[:1])
        okl = any(any(x.endswith("main_schedule::Last") for x in fr.get("args", [])) for fr in adds)
        ctx.check(oka and okl, "C08.e", "ReactPlugin::build:poll-in-Last-after-AutoDespawnSet", "%s:%d" % (build.file, build.line),
                  "poll is added to Last with .after(AutoDespawnSet)", "ReactPlugin does not schedule the poll in Last after AutoDespawnSet (auto-despawned entities' removals would wait a frame)")
        sad = A.trait_method(prog, "App", "AutoDespawnAppExt", "setup_auto_despawn")
        ctx.touch(sad)
        inset = [fr for b, t, fr in sad.iter_calls() if fr and lib.tail(mir.fn_name(fr), 1) == "in_set"]
        adds2 = [fr for b, t, fr in sad.iter_calls() if fr and lib.tail(mir.fn_name(fr), 2) == "App::add_systems"]
        ok2 = any("garbage_collect_entities" in " ".join(fr.get("args", [])) and any(x.endswith("AutoDespawnSet") for x in fr.get("args", [])) for fr in inset) \
            and any(any(x.endswith("main_schedule::Last") for x in fr.get("args", [])) for fr in adds2)
        ctx.check(ok2, "C08.e", "setup_auto_despawn:collector-in-AutoDespawnSet-in-Last", "%s:%d" % (sad.file, sad.line),
                  "garbage_collect_entities.in_set(AutoDespawnSet) in Last", "the collector is not registered in AutoDespawnSet in Last")
    except mir.AnchorLost as e:
        ctx.fail("C08.e", "anchor-lost:plugin", "", str(e))


def entity_of(c, op):
    """origin sets of the entity an EntityWorldMut receiver was looked up with"""
    out = []
    for o in origins(c, op):
        if o[0] == "call":
            t = c.blocks[o[1]]["term"]
            fr = op_fn(t["func"])
            if fr and lib.tail(mir.fn_name(fr), 2) in ("World::get_entity_mut", "World::entity_mut", "Commands::entity", "Commands::get_entity"):
                out.append(origins(c, t["args"][1]))
                continue
        out.append({tuple(o)})
    return out


def _one_checker_per_component(ctx, prog):
    """C08.a: at most one removal checker (one RemovedComponents cursor) per component type - a second checker would report
    every removal a second time. Every function that appends a checker does so behind the `not yet tracked` arm of a
    membership test on a set, and records the component in that same set on every path that appends."""
    n = 0
    for body in prog.bodies:
        pushes = []
        for b, t, fr in body.iter_calls():
            if fr and lib.tail(mir.fn_name(fr), 1) in ("push", "push_back", "insert") and len(t["args"]) > 1:
                ty = body.local_ty(op_place(t["args"][1])["l"]) if op_place(t["args"][1]) and not op_place(t["args"][1])["p"] else ""
                if ty.endswith("::RemovalChecker"):
                    pushes.append(b)
        if not pushes:
            continue
        ctx.touch(body)
        fk = lib.fkey(body)
        # a map keyed by the component's TypeId holds at most one checker per component by construction
        by_map = [pb for pb in pushes if any(x in mir.fn_name(op_fn(body.blocks[pb]["term"]["func"])) for x in ("HashMap", "BTreeMap", "Entry", "hash::map"))]
        for pb in by_map:
            n += 1
            ctx.ok("C08.a", "%s:one-checker-per-component" % fk, body.loc(pb), "checkers are stored in a map keyed per component")
        pushes = [pb for pb in pushes if pb not in by_map]
        sets = {}
        for b, t, fr in body.iter_calls():
            if fr and lib.tail(mir.fn_name(fr), 1) in ("contains", "insert", "contains_key") and t["args"]:
                ch = lib.receiver_chains(body, t["args"][0])
                for (f, chain) in ch:
                    if f and "Set" in str(fr.get("path", "")) + str(fr.get("resolved", "")):
                        sets.setdefault(f[1], {"contains": [], "insert": []})["contains" if "contains" in lib.tail(mir.fn_name(fr), 1) else "insert"].append((b, t))
        for pb in pushes:
            n += 1
            ok = False
            for fld, ops in sets.items():
                for (cb, ct) in ops["contains"]:
                    arms = lib.bool_arms(body, cb)
                    if not arms:
                        continue
                    absent_t = arms[0][2]
                    ins = [ib for ib, it in ops["insert"] if lib.loops_key(body, it["args"][1]) == lib.loops_key(body, ct["args"][1])] if hasattr(lib, "loops_key") else [ib for ib, it in ops["insert"]]
                    if body.dominates(absent_t, pb) and ins and (any(body.dominates(ib, pb) for ib in ins) or
                                                               lib.path_to_return_avoiding(body, [lib.call_target(body, pb)], ins) is None):
                        ok = True
            if not ok:
                for fld, ops in sets.items():
                    for (ib, it) in ops["insert"]:
                        arms = lib.bool_arms(body, ib)
                        if arms and body.dominates(arms[0][1], pb):
                            ok = True     # `if !set.insert(key) { return }`: the newly-inserted arm guards the push and records the key
            ctx.check(ok, "C08.a", "%s:one-checker-per-component" % fk, body.loc(pb),
                      "a removal checker is added only for a component not yet in the tracked set, and the component is recorded on that path",
                      "removal checkers can be added more than once for one component (not guarded by a membership test that is updated on the same path): "
                      "every removal would be reported once per checker")
    ctx.floor("C08.a", n, 1, "sites that add a removal checker")


def _removal_scheduler_shape(ctx, prog):
    """C08.d: the polled removal scheduler asks every checker (each iteration calls the element's collector) and dispatches
    what that call returned, to the entity-scoped reactors of each reported entity and to the type-wide list"""
    try:
        m = A.method(prog, "ReactCache", "schedule_removal_reactions")
    except mir.AnchorLost as e:
        ctx.fail("C08.d", "anchor-lost:schedule_removal_reactions", "", str(e))
        return
    ctx.touch(m)
    loops = LP.find_loops(m)
    outer = [L for L in loops if L.driver is not None and not any(L.header in L2.blocks and L2 is not L for L2 in loops)]
    ok_call = ok_buf = False
    for L in outer:
        # the collector call: a call inside the loop whose receiver derives from the element produced by the loop driver
        calls = []
        for b, t, fr in m.iter_calls(L.blocks):
            if fr is None or not t["args"] or b == L.driver:
                continue
            if lib.originates_from_call(m, t["args"][0], L.driver) and "World" in " ".join(m.local_ty(op_place(a)["l"]) for a in t["args"] if op_place(a) and not op_place(a)["p"]):
                calls.append(b)
        inner = [L2 for L2 in loops if L2 is not L and L2.header in L.blocks and L2.driver is not None]
        for c in calls:
            if all(m.dominates(c, L2.header) for L2 in inner) and inner:
                ok_call = True
                # the entities iterated are the ones the collector returned
                for L2 in inner:
                    d = m.blocks[L2.driver]["term"]
                    if d["args"] and _derives_from_call(m, d["args"][0], c):
                        ok_buf = True
    # ... all of them: nothing edits the returned buffer before it is dispatched (a removal that is filtered out is lost,
    # the checker's cursor has already moved past it)
    edits = []
    for L in outer:
        for b, t, fr in m.iter_calls(L.blocks):
            if fr is None or lib.tail(mir.fn_name(fr), 1) in ("len", "is_empty", "iter", "deref", "into_iter", "next", "drain", "clear", "as_slice", "call", "get_mut", "queue", "commands"):
                continue
            for a in t["args"]:
                p = op_place(a)
                if p is None or p["p"]:
                    continue
                # follow `&mut (*&mut buf)` reborrow chains back to the borrowed local
                cur, hops = p["l"], 0
                while hops < 8:
                    ds = [d for d in m.defs.get(cur, []) if d[0] == "stmt" and (("ref" in d[3] and d[3].get("mut")) or "use" in d[3])]
                    if len(ds) != 1:
                        break
                    if "use" in ds[0][3]:
                        q2 = op_place(ds[0][3]["use"])       # a moved reference (parameter binding of an inlined helper)
                        if q2 is None or q2["p"]:
                            break
                        cur, hops = q2["l"], hops + 1
                        continue
                    q = ds[0][3]["ref"]
                    if not q["p"]:
                        if m.local_ty(q["l"]).startswith("alloc::vec::Vec<bevy_ecs::entity::Entity"):
                            edits.append((b, lib.tail(mir.fn_name(fr), 2)))
                        break
                    if q["p"] == ["deref"]:
                        cur, hops = q["l"], hops + 1
                        continue
                    break
    ctx.check(not edits, "C08.d", "schedule_removal_reactions:returned-entities-not-filtered", "%s:%d" % (m.file, m.line),
              "the entities returned by the collector reach the dispatch loop unedited",
              "the buffer of removed entities is edited before it is dispatched (%s): a removal that is filtered out is never reacted to" % [e[1] for e in edits])
    ctx.check(ok_call, "C08.d", "schedule_removal_reactions:every-checker-is-polled", "%s:%d" % (m.file, m.line),
              "each iteration over the removal checkers calls that checker's collector before dispatching",
              "the loop over the removal checkers does not call the checker's collector on every iteration (removals are never detected)")
    ctx.check(ok_buf, "C08.d", "schedule_removal_reactions:dispatches-what-the-checker-returned", "%s:%d" % (m.file, m.line),
              "the dispatch loop iterates the entities returned by the collector call of the same iteration",
              "the entities dispatched are not the ones returned by the checker's collector")


def _derives_from_call(body, op, target, depth=0):
    """the operand is the result of call `target`, possibly through a chain of adaptor calls on their first argument
    (`buffer.iter()`, `into_iter`, `&mut iter`)"""
    if depth > 8:
        return False
    for o in origins(body, op):
        if o[0] == "call":
            if o[1] == target:
                return True
            t = body.blocks[o[1]]["term"]
            if t["args"] and _derives_from_call(body, t["args"][0], target, depth + 1):
                return True
    return False

"""C12 - Events sent to one system from one run arrive in the order sent.
Decides that every container between 'sent' and 'seen' is FIFO (DESIGN.md section 4, C12)."""
import mir
from mir import op_fn, origins
import lib
import tables as T
import anchors as A

EXPLANATION = (
    "Every container that holds a delivery between the moment it is sent and the moment the target sees it is checked to "
    "be first-in first-out by classifying every operation applied to it (frozen table of std/smallvec methods): the "
    "pending-metadata lists of the access trackers (append at the back in prepare; first-match search and "
    "order-preserving removal in start), the postponed-command queue (push at the back, pop at the front, whole-queue "
    "detach/re-attach), and the replay traversal (in-order retain). An order-destroying or unclassified operation on "
    "one of these containers is reported with the call site.")

NOT_DECIDED = [
    "'each with its own data' when deliveries of different kinds to one system are pending at once (that clause is C03's claim-key finding)",
    "the order in which Bevy applies queued commands (FIFO command queue, trusted)",
]


# operations whose result is a value detached from the container (what follows in a receiver chain is not a container op)
SCALAR_RESULT = {"position", "rposition", "any", "all", "contains", "len", "is_empty", "count"}


def container_ops(ctx, rule, body, adt, field, allowed, must_have, tkey, modelled=False):
    """classify every call on <adt>.<field> inside body; with modelled=True the content effect of the method has been
    decided by the sequence algebra (seqalg), so operations outside the table are not inconclusive"""
    ops = lib.field_method_calls(body, adt, field)
    ctx.touch(body, calls=len(ops))
    classes = []
    for b, t, name, chain in ops:
        detached = False
        for n in chain + [name]:
            if detached:
                break     # operates on an index / bool / count computed from the list, not on the list
            if lib.tail(n, 1) in SCALAR_RESULT:
                detached = True
            sn = mir.strip_generics(n)
            cl = T.classify(n)
            short = lib.tail(n, 2)
            if cl is None:
                if n is name and short.split("::")[-1] in ("deref", "deref_mut", "iter", "len", "is_empty", "borrow", "borrow_mut", "as_mut", "as_ref", "next", "enumerate", "into_iter"):
                    cl = "lookup"
                elif mir.strip_generics(n).startswith(("tracing_core::field::", "tracing::field::", "core::fmt::")):
                    cl = "lookup"       # the list is only formatted for a log line
                elif modelled:
                    continue
                else:
                    ctx.fail(rule, "%s:unclassified-callee:%s" % (tkey, short), body.loc(b),
                             "operation %s on %s.%s is not in the container-order table (inconclusive)" % (sn, adt, field))
                    continue
            classes.append(cl)
            if cl == "order-destroying":
                ctx.fail(rule, "%s:%s" % (tkey, short), body.loc(b),
                         "%s on %s.%s does not preserve arrival order" % (sn, adt, field))
            elif cl not in allowed and modelled:
                continue
            elif cl not in allowed:
                ctx.fail(rule, "%s:unexpected-%s:%s" % (tkey, cl, short), body.loc(b),
                         "%s (%s) is not an operation this function may apply to %s.%s" % (sn, cl, adt, field))
            else:
                ctx.ok(rule, "%s:%s" % (tkey, short), body.loc(b), "%s is %s" % (sn, cl))
    if "first-match-search" in must_have and "first-match-search" not in classes and lib.loop_first_match(body, adt, field):
        classes.append("first-match-search")     # explicit `for .. enumerate() { if eq { .. break } }` form
    for m in ([] if modelled else must_have):
        ctx.check(m in classes, rule, "%s:has-%s" % (tkey, m), "%s:%d" % (body.file, body.line),
                  "%s applies a %s operation to %s.%s" % (tkey, m, adt, field),
                  "%s has no %s operation on %s.%s" % (tkey, m, adt, field))
    return classes


def check(ctx):
    ctx.explanation = EXPLANATION
    ctx.not_decided = NOT_DECIDED
    prog = ctx.prog
    trackers = ctx.anchor("C12.anchor", lambda: A.tracker_types(prog), "tracker types")
    if not trackers:
        return
    ctx.floor("C12.a", len(trackers), 4, "access tracker types")
    for ty in sorted(trackers):
        tname = ty.split("::")[-1]
        adt = prog.adts.get(ty)
        if adt is None:
            ctx.fail("C12.a", "anchor-lost:%s" % tname, "", "tracker ADT not found")
            continue
        # the pending list: the field `prepare` appends to
        try:
            prep = A.method(prog, tname, "prepare")
            start = A.method(prog, tname, "start")
        except mir.AnchorLost as e:
            ctx.fail("C12.a", "anchor-lost:%s::prepare/start" % tname, "", str(e))
            continue
        pend_fields = set()
        for b, t, fr in prep.iter_calls():
            if fr is None or not t["args"]:
                continue
            r = lib.receiver_chain(prep, t["args"][0])
            if r and r[0][0] == ty:
                pend_fields.add(r[0][1])
        if len(pend_fields) != 1:
            ctx.fail("C12.a", "anchor-lost:%s::pending-list" % tname, "%s:%d" % (prep.file, prep.line),
                     "prepare touches %d list fields %s" % (len(pend_fields), sorted(pend_fields)))
            continue
        field = pend_fields.pop()
        container_ops(ctx, "C12.a", prep, ty, field, {"append-ordered", "lookup"}, ["append-ordered"], "%s::prepare" % tname)
        container_ops(ctx, "C12.a", start, ty, field, {"first-match-search", "order-preserving-remove", "lookup"},
                      ["first-match-search", "order-preserving-remove"], "%s::start" % tname)
        # the entry removed is the one the first-match search found: the index given to the removal comes from the search
        srch = [b for b, t, n, ch in lib.field_method_calls(start, ty, field) if T.classify(n) == "first-match-search"]
        for b, t, n, ch in lib.field_method_calls(start, ty, field):
            if T.classify(n) in ("order-preserving-remove", "order-destroying") and len(t["args"]) > 1 and srch:
                os_ = origins(start, t["args"][1])
                ok_idx = bool(os_) and all(o[0] == "call" and o[1] in srch for o in os_)
                ctx.check(ok_idx, "C12.a", "%s::start:claims-the-first-match" % tname, start.loc(b),
                          "the index removed is the result of the first-match search",
                          "the index removed from the pending list does not (only) come from the first-match search: %s - a later entry of the same system can be claimed before an earlier one" % lib.origin_str(os_))
        # closures inside start (the search predicate) must not touch the list
        # no other method of the tracker mutates the pending list
        for m in A.methods_of(prog, tname):
            if m.path in (prep.path, start.path):
                continue
            ops = lib.field_method_calls(m, ty, field)
            writes = [w for w in lib.field_writes(m, ty) if w[3] == field]
            ctx.touch(m)
            ctx.check(not ops and not writes, "C12.a", "%s::%s:does-not-touch-pending-list" % (tname, m.raw.get("name")),
                      "%s:%d" % (m.file, m.line), "does not touch %s" % field,
                      "%s::%s manipulates the pending list %s outside prepare/start" % (tname, m.raw.get("name"), field))
        ctx.sample({"tracker": tname, "pending_list": field, "start": "%s:%d" % (start.file, start.line)})

    # ---- C12.b postponed queue is FIFO ----
    NM = A.names(prog)
    qname = NM["queue_type"]
    qadt = [p for p in prog.adts if p.endswith("::" + qname)]
    if not qadt:
        ctx.fail("C12.b", "anchor-lost:%s" % qname, "", "queue type not found")
        return
    qty = qadt[0]
    qfield = NM["queue_field"]
    # expectations of the operation table (fallback when the sequence algebra is inconclusive), by signature role
    spec_by_role = {
        "push": ({"append-ordered"}, ["append-ordered"]),
        "pop": ({"order-preserving-remove"}, ["order-preserving-remove"]),
        "attach": ({"append-ordered", "lookup"}, ["append-ordered"]),
        "detach": ({"lookup"}, []),
    }
    import seqalg
    spec = {}
    for m_ in A.methods_of(prog, qname):
        spec[m_.raw.get("name")] = spec_by_role.get(seqalg.role_of(m_), ({"append-ordered", "order-preserving-remove", "lookup"}, []))
    methods = {m.raw.get("name"): m for m in A.methods_of(prog, qname)}
    ctx.floor("C12.b", len(methods), 4, "queue methods")
    import seqalg
    qfacts = prog.adts[qty]
    for name, m in sorted(methods.items()):
        allowed, must = spec.get(name, ({"append-ordered", "order-preserving-remove", "lookup"}, []))
        # content contract of the method's role, decided by symbolic execution of every path (rules/seqalg.py)
        res = seqalg.analyse_method(prog, m, qfacts)
        contract = seqalg.check_contract(res, qfield)
        conclusive = bool(contract) and not any(k.startswith(("unclassified-callee", "inconclusive")) for k, _, _ in contract)
        ctx.touch(m, states=res.get("explored", 0))
        agg = {}
        for k, ok, detail in contract:
            cur = agg.get(k)
            if cur is None or (cur[0] and not ok):
                agg[k] = (ok, detail)
        for k, (ok, detail) in sorted(agg.items()):
            if k.startswith(("unclassified-callee", "inconclusive")) :
                continue     # reported by the operation table below
            ctx.check(ok, "C12.b", "%s::%s:%s" % (qname, name, k), "%s:%d" % (m.file, m.line), "role %s: %s" % (res["role"], detail),
                      "role %s: %s" % (res["role"], detail))
        container_ops(ctx, "C12.b", m, qty, qfield, allowed, must, "%s::%s" % (qname, name), modelled=conclusive)
        if not conclusive:
            ctx.notes.append("sequence algebra inconclusive for %s::%s (%s): falling back to the operation table" % (qname, name, [k for k, _, _ in contract][:3]))
        role = res["role"]
        if conclusive or role not in ("pop", "attach"):
            continue
        names = [mir.strip_generics(n) for _, _, n, _ in lib.field_method_calls(m, qty, qfield)]
        if role == "pop":
            ctx.check(any(n.endswith("VecDeque::pop_front") for n in names), "C12.b", "%s::%s:pops-front" % (qname, name),
                      "%s:%d" % (m.file, m.line), "removes from the front",
                      "pop_front does not remove from the front of the queue: %s" % names)
        if role == "attach":
            ok = False
            for b, t, n, chain in lib.field_method_calls(m, qty, qfield):
                if mir.strip_generics(n).endswith("VecDeque::append") and len(t["args"]) > 1:
                    ok = lib.originates_from_arg(m, t["args"][1], 2)
            ctx.check(ok, "C12.b", "%s::%s:appends-argument-behind-existing" % (qname, name), "%s:%d" % (m.file, m.line),
                      "existing commands stay in front of the appended ones",
                      "append does not append its argument behind the existing queue")
    # ---- C12.c replay visits front to back, and postponing pushes at the back ----
    R = ctx.anchor("C12.c", lambda: A.runner(prog), "runner")
    if R is None:
        return
    ctx.touch(R)
    removes = lib.call_blocks(R, lambda n: lib.tail(n, 2) == NM["queue_detach"])
    trav = []
    for rb in removes:
        for b, t, fr in R.iter_calls():
            if fr is None or not t["args"]:
                continue
            if lib.originates_from_call(R, t["args"][0], rb):
                n = mir.fn_name(fr)
                if lib.tail(n, 2).startswith(qname):
                    continue
                trav.append((b, n))
    ctx.floor("C12.c", len(trav), 1, "traversal of the detached queue")
    for b, n in trav:
        sn = mir.strip_generics(n)
        cl = T.classify(n)
        if cl in ("order-preserving-remove", "lookup"):
            ctx.ok("C12.c", "replay:%s" % lib.tail(n, 2), R.loc(b), "%s visits front to back" % sn)
        elif cl == "order-destroying":
            ctx.fail("C12.c", "replay:%s" % lib.tail(n, 2), R.loc(b), "%s does not visit the postponed commands in arrival order" % sn)
        elif cl == "append-ordered" and _rotation_replay(ctx):
            # one full turn of the queue (pop_front, then push_back of the popped element or run): the order argument is the
            # rotation rule of C02.c, whose obligations this property adopts
            ctx.ok("C12.c", "replay:%s" % lib.tail(n, 2), R.loc(b), "%s re-appends the popped element in a full turn of the queue (C02.c rotation form)" % sn)
        else:
            ctx.fail("C12.c", "replay:unclassified-callee:%s" % lib.tail(n, 2), R.loc(b), "%s on the detached queue is not classified" % sn)
    # the postponing site uses the queue's push
    pushes = lib.call_blocks(R, lambda n: lib.tail(n, 2) == NM["queue_push"])
    _dispatch_order(ctx)
    others = [b for b, t, fr in R.iter_calls() if fr and lib.tail(mir.fn_name(fr), 2).startswith(qname + "::")
              and lib.tail(mir.fn_name(fr), 2) not in (NM["queue_push"], NM["queue_pop"], NM["queue_attach"], NM["queue_detach"])]
    ctx.check(len(pushes) >= 1 and not others, "C12.c", "runner:postpones-with-push-back", "%s:%d" % (R.file, R.line),
              "runner uses only push/pop_front/append/remove on the queue", "runner uses another queue operation: %s" % [R.loc(b) for b in others])


def _rotation_replay(ctx):
    """C02.c recognised (and discharged) the rotation form of the replay on this tree"""
    import core, c02
    sub = core.sub_obligations(ctx, c02)
    rot = [o for o in sub.obligations if o["rule"] == "C02.c" and "::replay:" in o["key"]]
    return bool(rot) and all(o["ok"] for o in rot) and any("popped from the front" in (o.get("detail") or "") for o in rot)


def _dispatch_order(ctx):
    """C12.d: the dispatch loops that turn one sent event into per-listener commands iterate in registration order and
    append at the back (shared with C09.a)"""
    import core, c09
    import c08
    np_ = core.adopt(ctx, c08, lambda o: o["rule"] == "C08.e" and ("poll:" in o["key"] or "runner:" in o["key"]), "C12.e")
    ctx.floor("C12.e", np_, 1, "shared poll obligation (C08.e): polled reactions are flushed where they are detected, not behind later deliveries")
    n = core.adopt(ctx, c09, lambda o: o["rule"] == "C09.a" and ("iterates-in-registration-order" in o["key"] or "queues-at-back" in o["key"]), "C12.d")
    ctx.floor("C12.d", n, 15, "shared dispatch-order obligations (C09.a)")
    import c02
    n2 = core.adopt(ctx, c02, lambda o: o["rule"] == "C02.c" and ("::replay:" in o["key"] or "replay-present" in o["key"] or "replay-between" in o["key"]), "C12.c")
    ctx.floor("C12.c", n2, 6, "shared replay obligations (C02.c): postponed deliveries are replayed in place, in queue order")
    # 'each with its own data': a delivery claims the first pending entry of its reactor, so every entry a command prepares must
    # be claimed by that command's own setup hook and released by its cleanup hook - an entry left behind shifts the data of
    # every later delivery to that reactor (shared with C03.a)
    import c03
    n3 = core.adopt(ctx, c03, lambda o: o["rule"] == "C03.a" and ("prepare=start=end" in o["key"] or "arm-calls-the-runner" in o["key"]), "C12.f")
    ctx.floor("C12.f", n3, 7, "shared prepare/claim/release pairing obligations (C03.a)")
    # a delivery is postponed only for a busy target below the root and otherwise run in-line, after the runner's entry pass
    # flushed what was detected before it (a postponement that skips the entry pass lets an earlier despawn / removal reaction
    # overtake or fall behind later events to the same target; shared with C02.a / C08.e)
    n4 = core.adopt(ctx, c02, lambda o: o["rule"] == "C02.a" and any(k in o["key"] for k in ("postpone-only-busy-nonroot", "dispositions=", "single-disposition", "abort-only")), "C12.g")
    n4 += core.adopt(ctx, c08, lambda o: o["rule"] == "C08.e" and "polls-before-postponing" in o["key"], "C12.g")
    ctx.floor("C12.g", n4, 2, "shared disposition obligations (C02.a, C08.e)")
    # every delivery gets a pending entry of its own: `prepare` appends exactly one entry per command - an "idempotent" prepare
    # that skips an entry equal to a pending one leaves the second of two identical deliveries without data (shared with
    # C11.prepared)
    import c11 as _c11
    n5 = core.adopt(ctx, _c11, lambda o: o["rule"] == "C11.prepared" and "appends-exactly-one-entry" in o["key"] and "<=" not in o["key"], "C12.h")
    ctx.floor("C12.h", n5, 4, "shared one-entry-per-prepare obligations (C11.prepared)")

"""E4 - configured clippy (disallowed-methods) as a cross-reference for the deny-list rules of C18 and C07.
A site clippy reports that the MIR rules did not see (or vice versa) is a checker error, not a verdict."""
import os
import re
import subprocess

import facts as F
import mir
import lib

METHODS = {
    "Commands::entity": "bevy_ecs::system::commands::Commands::entity", "World::entity": "bevy_ecs::world::World::entity",
    "World::entity_mut": "bevy_ecs::world::World::entity_mut", "EntityCommands::insert": "bevy_ecs::system::commands::EntityCommands::insert",
    "Query::single": "bevy_ecs::system::query::Query::single", "Query::single_mut": "bevy_ecs::system::query::Query::single_mut",
    "mem::forget": "core::mem::forget", "Box::leak": "alloc::boxed::Box::leak", "Arc::into_raw": "alloc::sync::Arc::into_raw",
    "ManuallyDrop::new": "core::mem::ManuallyDrop::new",
}
_CACHE = {}


def clippy_sites(repo=None):
    repo = repo or F.REPO
    if repo in _CACHE:
        return _CACHE[repo]
    env = dict(os.environ, CLIPPY_CONF_DIR=os.path.join(F.VERIF, "clippy"), CARGO_TARGET_DIR=os.path.join(F.WORK, "target-clippy"),
               CARGO_NET_OFFLINE="true")
    fp = os.path.join(env["CARGO_TARGET_DIR"], "debug", ".fingerprint")
    if os.path.isdir(fp):
        import shutil
        for d in os.listdir(fp):
            if d.startswith("bevy_cobweb-"):
                shutil.rmtree(os.path.join(fp, d), ignore_errors=True)
    r = subprocess.run(["cargo", "+nightly", "clippy", "--offline", "--lib", "-p", "bevy_cobweb", "--", "-A", "clippy::all", "-W", "clippy::disallowed_methods"],
                       cwd=repo, env=env, capture_output=True, text=True)
    if r.returncode != 0:
        _CACHE[repo] = (None, r.stderr[-2000:])
        return _CACHE[repo]
    sites = {}
    cur = None
    for line in r.stderr.splitlines():
        m = re.search(r"use of a disallowed method `([^`]+)`", line)
        if m:
            cur = m.group(1)
            continue
        m = re.match(r"\s+--> (src/[^:]+):(\d+):\d+", line)
        if m and cur:
            sites.setdefault(cur, set()).add((m.group(1), int(m.group(2))))
            cur = None
    _CACHE[repo] = (sites, "")
    return _CACHE[repo]


def mir_sites(prog):
    out = {}
    for body in prog.bodies:
        for b, t, fr in body.iter_calls():
            if fr is None:
                continue
            n2 = lib.tail(mir.fn_name(fr), 2)
            if n2 in METHODS and not t.get("exp"):
                out.setdefault(METHODS[n2], set()).add((body.file, t.get("fn_line") or t["line"]))
    return out


def apply(ctx):
    sites, err = clippy_sites(ctx.meta.get("repo"))
    if sites is None:
        print("CLIPPY-FAILED\n" + err)
        return 2
    ms = mir_sites(ctx.prog)
    rc = 0
    for path in sorted(set(sites) | set(ms)):
        a, b = sites.get(path, set()), ms.get(path, set())
        only_clippy = sorted(a - b)
        only_mir = sorted(b - a)
        if only_clippy or only_mir:
            print("E4-DISAGREEMENT %s clippy-only=%s mir-only=%s" % (path, only_clippy, only_mir))
            rc = 2
        else:
            ctx.ok("E4.clippy-xref", path.split("::")[-2] + "::" + path.split("::")[-1], "", "%d site(s) enumerated identically by clippy and the MIR rules" % len(a))
    ctx.notes.append("E4 clippy cross-reference: %d methods with sites, %d total sites" % (len(sites), sum(len(v) for v in sites.values())))
    return rc

"""E3 - compile-fail / compile-pass witnesses (thorough tier). Runs `cargo +nightly test --doc --offline` on a
generated copy of /verif/witness whose path dependency points at the repository being analysed."""
import os
import re
import shutil
import subprocess

import facts as F

WITNESS_PROPS = {
    "W01": ["C04", "C03"], "W02": ["C04", "C03"], "W10": ["C04", "C05"], "W03": ["C13", "C04"], "W04": ["C02", "C09"],
    "W05": ["C10"], "W06": ["C10"], "W07": ["C10", "C07"], "W08": ["C13"], "W09": ["C16", "C06"], "W11": ["C03", "C14"],
}
_CACHE = {}


def run_all(repo=None):
    repo = repo or F.REPO
    if repo in _CACHE:
        return _CACHE[repo]
    src = os.path.join(F.VERIF, "witness")
    rid = "repo" if os.path.abspath(repo) == "/repo" else "scratch"
    dst = os.path.join(F.WORK, "witness-" + rid)
    shutil.rmtree(dst, ignore_errors=True)
    shutil.copytree(src, dst, ignore=shutil.ignore_patterns("target", "Cargo.lock"))
    toml = open(os.path.join(dst, "Cargo.toml")).read().replace('path = "/repo"', 'path = "%s"' % repo)
    open(os.path.join(dst, "Cargo.toml"), "w").write(toml)
    lock = os.path.join(repo, "Cargo.lock")
    if os.path.exists(lock):
        shutil.copy(lock, os.path.join(dst, "Cargo.lock"))
    env = dict(os.environ, CARGO_TARGET_DIR=os.path.join(F.WORK, "target-witness"), CARGO_NET_OFFLINE="true")
    r = subprocess.run(["cargo", "+nightly", "test", "--doc", "--offline"], cwd=dst, env=env, capture_output=True, text=True)
    out = r.stdout + "\n" + r.stderr
    res = {}
    for m in re.finditer(r"test src/lib\.rs - (W\d+)\w* \(line (\d+)\)( - compile fail)? \.\.\. (ok|FAILED)", out):
        res.setdefault(m.group(1), []).append((int(m.group(2)), bool(m.group(3)), m.group(4) == "ok"))
    if not res:
        _CACHE[repo] = (None, out[-3000:])
    else:
        _CACHE[repo] = (res, out[-3000:])
    return _CACHE[repo]


def apply(ctx, prop):
    """adds one obligation per witness doc-test that serves `prop`; returns 2 when the witnesses could not be built"""
    res, tail = run_all(ctx.meta.get("repo"))
    if res is None:
        print("WITNESS-BUILD-FAILED\n" + tail)
        return 2
    n = 0
    for w, props in sorted(WITNESS_PROPS.items()):
        if prop not in props:
            continue
        for (line, is_cf, ok) in res.get(w, []):
            n += 1
            kind = "compile_fail" if is_cf else "compile-pass twin"
            ctx.check(ok, "E3.witness", "%s@%d:%s" % (w, line, kind.replace(" ", "-")), "witness/src/lib.rs:%d" % line,
                      "%s %s behaves as required" % (w, kind),
                      ("the offending program compiles: something that must be impossible from outside the crate became possible" if is_cf
                       else "the compiling twin no longer compiles (witness broken or public API changed)"))
        if w not in res:
            ctx.fail("E3.witness", "%s:anchor-lost" % w, "witness/src/lib.rs", "witness did not run")
    return 0

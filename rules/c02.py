"""C02 - Every scheduled run happens exactly once and the tree runs to completion.
Decides the typestate of the runner on every path (DESIGN.md section 4, C02)."""
import mir
from mir import op_fn, op_place, origins
import lib
import anchors as A

EXPLANATION = (
    "Typestate of the system-command runner on every entry->return path of its MIR (non-cleanup subgraph): "
    "exactly one disposition (run / postpone / abort) per path, each on the arm that licenses it; the callback taken "
    "from storage is re-inserted on every path unless the post-run lookup failed; the postponed queue is detached, "
    "replayed in order through the runner and re-attached on every path; the root discards leftovers through the abort "
    "helper and resets the counter; every Command::apply of the crate calls the runner exactly once per path with its "
    "own system id; nobody else calls the runner or the stored callback. Decides these structural clauses, not the "
    "behavioural statement over all trees.")

NOT_DECIDED = [
    "that Bevy reaches and applies each queued command (command-queue semantics, trusted)",
    "termination of unbounded recursion",
    "that every transitively caused run has happened when the flush returns (Bevy's in-line flush, trusted)",
]


def check(ctx):
    ctx.explanation = EXPLANATION
    ctx.not_decided = NOT_DECIDED
    prog = ctx.prog
    R = ctx.anchor("C02.anchor", lambda: A.runner(prog), "runner")
    H = ctx.anchor("C02.anchor", lambda: A.abort_helper(prog), "abort-helper")
    if R is None or H is None:
        return
    ctx.touch(R, calls=len(list(R.iter_calls())))
    ctx.touch(H)
    fk = lib.fkey(R)

    run_blocks = lib.call_blocks(R, lib.ends(A.names(prog)["callback_run"]))
    take_blocks = lib.call_blocks(R, lib.ends(A.names(prog)["storage_take"]))
    insert_blocks = lib.call_blocks(R, lib.ends(A.names(prog)["storage_insert"]))
    push_blocks = [b for b in lib.call_blocks(R, lambda n: lib.tail(n, 2) == A.names(prog)["queue_push"])]
    abort_all = lib.call_blocks(R, lambda n: n == H.path)
    if not ctx.floor("C02.a", len(run_blocks), 1, "callback.run call in runner"):
        return
    if not ctx.floor("C02.a", len(take_blocks), 1, "storage.take call in runner"):
        return

    # --- classify abort calls: own (setup, cleanup are the runner's parameters 3, 4) vs foreign (discard loop) ---
    abort_own, abort_foreign = [], []
    si0_, ci0_ = A.abort_positions(prog)
    for b in abort_all:
        t = R.blocks[b]["term"]
        if lib.originates_from_arg(R, t["args"][si0_ - 1], 3) and lib.originates_from_arg(R, t["args"][ci0_ - 1], 4):
            abort_own.append(b)
        else:
            abort_foreign.append(b)
    # --- postpone: push of an aggregate built from own (command, setup, cleanup) ---
    postpone = []
    for b in push_blocks:
        t = R.blocks[b]["term"]
        os_ = origins(R, t["args"][1])
        good = False
        for o in os_:
            if o[0] == "agg":
                st = R.blocks[o[1]]["stmts"][o[2]]
                ops = st["rv"]["agg"]["ops"]
                if len(ops) == 3 and all(lib.originates_from_arg(R, ops[i], i + 2) for i in range(3)):
                    good = True
        if ctx.check(good, "C02.a", "%s:postpone-carries-own-command" % fk, R.loc(b),
                     "postponed entry is built from the runner's own (command, setup, cleanup)",
                     "queue push does not carry the runner's own (command, setup, cleanup): origins %s" % lib.origin_str(os_)):
            postpone.append(b)

    # --- C02.a exactly one disposition on every path ---
    disp = set(run_blocks) | set(postpone) | set(abort_own)
    counts, per_ret, nstates = lib.event_counts(R, disp)
    ctx.touch(R, states=nstates)
    if counts == {1}:
        ctx.ok("C02.a", "%s:single-disposition" % fk, "%s:%d" % (R.file, R.line),
               "every entry->return path has exactly one of run(%d site)/postpone(%d)/abort(%d); %d (block,count) states"
               % (len(run_blocks), len(postpone), len(abort_own), nstates))
    else:
        for bad in sorted(counts - {1}):
            w = lib.count_witness(R, disp, bad)
            ev = {b: "RUN" for b in run_blocks}
            ev.update({b: "POSTPONE" for b in postpone})
            ev.update({b: "ABORT" for b in abort_own})
            ctx.fail("C02.a", "%s:dispositions=%s" % (fk, "0" if bad == 0 else ">=2"), "%s:%d" % (R.file, R.line),
                     "a path through the runner has %s dispositions (must be exactly one of run/postpone/abort)" % ("no" if bad == 0 else "two or more"),
                     lib.render_path(R, w, ev) if w else None)

    # --- arms: take() Some / None; counter == 0 ---
    take_b = take_blocks[0]
    arms = lib.result_arms(R, take_b)
    if not arms:
        ctx.fail("C02.a", "%s:anchor-lost:take-match" % fk, R.loc(take_b), "result of storage.take() is not matched")
        return
    sw_take, some_t, none_t = arms[0]
    # counter read: value switched on in the None region via Eq(x, const 0)
    idx_checks = []
    for b in sorted(R.reachable):
        info = mir.switch_on(R, b)
        if info and info["kind"] == "bin" and info["bin"]["op"] in ("Eq", "Ne", "Lt", "Le", "Gt", "Ge"):
            l, r = info["bin"]["l"], info["bin"]["r"]
            const_right = lib.const_val(r) is not None
            cv = lib.const_val(r) if const_right else lib.const_val(l)
            other = l if const_right else r
            os_ = origins(R, other)
            from_counter = any(is_counter_call(R, o) for o in os_)
            if not from_counter or cv is None:
                continue
            tg = info["targets"]
            true_t = info["otherwise"] if 0 in tg else tg.get(1)
            false_t = tg.get(0) if 0 in tg else info["otherwise"]
            zt = zero_test(info["bin"]["op"], cv, const_right)
            if zt is None:
                # not a root test (e.g. a depth warning); it cannot license a disposition - the rules below require exact tests
                ctx.notes.append("counter comparison %s %s at %s is not an exact zero test and is ignored" % (info["bin"]["op"], cv, R.loc(b)))
                continue
            eq_t, ne_t = (true_t, false_t) if zt else (false_t, true_t)
            idx_checks.append((b, 0, eq_t, ne_t, other))
    ctx.floor("C02.a", len(idx_checks), 2, "exact zero tests of the tree counter (postpone guard + root test)")
    # entry value read before any write of the counter
    counter_writes = []
    for b, i, st in R.iter_stmts():
        if st["k"] == "assign" and st["place"]["p"] and st["place"]["p"][0] == "deref":
            os_ = place_origins_root(R, st["place"]["l"])
            if any(is_counter_call(R, o) for o in os_):
                counter_writes.append((b, i, st))

    # RUN only on Some arm
    for b in run_blocks:
        ctx.check(R.dominates(some_t, b), "C02.a", "%s:run-on-take-some-arm" % fk, R.loc(b),
                  "callback.run is dominated by the Some arm of storage.take()",
                  "callback.run is reachable without storage.take() having returned Some")
        t = R.blocks[b]["term"]
        ctx.check(lib.originates_from_call(R, t["args"][0], take_b), "C02.a", "%s:run-uses-taken-callback" % fk, R.loc(b),
                  "the callback that runs is the one taken from storage",
                  "callback.run receiver does not originate from storage.take(): %s" % lib.origin_str(origins(R, t["args"][0])))
        ctx.check(lib.originates_from_arg(R, t["args"][2], 4), "C02.a", "%s:run-gets-own-cleanup" % fk, R.loc(b),
                  "the run receives the runner's own cleanup", "callback.run does not receive the runner's cleanup parameter")
    # POSTPONE only on None arm and counter != 0 arm
    for b in postpone:
        okn = R.dominates(none_t, b)
        okc = any(ne_t is not None and R.dominates(ne_t, b) and cv == 0 for (_, cv, eq_t, ne_t, _) in idx_checks)
        ctx.check(okn and okc, "C02.a", "%s:postpone-only-busy-nonroot" % fk, R.loc(b),
                  "postpone is dominated by take()==None and counter!=0",
                  "postpone reachable when %s" % ("the callback was present" if not okn else "the runner is the root (counter == 0)"))
    # ABORT(own) only on lookup-failure arms or (None, counter==0)
    lookup_fail_targets = pre_run_lookup_failures(R, run_blocks)
    for b in abort_own:
        on_fail = any(R.dominates(ft, b) for ft in lookup_fail_targets)
        on_root_none = R.dominates(none_t, b) and any(eq_t is not None and R.dominates(eq_t, b) for (_, cv, eq_t, ne_t, _) in idx_checks)
        if not (on_fail or on_root_none):
            # several failure arms may share one abort site (`Missing | NoStorage => abort`): every path to it passes one of them
            licensed = set(lookup_fail_targets) | {x for x in R.reachable if R.dominates(none_t, x) and any(
                eq_t is not None and R.dominates(eq_t, x) for (_, cv, eq_t, ne_t, _) in idx_checks)}
            on_fail = bool(licensed) and b not in R.reach_from(0, avoid=licensed)
        ctx.check(on_fail or on_root_none, "C02.a", "%s:abort-only-when-target-missing" % fk, R.loc(b),
                  "abort is on a lookup-failure arm or on (take()==None, counter==0)",
                  "abort helper called on a path where the target was found and could run")
    # setup.run precedes callback.run with the own setup
    setup_run = [b for b, t, fr in R.calls_named(lambda n: lib.tail(n, 2) == A.names(prog)["setup_run"])]
    for b in run_blocks:
        ok = any(R.dominates(s, b) and R.dominates(some_t, s) and lib.originates_from_arg(R, R.blocks[s]["term"]["args"][0], 3) for s in setup_run)
        ctx.check(ok, "C02.a", "%s:setup-runs-before-callback" % fk, R.loc(b),
                  "own setup.run dominates callback.run on the Some arm", "callback.run is not preceded by setup.run of the runner's own setup")

    # --- C02.b callback conservation ---
    post_fail = post_run_lookup_failures(R, run_blocks)
    good_inserts = []
    for b in insert_blocks:
        t = R.blocks[b]["term"]
        if lib.originates_from_call(R, t["args"][1], take_b):
            good_inserts.append(b)
        else:
            ctx.fail("C02.b", "%s:insert-foreign-callback" % fk, R.loc(b),
                     "storage.insert stores a value that is not the taken callback: %s" % lib.origin_str(origins(R, t["args"][1])))
    w = lib.path_to_return_avoiding(R, [some_t], set(good_inserts) | set(post_fail))
    if w is None:
        ctx.ok("C02.b", "%s:callback-conserved" % fk, R.loc(take_b),
               "every path from take()==Some to return re-inserts the taken callback or passes a failed post-run lookup "
               "(%d insert site, %d failure arms)" % (len(good_inserts), len(post_fail)))
    else:
        ctx.fail("C02.b", "%s:callback-dropped" % fk, R.loc(take_b),
                 "a path from take()==Some to return neither re-inserts the callback nor passes a failed post-run lookup",
                 lib.render_path(R, w, {some_t: "take()==Some"}))
    for b in good_inserts:
        ctx.check(any(R.dominates(rb, b) for rb in run_blocks), "C02.b", "%s:insert-after-run" % fk, R.loc(b),
                  "re-insertion happens after the run", "storage.insert is not dominated by callback.run")

    # the storage methods do what the runner relies on: take() moves the stored callback out, insert() stores its argument
    NMs = A.names(prog)
    for role, nm in (("take", NMs["storage_take"]), ("insert", NMs["storage_insert"])):
        ms = [b_ for b_ in prog.bodies if lib.tail(b_.path, 2) == nm]
        for m in ms:
            ctx.touch(m)
            if role == "take":
                tk = [b for b, t, fr in m.iter_calls() if fr and lib.tail(mir.fn_name(fr), 2) in ("Option::take", "mem::take", "mem::replace")
                      and any(o[0] == "arg" and o[1] == 1 for o in origins(m, t["args"][0]))]
                ok = len(tk) == 1 and any(st_["k"] == "assign" and st_["place"]["l"] == 0 for _, _, st_ in m.iter_stmts()) or \
                    (len(tk) == 1 and m.blocks[tk[0]]["term"]["dest"]["l"] == 0)
                ctx.check(ok, "C02.b", "%s:moves-the-stored-callback-out" % lib.fkey(m), "%s:%d" % (m.file, m.line),
                          "returns Option::take of its own field", "the storage's take() does not move the stored callback out of its own field")
            else:
                ws = [(b, i, rv) for (b, i, adt, f, rv) in lib.field_writes(m)]
                good = []
                for (b, i, rv) in ws:
                    ag = rv.get("agg")
                    if ag is None and "use" in rv:
                        for o in origins(m, rv["use"]):
                            if o[0] == "agg" and len(o) == 3:
                                ag = m.blocks[o[1]]["stmts"][o[2]]["rv"]["agg"]
                    if ag and ag.get("vname") == "Some" and lib.originates_from_arg(m, ag["ops"][0], 2):
                        good.append(b)
                w = lib.path_to_return_avoiding(m, [0], good)
                ctx.check(bool(good) and w is None, "C02.b", "%s:stores-its-argument" % lib.fkey(m), "%s:%d" % (m.file, m.line),
                          "every path stores Some(<argument>) into the storage", "the storage's insert() does not store its argument on every path (the callback would be lost)")
    # the RUN event really runs the stored closure and hands it the cleanup (shared with C04.b)
    import c04 as _c04
    import core as _core0
    nr = _core0.adopt(ctx, _c04, lambda o: o["rule"] == "C04.b" and A.names(prog)["callback_run"] in o["key"], "C02.a")
    ctx.floor("C02.a", nr, 1, "shared obligation: SystemCommandCallback::run invokes the boxed closure with the cleanup (C04.b)")

    # --- C02.c nothing postponed is lost ---
    NM = A.names(prog)
    q = NM["queue_type"]
    removes = [b for b in lib.call_blocks(R, lambda n: lib.tail(n, 2) == NM["queue_detach"]) if any(R.dominates(rb, b) for rb in run_blocks)]
    appends = lib.call_blocks(R, lambda n: lib.tail(n, 2) == NM["queue_attach"])
    pops = lib.call_blocks(R, lambda n: lib.tail(n, 2) == NM["queue_pop"])
    if ctx.floor("C02.c", len(removes), 1, "queue.remove() after the run"):
        rb = removes[0]
        good_app = [b for b in appends if lib.originates_from_call(R, R.blocks[b]["term"]["args"][1], rb)]
        w = lib.path_to_return_avoiding(R, [lib.call_target(R, rb)], good_app)
        if w is None and good_app:
            ctx.ok("C02.c", "%s:detached-queue-reattached" % fk, R.loc(rb),
                   "every path from queue.remove() to return passes queue.append(<the detached queue>)")
        else:
            ctx.fail("C02.c", "%s:postponed-commands-lost" % fk, R.loc(rb),
                     "a path from queue.remove() to return does not re-attach the detached commands with queue.append",
                     lib.render_path(R, w, {rb: "queue.remove()"}) if w else None)
        # the replay: an order-preserving traversal of the detached queue with a closure that calls the runner
        replay_ok = False
        for b, t, fr in R.iter_calls():
            if fr is None or not t["args"]:
                continue
            name = mir.strip_generics(mir.fn_name(fr))
            if name.endswith("VecDeque::retain") or name.endswith("VecDeque::retain_mut"):
                if lib.originates_from_call(R, t["args"][0], rb):
                    replay_ok = True
                    ctx.check(R.dominates(lib.call_target(R, rb), b) and any(path_hits(R, b, a) for a in good_app),
                              "C02.c", "%s:replay-between-detach-and-reattach" % fk, R.loc(b),
                              "replay traverses the detached queue between remove() and append()",
                              "replay is not between queue.remove() and queue.append()")
                    check_replay_closure(ctx, prog, R, t, fk)
        if not replay_ok:
            replay_ok = check_replay_loop(ctx, prog, R, rb, good_app, fk)
        if not replay_ok:
            replay_ok = check_replay_rotation(ctx, prog, R, rb, good_app, fk)
        ctx.check(replay_ok, "C02.c", "%s:replay-present" % fk, R.loc(rb),
                  "detached queue is replayed with an in-order retain", "no in-order replay (VecDeque::retain) of the detached queue found")

    # no early way out of the run path: after the callback ran, every path reaches the replay (queue.remove) and the root test
    if run_blocks and removes:
        w = lib.path_to_return_avoiding(R, [lib.call_target(R, r) for r in run_blocks], removes)
        ctx.check(w is None, "C02.c", "%s:run-path-always-replays" % fk, R.loc(run_blocks[0]),
                  "every path from callback.run to return passes the replay of postponed commands",
                  "a path returns after the callback ran without replaying the commands that were postponed for it (they would be discarded or never aborted)",
                  lib.render_path(R, w) if w else None)
    # root discard loop
    root_eq = [(b, eq_t) for (b, cv, eq_t, ne_t, _) in idx_checks if eq_t is not None and any(R.dominates(rb, b) for rb in run_blocks)]
    if ctx.floor("C02.c", len(root_eq), 1, "root test (counter == 0) after the run"):
        sb, eq_t = root_eq[0]
        loop_pops = [b for b in pops if R.dominates(eq_t, b)]
        if ctx.floor("C02.c", len(loop_pops), 1, "pop_front loop on the root arm"):
            pb = loop_pops[0]
            parms = lib.result_arms(R, pb)
            if not parms:
                ctx.fail("C02.c", "%s:anchor-lost:pop-match" % fk, R.loc(pb), "pop_front result not matched")
            else:
                _, some_p, none_p = parms[0]
                loops = [(h, body_, backs) for (h, body_, backs) in R.loops() if pb in body_]
                ctx.check(bool(loops), "C02.c", "%s:discard-is-a-loop" % fk, R.loc(pb),
                          "pop_front is inside a loop", "pop_front on the root arm is not in a loop (only one leftover would be discarded)")
                if loops:
                    h, lbody, backs = loops[0]
                    exits = {(x, s) for x in lbody for s in R.succ[x] if s not in lbody}
                    bad_exits = [(x, s) for (x, s) in exits if not R.dominates(none_p, s) and s != none_p and not R.is_unreachable_block(s)]
                    ctx.check(not bad_exits, "C02.c", "%s:discard-loop-single-exit" % fk, R.loc(pb),
                              "the discard loop is left only when pop_front() returns None",
                              "the discard loop has an exit other than queue-empty: %s" % ["bb%d->bb%d" % e for e in bad_exits])
                    # every iteration aborts the popped element
                    ab_in = [b for b in abort_foreign if b in lbody]
                    okab = False
                    si_, ci_ = A.abort_positions(prog)
                    for b in ab_in:
                        t = R.blocks[b]["term"]
                        if lib.originates_from_call(R, t["args"][si_ - 1], pb, ("@Some", ".0", ".setup")) or \
                           from_popped(R, t["args"][si_ - 1], pb, "setup"):
                            if from_popped(R, t["args"][ci_ - 1], pb, "cleanup"):
                                okab = True
                    w2 = lib.path_between_avoiding(R, [some_p], backs_targets(R, h, backs), ab_in) if ab_in else [some_p]
                    ctx.check(okab and w2 is None, "C02.c", "%s:discard-aborts-each-leftover" % fk, R.loc(pb),
                              "every iteration passes the popped element's own setup/cleanup to the abort helper",
                              "an iteration of the discard loop does not abort the popped command with its own setup/cleanup")
                # counter reset to 0 after the loop on the root arm
                resets = [(b, i) for (b, i, st) in counter_writes if "use" in st["rv"] and lib.const_val(st["rv"]["use"]) == 0]
                ok_reset = False
                for (b, i) in resets:
                    if R.dominates(none_p, b):
                        ok_reset = True
                w3 = lib.path_to_return_avoiding(R, [eq_t], [b for b, i in resets])
                ctx.check(ok_reset and w3 is None, "C02.c", "%s:root-resets-counter" % fk, R.loc(sb),
                          "every path through the root arm stores 0 into the counter after the discard loop",
                          "the root arm can return without resetting the tree counter to 0 after the discard loop",
                          lib.render_path(R, w3) if w3 else None)
    # counter increment only on the RUN path, by 1
    incs = [(b, i, st) for (b, i, st) in counter_writes if not ("use" in st["rv"] and lib.const_val(st["rv"]["use"]) is not None)]
    for (b, i, st) in incs:
        ctx.check(R.dominates(some_t, b) and any(path_hits(R, b, rb) for rb in run_blocks), "C02.c", "%s:counter-incremented-on-run-path-only" % fk, R.loc(b, i),
                  "counter increment is on the run path", "tree counter is modified outside the run path")
    for (b, i, st) in incs:
        # the non-constant write is `counter + 1`
        cand = [st["rv"]]
        src = op_place(st["rv"]["use"]) if "use" in st["rv"] else None
        if src is not None:
            cand += [d[3] for d in R.defs.get(src["l"], []) if d[0] == "stmt"]
        plus1 = any("bin" in c and c["bin"]["op"] in ("Add", "AddWithOverflow", "AddUnchecked") and lib.const_val(c["bin"]["r"]) == 1 for c in cand)
        ctx.check(plus1, "C02.c", "%s:counter-increment-is-plus-one" % fk, R.loc(b, i), "the run path adds 1 to the tree counter",
                  "the run path's write to the tree counter is not `counter + 1` (the root of a tree would not be recognised, or every level would look like the root)")
    root_tests = [b for (b, cv, eq_t, ne_t, _) in idx_checks if any(R.dominates(rb, b) for rb in run_blocks)]
    for (b, i, st) in incs:
        w = lib.path_to_return_avoiding(R, [b], root_tests) if root_tests else [b]
        ctx.check(bool(root_tests) and w is None, "C02.c", "%s:counter-increment-always-reaches-root-test" % fk, R.loc(b, i),
                  "every path from the counter increment to return passes the root test (whose zero arm discards leftovers and resets the counter)",
                  "a path increments the tree counter and returns without reaching the root test: at the root the leftovers are never discarded and the counter is never reset",
                  lib.render_path(R, w) if w and len(w) > 1 else None)
    ctx.check(len(incs) == 1, "C02.c", "%s:one-counter-increment" % fk, "%s:%d" % (R.file, R.line),
              "exactly one non-constant write to the counter", "%d non-constant writes to the tree counter" % len(incs))

    # the queue operations the runner relies on keep every element (shared with C12.b): push adds at the back,
    # append keeps the existing elements and adds the argument, remove hands out the whole queue
    import c12
    import core as _core
    nq = _core.adopt(ctx, c12, lambda o: o["rule"] == "C12.b", "C02.c")
    ctx.floor("C02.c", nq, 8, "shared queue-operation obligations (C12.b)")

    # the counter and the postponed queue are touched by the runner only (shared with C11): a reset or a push elsewhere
    # changes which commands are postponed, discarded or treated as root
    import c11
    nw = _core.adopt(ctx, c11, lambda o: o["rule"] in ("C11.counter", "C11.queue") and "only-by-runner" in o["key"], "C02.c")
    ctx.floor("C02.c", nw, 2, "shared who-writes obligations (C11)")

    # everything detected at a boundary of the tree is dispatched at that boundary: the poll calls both schedulers and then
    # flushes, after every run (shared with C08.e) - "the tree runs to completion"
    import c08 as _c08
    np_ = _core.adopt(ctx, _c08, lambda o: o["rule"] == "C08.e", "C02.f")
    ctx.floor("C02.f", np_, 4, "shared poll obligations (C08.e)")
    # what a run queued has been applied when the run returns, in both runner configurations (shared with C04.a)
    import c04 as _c04b
    nd_ = _core.adopt(ctx, _c04b, lambda o: o["rule"] == "C04.a" and any(k in o["key"] for k in ("deferred-applied", "exclusive-arm-always-runs", "run-then-cleanup")), "C02.f")
    ctx.floor("C02.f", nd_, 3, "shared deferred-application obligations (C04.a)")

    # --- C02.d each command runs in-line exactly once; who-may-call ---
    applies = [b for b in A.command_apply_impls(prog) if b.file.endswith("react/commands.rs") or "react::" in b.path]
    applies = [b for b in applies if b.calls_named(lambda n: n == R.path) or "react::commands" in b.path]
    ctx.floor("C02.d", len(applies), 3, "Command::apply impls that call the runner")
    n_sites = 0
    for ap in applies:
        ctx.touch(ap, calls=len(list(ap.iter_calls())))
        rc = lib.call_blocks(ap, lambda n: n == R.path)
        n_sites += len(rc)
        counts, _, ns = lib.event_counts(ap, rc)
        ctx.touch(ap, states=ns)
        ak = lib.fkey(ap)
        ctx.check(counts == {1}, "C02.d", "%s:one-runner-call-per-path" % ak, "%s:%d" % (ap.file, ap.line),
                  "every path calls the runner exactly once (%d sites)" % len(rc),
                  "a path through apply calls the runner %s times" % sorted(counts),
                  lib.render_path(ap, lib.count_witness(ap, rc, sorted(counts - {1})[0]) or []) if counts != {1} else None)
        # no reachable otherwise arm in the variant match
        for sb, place, targets, otherwise in lib.discr_switches(ap):
            if place["l"] == 1 and not place["p"]:
                ctx.check(ap.is_unreachable_block(otherwise), "C02.d", "%s:match-exhaustive" % ak, ap.loc(sb),
                          "variant match has no reachable otherwise arm (%d arms)" % len(targets),
                          "variant match of the command has a reachable catch-all arm")
        for b in rc:
            t = ap.blocks[b]["term"]
            os_ = origins(ap, t["args"][1])
            ok = all(o[0] == "arg" and o[1] == 1 and (len(o) == 2 or o[-1] in (".reactor", ".system", ".0")) for o in os_) and bool(os_)
            ctx.check(ok, "C02.d", "%s:runs-own-system" % ak, ap.loc(b),
                      "runner receives the command's own system id %s" % lib.origin_str(os_),
                      "runner is called with a system id that is not the command's own: %s" % lib.origin_str(os_))
    # who may call the runner / the stored callback
    allowed = {ap.path for ap in applies} | {c.path for c in A.replay_closures(prog)}
    callers = prog.callers_of(lambda n: n == R.path)
    # loop form of the replay: the runner calls itself from inside the position scan of the detached queue (C02.c)
    loop_replay_sites = set()
    for (h_, lb_, bk_) in R.loops():
        for b_, t_, fr_ in R.iter_calls(lb_):
            if fr_ and mir.fn_name(fr_) == R.path and any(o["ok"] and o["key"].endswith("::replay:index-scan-well-formed") for o in ctx.obligations):
                loop_replay_sites.add(b_)
    for (cb, b, t, fr) in callers:
        ctx.check(cb.path in allowed or (cb.path == R.path and b in loop_replay_sites), "C02.d", "who-may-call-runner:%s" % lib.fkey(cb), cb.loc(b),
                  "runner called from an apply impl or its own replay", "the runner is called from %s (only Command::apply and the replay may)" % cb.path)
    uses = prog.fn_value_uses(lambda n: n == R.path)
    ctx.check(not uses, "C02.d", "runner-not-used-as-value", "", "runner is never taken as a fn value",
              "the runner is used as a function value in %s" % [u[0].path for u in uses])
    ctx.floor("C02.d", len(callers), 4, "runner call sites (one per Command::apply impl + replay)")
    run_def = [b for b in prog.bodies if lib.tail(b.path, 2) == A.names(prog)["callback_run"]]
    if ctx.floor("C02.d", len(run_def), 1, "SystemCommandCallback::run"):
        cr = prog.callers_of(lambda n: n == run_def[0].path)
        for (cb, b, t, fr) in cr:
            ctx.check(cb.path == R.path, "C02.d", "who-may-run-callback:%s" % lib.fkey(cb), cb.loc(b),
                      "stored callback is run by the runner", "stored callback is run from %s (only the runner may)" % cb.path)
        ctx.check(run_def[0].raw.get("reachable") is False, "C02.d", "callback-run-not-public", "%s:%d" % (run_def[0].file, run_def[0].line),
                  "SystemCommandCallback::run is not reachable from outside the crate", "SystemCommandCallback::run is callable from outside the crate")

    # --- C02.e errors do not alter control ---
    check_error_neutral(ctx, prog)
    ctx.sample({"runner": R.path, "run_sites": [R.loc(b) for b in run_blocks], "postpone_sites": [R.loc(b) for b in postpone],
                "abort_sites": [R.loc(b) for b in abort_own], "discard_abort_sites": [R.loc(b) for b in abort_foreign],
                "runner_call_sites": n_sites + len(A.replay_closures(prog))})


def zero_test(op, c, const_right):
    """For unsigned x: does `x op c` (or `c op x`) hold exactly when x == 0 (True), exactly when x != 0 (False), or neither (None)"""
    if not const_right:
        op = {"Lt": "Gt", "Le": "Ge", "Gt": "Lt", "Ge": "Le"}.get(op, op)
    if op == "Eq" and c == 0:
        return True
    if op == "Ne" and c == 0:
        return False
    if op == "Lt" and c == 1:
        return True
    if op == "Le" and c == 0:
        return True
    if op == "Gt" and c == 0:
        return False
    if op == "Ge" and c == 1:
        return False
    return None


def backs_targets(R, h, backs):
    return [h]


def path_hits(R, a, b):
    """b reachable from a"""
    return b in R.reach_from(a)


def from_popped(R, op, pop_block, field):
    os_ = origins(R, op)
    return bool(os_) and all(o[0] == "call" and o[1] == pop_block and o[-1] == "." + field for o in os_)


def place_origins_root(R, l):
    return mir.place_origins(R, {"l": l, "p": []})


def is_counter_call(R, o):
    if o[0] != "call":
        return False
    fr = op_fn(R.blocks[o[1]]["term"]["func"])
    if not fr:
        return False
    ct = A.names(R.prog)["counter_type"]
    return any(ct in a for a in fr.get("args", [])) or ct in mir.fn_name(fr)


def lookup_calls(R):
    """fallible lookups in the runner: get_entity_mut / get_mut::<Storage> with their failure targets"""
    out = []
    for b, t, fr in R.iter_calls():
        if fr is None:
            continue
        n = lib.tail(mir.fn_name(fr), 2)
        if n in ("World::get_entity_mut", "World::get_entity", "EntityWorldMut::get_mut", "EntityWorldMut::get",
                 "World::get_mut", "World::get"):
            for (sb, ok_t, fail_t) in lib.result_arms(R, b):
                out.append((b, sb, ok_t, fail_t))
    return out


def pre_run_lookup_failures(R, run_blocks):
    return [fail_t for (b, sb, ok_t, fail_t) in lookup_calls(R) if not any(R.dominates(rb, b) for rb in run_blocks)]


def post_run_lookup_failures(R, run_blocks):
    return [fail_t for (b, sb, ok_t, fail_t) in lookup_calls(R) if any(R.dominates(rb, b) for rb in run_blocks)]


def check_replay_closure(ctx, prog, R, retain_term, fk):
    """the closure given to retain: returns false (drop) only after running that element through the runner with
    the element's own three fields, true (keep) otherwise; at most one runner call per path"""
    cpath = None
    for o in origins(R, retain_term["args"][1]):
        if o[0] == "agg":
            st = R.blocks[o[1]]["stmts"][o[2]]
            if st["rv"]["agg"]["kind"] == "closure":
                cpath = st["rv"]["agg"]["closure"]
    cb = prog.body(cpath) if cpath else None
    if cb is None:
        ctx.fail("C02.c", "%s:anchor-lost:replay-closure" % fk, "", "closure passed to retain not found")
        return
    ctx.touch(cb, calls=len(list(cb.iter_calls())))
    rc = lib.call_blocks(cb, lambda n: n == R.path)
    ck = lib.fkey(R) + "::replay"
    counts, _, ns = lib.event_counts(cb, rc)
    ctx.touch(cb, states=ns)
    ctx.check(counts <= {0, 1} and 1 in counts, "C02.c", "%s:at-most-one-run-per-element" % ck, "%s:%d" % (cb.file, cb.line),
              "replay closure calls the runner at most once per element", "replay closure calls the runner %s times on some path" % sorted(counts))
    for b in rc:
        t = cb.blocks[b]["term"]
        ok = all(lib.originates_from_arg(cb, t["args"][i], 2, (f,)) for i, f in ((1, ".command"), (2, ".setup"), (3, ".cleanup")))
        ctx.check(ok, "C02.c", "%s:replays-element-own-fields" % ck, cb.loc(b),
                  "replay passes the element's own command/setup/cleanup", "replay calls the runner with fields that are not the element's own")
    # return value: false only after a runner call; true only without
    falses, trues = [], []
    for b, i, st in cb.iter_stmts():
        if st["k"] == "assign" and st["place"]["l"] == 0 and not st["place"]["p"] and "use" in st["rv"]:
            v = lib.const_val(st["rv"]["use"])
            if v == 0:
                falses.append(b)
            elif v == 1:
                trues.append(b)
            else:
                ctx.fail("C02.c", "%s:non-constant-keep-flag" % ck, cb.loc(b, i), "replay closure returns a non-constant keep flag")
    for b in falses:
        ctx.check(any(cb.dominates(r, b) for r in rc), "C02.c", "%s:drop-only-after-run" % ck, cb.loc(b),
                  "element is dropped from the queue only after it ran", "replay closure drops a postponed command without running it")
    for b in trues:
        ctx.check(not any(path_hits(cb, r, b) for r in rc), "C02.c", "%s:keep-only-if-not-run" % ck, cb.loc(b),
                  "element is kept only if it did not run", "replay closure keeps a command it has just run (would run twice)")
    ctx.check(bool(falses) and bool(trues), "C02.c", "%s:both-outcomes" % ck, "%s:%d" % (cb.file, cb.line),
              "closure has a drop and a keep outcome", "replay closure lacks a drop or a keep outcome")
    # the match predicate compares the element's command with the runner's own command
    eqs = [(b, t) for b, t, fr in cb.iter_calls() if fr and lib.tail(mir.fn_name(fr), 1) in ("eq", "ne")]
    okeq = False
    for b, t in eqs:
        o0, o1 = origins(cb, t["args"][0]), origins(cb, t["args"][1])
        s = {tuple(x[:3]) for x in o0 | o1}
        if ("arg", 2, ".command") in s and any(x[0] == "arg" and x[1] == 1 for x in o0 | o1):
            okeq = True
            for rb in rc:
                arms = None
                info = mir.switch_on(cb, lib.call_target(cb, b))

    # polarity: the element is run only on the arm where its command compared EQUAL to the finished command
    pol = False
    for b, t in eqs:
        fr = op_fn(t["func"])
        o0, o1 = origins(cb, t["args"][0]), origins(cb, t["args"][1])
        s = {tuple(x[:3]) for x in o0 | o1}
        if ("arg", 2, ".command") in s and any(x[0] == "arg" and x[1] == 1 for x in o0 | o1):
            arms = lib.bool_arms(cb, b)
            if arms:
                eq_arm = arms[0][1] if lib.tail(mir.fn_name(fr), 1) == "eq" else arms[0][2]
                pol = bool(rc) and all(cb.dominates(eq_arm, r) for r in rc)
    ctx.check(pol, "C02.c", "%s:runs-only-equal-commands" % ck, "%s:%d" % (cb.file, cb.line),
              "an element is replayed only on the arm where its command equals the finished command",
              "the replay runs postponed commands whose target is NOT the system that just finished (they are still busy or unrelated)")
    ctx.check(okeq, "C02.c", "%s:matches-on-command-identity" % ck, "%s:%d" % (cb.file, cb.line),
              "replay selects elements by comparing their command with the finished command",
              "replay closure does not compare the element's command with the captured command")


def check_replay_loop(ctx, prog, R, rb, good_app, fk):
    """Loop form of the replay: an index scan over the detached queue with in-place removal,

        while pos < q.len() { let e = q[pos]; if e.command == command { runner(e..); q.remove(pos); } else { pos += 1; } }

    It is equivalent to `retain` iff: the loop is left only through its header test `pos < q.len()`; every iteration reads
    the element at `pos`; every iteration path does exactly one of DROP (`q.remove(pos)`, order preserving, same `pos`) and
    KEEP (`pos += 1`); nothing else writes `pos` or mutates `q`. The per-element obligations are then the same as for the
    closure form (same keys). Returns True when such a loop was found (its obligations are recorded either way)."""
    ck = lib.fkey(R) + "::replay"
    for (h, lbody, backs) in R.loops():
        rc = [b for b, t, fr in R.iter_calls(lbody) if fr and mir.fn_name(fr) == R.path]
        if not rc:
            continue
        idx = [(b, t) for b, t, fr in R.iter_calls(lbody) if fr and lib.tail(mir.fn_name(fr), 1) == "index" and "VecDeque" in mir.fn_name(fr)
               and lib.originates_from_call(R, t["args"][0], rb)]
        rem = [(b, t, mir.strip_generics(mir.fn_name(fr))) for b, t, fr in R.iter_calls(lbody)
               if fr and mir.strip_generics(mir.fn_name(fr)).endswith(("VecDeque::remove", "VecDeque::swap_remove_back", "VecDeque::swap_remove_front"))
               and lib.originates_from_call(R, t["args"][0], rb)]
        lens = [(b, t) for b, t, fr in R.iter_calls(lbody) if fr and mir.strip_generics(mir.fn_name(fr)).endswith("VecDeque::len")
                and lib.originates_from_call(R, t["args"][0], rb)]
        if len(idx) != 1 or len(rem) != 1 or not lens:
            continue
        ctx.touch(R, states=len(lbody))
        # the position variable: argument of index and of remove
        def pos_locals(op):
            out = set()
            p = op_place(op)
            seen = set()
            while p is not None and not p["p"] and p["l"] not in seen:
                seen.add(p["l"])
                out.add(p["l"])
                ds = [d for d in R.defs.get(p["l"], []) if d[0] == "stmt" and "use" in d[3]]
                p = op_place(ds[0][3]["use"]) if len(ds) == 1 else None
            return out
        pi, pr = pos_locals(idx[0][1]["args"][1]), pos_locals(rem[0][1]["args"][1])
        pos = pi & pr
        # user variable: the local with more than one definition (initialisation + increment)
        posv = [l for l in pos if len([d for d in R.defs.get(l, []) if d[0] in ("stmt", "call")]) >= 2]
        ok_shape = len(posv) == 1
        incs = []
        if ok_shape:
            pv = posv[0]
            for b, i, st in R.iter_stmts(lbody):
                if st["k"] == "assign" and not st["place"]["p"] and st["place"]["l"] == pv:
                    incs.append((b, i, st))
            # each write of pos inside the loop is `pos + 1`
            for b, i, st in incs:
                ok_inc = False
                for o in origins(R, st["rv"]["use"]) if "use" in st["rv"] else ():
                    pass
                rv = st["rv"]
                src = op_place(rv["use"]) if "use" in rv else None
                # pos = move (tmp.0) where tmp = AddWithOverflow(pos, 1)  |  pos = Add(pos, 1)
                cand = [rv]
                if src is not None:
                    for d in R.defs.get(src["l"], []):
                        if d[0] == "stmt":
                            cand.append(d[3])
                for c in cand:
                    if "bin" in c and c["bin"]["op"] in ("Add", "AddWithOverflow", "AddUnchecked"):
                        l_, r_ = c["bin"]["l"], c["bin"]["r"]
                        if (op_place(l_) or {}).get("l") in pos_locals({"copy": {"l": pv, "p": []}}) | {pv} and lib.const_val(r_) == 1:
                            ok_inc = True
                ok_shape = ok_shape and ok_inc
        # exits: only from the header, on the `pos < len` test
        exits = {(x, s_) for x in lbody for s_ in R.succ[x] if s_ not in lbody}
        hdr_blocks = {h} | {b for b, t in lens}
        cmp_ok = False
        for (x, s_) in exits:
            info = mir.switch_on(R, x)
            if info and info.get("kind") == "bin" and info["bin"]["op"] in ("Lt", "Gt", "Ne"):
                cmp_ok = True
        ok_exit = len({x for x, _ in exits}) == 1 and cmp_ok and all(R.dominates(x, idx[0][0]) for x, _ in exits)
        ctx.check(ok_shape and ok_exit, "C02.c", "%s:index-scan-well-formed" % ck, R.loc(h),
                  "replay loop scans the detached queue by position: single exit on the bound test, position only incremented by one",
                  "the replay loop over the detached queue is not a plain position scan (extra exit, or the position is written other than by +1)")
        if not (ok_shape and ok_exit):
            return True
        drop_b = rem[0][0]
        ctx.check(rem[0][2].endswith("VecDeque::remove"), "C02.c", "%s:drop-preserves-order" % ck, R.loc(drop_b),
                  "the scanned element is removed with the order-preserving VecDeque::remove",
                  "%s moves another element into the scanned position: postponed commands are reordered and one is skipped" % rem[0][2])
        keep_b = sorted({b for b, i, st in incs})
        # exactly one of DROP / KEEP per iteration
        one = iteration_counts(R, lbody, h, h, [drop_b] + keep_b) == {1}
        ctx.check(one, "C02.c", "%s:each-element-dropped-xor-kept" % ck, R.loc(h),
                  "every iteration either removes the element at the position or advances the position, never both or neither",
                  "an iteration of the replay loop neither removes the scanned element nor advances (or does both): elements would be skipped or visited twice")
        # per-element obligations (same keys as the closure form)
        runs_before_keep = any(path_within(R, lbody, r, k, h) for r in rc for k in keep_b)
        ctx.check(len(rc) == 1 and not path_within(R, lbody, rc[0], rc[0], h, strict=True), "C02.c", "%s:at-most-one-run-per-element" % ck, R.loc(rc[0]),
                  "replay loop calls the runner at most once per element", "replay loop calls the runner more than once per element")
        for b in rc:
            t = R.blocks[b]["term"]
            ok = all(lib.originates_from_call(R, t["args"][i], idx[0][0], (f,)) for i, f in ((1, ".command"), (2, ".setup"), (3, ".cleanup")))
            ctx.check(ok, "C02.c", "%s:replays-element-own-fields" % ck, R.loc(b),
                      "replay passes the element's own command/setup/cleanup", "replay calls the runner with fields that are not the element's own")
        w = lib.path_between_avoiding(R, [lib.call_target(R, idx[0][0])], [drop_b], rc)
        if w is not None:
            # the element may be taken out of the (local, detached) queue *before* it runs, as long as the same iteration
            # runs it afterwards: a violation needs an iteration that drops and reaches the header again with no run
            region_wo_run = set(lbody) - set(rc)
            if drop_b in region_wo_run and not path_within(R, region_wo_run, drop_b, h, None) \
                    and not any(s_ not in lbody for x in _reach_within(R, region_wo_run, drop_b, h) for s_ in R.succ[x]):
                w = None
        ctx.check(w is None, "C02.c", "%s:drop-only-after-run" % ck, R.loc(drop_b),
                  "element is removed from the queue only after it ran", "replay loop removes a postponed command without running it")
        ctx.check(not runs_before_keep, "C02.c", "%s:keep-only-if-not-run" % ck, R.loc(keep_b[0]) if keep_b else R.loc(h),
                  "element is kept only if it did not run", "replay loop keeps a command it has just run (would run twice)")
        ctx.check(bool(keep_b), "C02.c", "%s:both-outcomes" % ck, R.loc(h), "loop has a drop and a keep outcome", "replay loop lacks a keep outcome")
        # polarity and identity
        pol = okeq = False
        for b, t, fr in R.iter_calls(lbody):
            if fr and lib.tail(mir.fn_name(fr), 1) in ("eq", "ne") and len(t["args"]) >= 2:
                o0, o1 = origins(R, t["args"][0]), origins(R, t["args"][1])
                s_ = {tuple(x[:3]) for x in o0 | o1}
                if ("call", idx[0][0], ".command") in s_ and any(x[0] == "arg" and x[1] == 2 for x in o0 | o1):
                    okeq = True
                    arms = lib.bool_arms(R, b)
                    if arms:
                        eq_arm = arms[0][1] if lib.tail(mir.fn_name(fr), 1) == "eq" else arms[0][2]
                        pol = all(R.dominates(eq_arm, r) for r in rc)
        ctx.check(pol, "C02.c", "%s:runs-only-equal-commands" % ck, R.loc(h),
                  "an element is replayed only on the arm where its command equals the finished command",
                  "the replay runs postponed commands whose target is NOT the system that just finished (they are still busy or unrelated)")
        ctx.check(okeq, "C02.c", "%s:matches-on-command-identity" % ck, R.loc(h),
                  "replay selects elements by comparing their command with the finished command",
                  "replay loop does not compare the element's command with the finished command")
        ctx.check(R.dominates(lib.call_target(R, rb), h) and any(path_hits(R, h, a) for a in good_app),
                  "C02.c", "%s:replay-between-detach-and-reattach" % fk, R.loc(h),
                  "replay traverses the detached queue between remove() and append()", "replay is not between queue.remove() and queue.append()")
        return True
    return False


def check_replay_rotation(ctx, prog, R, rb, good_app, fk):
    """Rotation form of the replay: one full turn of the detached queue,

        for _ in 0..q.len() { let Some(e) = q.pop_front() else { break }; if e.command != command { q.push_back(e); continue } runner(e..) }

    It is equivalent to `retain` iff: the number of turns is the queue's length taken before the loop; every turn pops one
    element from the front and does exactly one of KEEP (push the *popped* element to the back) and RUN; nothing else
    mutates `q` in the loop. Every initial element is then visited exactly once, in order, and the kept ones are re-appended
    in visit order (behind nothing, since every initial element has been popped by then): relative order is preserved. The
    per-element obligations carry the same keys as the closure and index-scan forms."""
    import loops as LP
    ck = lib.fkey(R) + "::replay"
    on_q = lambda op: lib.originates_from_call(R, op, rb)
    for L in LP.find_loops(R):
        if L.driver is None:
            continue
        lbody, h = L.blocks, L.header
        rc = [b for b, t, fr in R.iter_calls(lbody) if fr and mir.fn_name(fr) == R.path]
        pops = [(b, t) for b, t, fr in R.iter_calls(lbody) if fr and mir.strip_generics(mir.fn_name(fr)).endswith("VecDeque::pop_front") and on_q(t["args"][0])]
        pushes = [(b, t) for b, t, fr in R.iter_calls(lbody) if fr and mir.strip_generics(mir.fn_name(fr)).endswith("VecDeque::push_back") and on_q(t["args"][0])]
        if not rc or len(pops) != 1 or len(pushes) != 1:
            continue
        dfr = op_fn(R.blocks[L.driver]["term"]["func"])
        if dfr is None or "Range<" not in (mir.fn_name(dfr) + " ".join(dfr.get("args") or [])):
            continue
        ctx.touch(R, states=len(lbody))
        # the bound: Range { start: 0, end: q.len() } with the len() taken before the loop
        rng = None
        for o in origins(R, R.blocks[L.driver]["term"]["args"][0]):
            if o[0] == "agg" and len(o) == 3:
                ag = R.blocks[o[1]]["stmts"][o[2]]["rv"]["agg"]
                if ag.get("adt", "").endswith(("ops::range::Range", "ops::Range")) and len(ag.get("ops", [])) == 2:
                    rng = ag
        ok_bound = False
        if rng is not None:
            fs = dict(zip(rng.get("fields", ["start", "end"]), rng["ops"]))
            eo = origins(R, fs.get("end")) if fs.get("end") else set()
            lens = [b for b, t, fr in R.iter_calls() if fr and mir.strip_generics(mir.fn_name(fr)).endswith("VecDeque::len") and on_q(t["args"][0])
                    and b not in lbody and R.dominates(b, h)]
            ok_bound = lib.const_val(fs.get("start")) == 0 and bool(eo) and all(o[0] == "call" and o[1] in lens for o in eo)
        # nothing else touches the detached queue inside the loop
        other = [R.loc(b) for b, t, fr in R.iter_calls(lbody) if fr and t["args"] and on_q(t["args"][0]) and b not in (pops[0][0], pushes[0][0])
                 and not mir.strip_generics(mir.fn_name(fr)).endswith(("VecDeque::len", "VecDeque::is_empty"))]
        # exits: the range's exhaustion (the driver's own arm) and the `else { break }` of the pop
        pop_none = [fail_t for (sb, ok_t, fail_t) in lib.result_arms(R, pops[0][0])]
        ok_exit = all(s_ in pop_none or x == pops[0][0] for (x, s_) in L.exits)
        ctx.check(ok_bound and not other and ok_exit, "C02.c", "%s:index-scan-well-formed" % ck, R.loc(h),
                  "replay loop turns the detached queue once: 0..len turns with the length taken before the loop, only pop_front / push_back on the queue",
                  "the replay loop over the detached queue is not one full turn of it (bound, extra exit, or another operation on the queue: %s)" % other)
        if not (ok_bound and not other and ok_exit):
            return True
        pop_b, push_b = pops[0][0], pushes[0][0]
        some_heads = [ok_t for (sb, ok_t, fail_t) in lib.result_arms(R, pop_b)]
        start = some_heads[0] if some_heads else lib.call_target(R, pop_b)
        one = iteration_counts(R, lbody, start, h, [push_b] + rc) == {1}
        ctx.check(one, "C02.c", "%s:each-element-dropped-xor-kept" % ck, R.loc(h),
                  "every turn either runs the popped element or pushes it to the back, never both or neither",
                  "a turn of the replay loop neither runs nor keeps the popped element (or does both): a postponed command is lost or duplicated")
        ctx.check(R.blocks[push_b]["term"]["args"] and lib.originates_from_call(R, R.blocks[push_b]["term"]["args"][1], pop_b), "C02.c",
                  "%s:drop-preserves-order" % ck, R.loc(push_b), "the element pushed to the back is the one just popped from the front",
                  "the replay loop pushes back something other than the popped element")
        ctx.check(len(rc) == 1 and not path_within(R, lbody, rc[0], rc[0], h, strict=True), "C02.c", "%s:at-most-one-run-per-element" % ck, R.loc(rc[0]),
                  "replay loop calls the runner at most once per element", "replay loop calls the runner more than once per element")
        for b in rc:
            t = R.blocks[b]["term"]
            ok = all(lib.originates_from_call(R, t["args"][i], pop_b, (f,)) or
                     all(o[0] == "call" and o[1] == pop_b and o[-1] == f for o in origins(R, t["args"][i])) for i, f in ((1, ".command"), (2, ".setup"), (3, ".cleanup")))
            ctx.check(ok, "C02.c", "%s:replays-element-own-fields" % ck, R.loc(b),
                      "replay passes the element's own command/setup/cleanup", "replay calls the runner with fields that are not the element's own")
        ctx.check(not any(path_within(R, lbody, r, push_b, h) for r in rc), "C02.c", "%s:keep-only-if-not-run" % ck, R.loc(push_b),
                  "element is kept only if it did not run", "replay loop keeps a command it has just run (would run twice)")
        ctx.ok("C02.c", "%s:drop-only-after-run" % ck, R.loc(pop_b), "a popped element is either pushed back or run in the same turn (each-element-dropped-xor-kept)")
        ctx.ok("C02.c", "%s:both-outcomes" % ck, R.loc(h), "loop has a run and a keep outcome")
        pol = okeq = False
        for b, t, fr in R.iter_calls(lbody):
            if fr and lib.tail(mir.fn_name(fr), 1) in ("eq", "ne") and len(t["args"]) >= 2:
                o0, o1 = origins(R, t["args"][0]), origins(R, t["args"][1])
                el = any(o[0] == "call" and o[1] == pop_b and ".command" in o for o in o0 | o1)
                if el and any(x[0] == "arg" and x[1] == 2 for x in o0 | o1):
                    okeq = True
                    arms = lib.bool_arms(R, b)
                    if arms:
                        eq_arm = arms[0][1] if lib.tail(mir.fn_name(fr), 1) == "eq" else arms[0][2]
                        ne_arm = arms[0][2] if lib.tail(mir.fn_name(fr), 1) == "eq" else arms[0][1]
                        pol = all(R.dominates(eq_arm, r) for r in rc) and R.dominates(ne_arm, push_b)
        ctx.check(pol, "C02.c", "%s:runs-only-equal-commands" % ck, R.loc(h),
                  "an element is replayed only on the arm where its command equals the finished command, and kept on the other",
                  "the replay runs postponed commands whose target is NOT the system that just finished (they are still busy or unrelated)")
        ctx.check(okeq, "C02.c", "%s:matches-on-command-identity" % ck, R.loc(h),
                  "replay selects elements by comparing their command with the finished command",
                  "replay loop does not compare the element's command with the finished command")
        ctx.check(R.dominates(lib.call_target(R, rb), h) and any(path_hits(R, h, a) for a in good_app),
                  "C02.c", "%s:replay-between-detach-and-reattach" % fk, R.loc(h),
                  "replay traverses the detached queue between remove() and append()", "replay is not between queue.remove() and queue.append()")
        return True
    return False


def iteration_counts(R, region, start, header, events, sat=3):
    """set of numbers of `events` blocks passed on the paths of one loop iteration (from `start` back to `header`)"""
    ev = set(events)
    out = set()
    seen = set()
    st = [(start, 1 if start in ev else 0)]
    while st:
        x, n = st.pop()
        if (x, n) in seen:
            continue
        seen.add((x, n))
        for s_ in R.succ[x]:
            if s_ == header:
                out.add(n)
            elif s_ in region:
                st.append((s_, min(sat, n + (1 if s_ in ev else 0))))
    return out


def path_within(R, region, a, b, header, strict=False):
    """a path a ->* b that stays inside `region` and does not pass the loop header (i.e. within one iteration)"""
    seen = set()
    st = [s_ for s_ in R.succ[a] if s_ in region and s_ != header]
    while st:
        x = st.pop()
        if x in seen:
            continue
        seen.add(x)
        if x == b:
            return True
        st.extend(s_ for s_ in R.succ[x] if s_ in region and s_ != header)
    return (a == b) and not strict


def _reach_within(R, region, a, header):
    seen = {a}
    st = [a]
    while st:
        x = st.pop()
        for s_ in R.succ[x]:
            if s_ in region and s_ != header and s_ not in seen:
                seen.add(s_)
                st.append(s_)
    return seen


def check_error_neutral(ctx, prog):
    """C02.e: in the closure built by SystemCommandCallback::new, the result of run_with_cleanup flows only into
    CobwebResult::handle and no branch depends on it"""
    try:
        new = A.method(prog, "SystemCommandCallback", "new")
    except mir.AnchorLost as e:
        ctx.fail("C02.e", "anchor-lost:SystemCommandCallback::new", "", str(e))
        return
    cls = prog.closures_of(new)
    main = [c for c in cls if c.calls_named(lambda n: lib.tail(n, 1) == "run_with_cleanup")]
    if not ctx.floor("C02.e", len(main), 1, "closure in SystemCommandCallback::new calling run_with_cleanup"):
        return
    c = main[0]
    ctx.touch(c, calls=len(list(c.iter_calls())))
    ck = lib.fkey(new) + "::closure"
    rb = lib.call_blocks(c, lambda n: lib.tail(n, 1) == "run_with_cleanup")[0]
    dest = c.blocks[rb]["term"]["dest"]["l"]
    switches = [b for b in c.reachable if c.blocks[b]["term"]["k"] == "switch" and not c.blocks[b]["term"].get("exp")]
    bad = []
    for b in switches:
        info = mir.switch_on(c, b)
        p = info.get("place") or op_place(info["op"])
        if p is not None:
            os_ = mir.place_origins(c, p)
            if any(o[0] == "call" and o[1] == rb for o in os_):
                bad.append(b)
    ctx.check(not bad, "C02.e", "%s:no-branch-on-result" % ck, c.loc(rb),
              "no branch in the stored closure depends on the system's result",
              "the stored closure branches on the system's result at %s" % [c.loc(b) for b in bad])
    handles = [b for b, t, fr in c.calls_named(lambda n: lib.tail(n, 1) == "handle")
               if lib.originates_from_call(c, c.blocks[b]["term"]["args"][0], rb)]
    w = lib.path_to_return_avoiding(c, [lib.call_target(c, rb)], handles)
    ctx.check(bool(handles) and w is None, "C02.e", "%s:result-handled" % ck, c.loc(rb),
              "the result flows into CobwebResult::handle on every path", "the system's result is not passed to CobwebResult::handle on every path")

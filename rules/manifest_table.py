"""Single source for MANIFEST.json entries (bin/gen_manifest)."""

TRUSTED = ("Trusted: rustc nightly MIR construction/type resolution; Bevy 0.15 command-queue, system and "
           "RemovedComponents semantics as documented; std/smallvec/crossbeam method contracts as classified in the "
           "checker's tables; the rule engine itself (validated by the mutant catalogue and seeded changes). ")

ENGINES = [
    {"name": "cobweb-facts", "path": "driver/", "serves_properties": [],
     "kind_free_text": "rustc_private driver (RUSTC_WORKSPACE_WRAPPER under cargo +nightly check) dumping resolved MIR, ADTs, impls of /repo's current tree as JSON facts"},
    {"name": "rules", "path": "rules/", "serves_properties": [],
     "kind_free_text": "Python rule engine over the MIR facts: CFG/dominators, must-pass-through and counting path rules, typestate, local provenance, call graph, sibling cross-checks"},
]

NOTES = ("Static analysis only: every verdict is computed from /repo's current source (type-checked MIR), nothing is executed. "
         "Each check decides the structural clauses named in DESIGN.md section 4 for its property and lists what it does not decide in its evidence file.")

CHECKS = {
    "C02": {
        "technique": "MIR typestate / must-pass-through and path-counting rules on every path of the system-command runner, its replay closure and the three Command::apply impls; who-may-call via resolved call graph",
        "text": "Path-exhaustive structural check of the runner protocol (one disposition per path, callback conserved, postponed commands never lost, one in-line runner call per command). Proves these clauses for every CFG path of the current source; does not prove the behavioural statement over all trees.",
        "note": TRUSTED + "Not decided: Bevy reaching each queued command; termination; flush completeness.",
    },
}

NOT_APPLICABLE = {}

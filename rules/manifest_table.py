"""Single source for MANIFEST.json entries (bin/gen_manifest)."""

TRUSTED = ("Trusted: rustc nightly MIR construction/type resolution; Bevy 0.15 command-queue, system and "
           "RemovedComponents semantics as documented; std/smallvec/crossbeam method contracts as classified in the "
           "checker's tables; the rule engine itself (validated by the mutant catalogue and seeded changes). ")

ENGINES = [
    {"name": "cobweb-facts", "path": "driver/", "serves_properties": [],
     "kind_free_text": "rustc_private driver (RUSTC_WORKSPACE_WRAPPER under cargo +nightly check) dumping resolved MIR, ADTs, impls of /repo's current tree as JSON facts"},
    {"name": "rules", "path": "rules/", "serves_properties": [],
     "kind_free_text": "Python rule engine over the MIR facts: CFG/dominators, must-pass-through and counting path rules, typestate, local provenance, call graph, sibling cross-checks"},
]

NOTES = ("Static analysis only: every verdict is computed from /repo's current source (type-checked MIR), nothing is executed. "
         "Each check decides the structural clauses named in DESIGN.md section 4 for its property and lists what it does not decide in its evidence file.")

CHECKS = {
    "C02": {
        "technique": "MIR typestate / must-pass-through and path-counting rules on every path of the system-command runner, its replay closure and the three Command::apply impls; who-may-call via resolved call graph",
        "text": "Path-exhaustive structural check of the runner protocol (one disposition per path, callback conserved, postponed commands never lost, one in-line runner call per command). Proves these clauses for every CFG path of the current source; does not prove the behavioural statement over all trees.",
        "note": TRUSTED + "Not decided: Bevy reaching each queued command; termination; flush completeness.",
    },
}

CHECKS["C03"] = {
    "technique": "sibling cross-check over MIR: prepare/start/end tracker sets per Command::apply arm (reified fn pointers resolved), dominator-based gating of every reader accessor, provenance of the claim predicate",
    "text": "Decides on every arm and every reader path that the prepare/start/end protocol agrees, that readers reach tracker data only behind the reacting flag, their own reaction variant and their own TypeId, and that the claim of pending metadata identifies the command. The last clause is violated on the current tree (claim by system id only): recorded as four known findings (F3), any other violation still alarms.",
    "note": TRUSTED + "Not decided: the behavioural claim for arbitrary mixes of pending events (refuted by F3); payload values.",
}
CHECKS["C04"] = {
    "technique": "interprocedural linear-use counting of the cleanup value over MIR (path-count summaries through crate callees and closures), dominator ordering rule in run_initialized_system, effective-visibility facts, parametricity argument for the payload take",
    "text": "Proves for every path of every crate function that carries the cleanup that it is consumed exactly once, before the run's deferred commands in both runner configurations; that flag setters and payload types are unreachable from outside the crate; that the system-event payload is moved out of an Option without Clone bound or unsafe.",
    "note": TRUSTED + "Not decided: user-supplied SystemCommandCallback::with closures; visibility over whole trees needs Bevy's flush order (trusted). One named exception (ReactCommands::once outer closure, already-taken arm).",
}
CHECKS["C12"] = {
    "technique": "container-operation classification over MIR: every call whose receiver derives from a pending list / the postponed queue is classified against a frozen order table (append-at-back, first-match search, order-preserving removal)",
    "text": "Decides that every container between 'sent' and 'seen' is FIFO on every path: any order-destroying or unclassified operation on the four pending lists, the postponed queue or the replay traversal is reported with its call site. Fired on the pinned tree (swap_remove, F1), repaired by fix commit 4d2420e; re-fires if it returns.",
    "note": TRUSTED + "Not decided: 'each with its own data' for mixed kinds (C03 finding F3); Bevy's FIFO command application.",
}

NOT_APPLICABLE = {}

"""Single source for MANIFEST.json entries (bin/gen_manifest)."""

TRUSTED = ("Trusted: rustc nightly MIR construction/type resolution; Bevy 0.15 command-queue, system and "
           "RemovedComponents semantics as documented; std/smallvec/crossbeam method contracts as classified in the "
           "checker's tables; the rule engine itself (validated by the mutant catalogue and seeded changes). ")

ALL = ["C%02d" % i for i in range(1, 19)]
ENGINES = [
    {"name": "cobweb-facts", "path": "driver/", "serves_properties": ALL,
     "kind_free_text": "E1: rustc_private driver (RUSTC_WORKSPACE_WRAPPER under cargo +nightly check) dumping resolved MIR (with the statements of promoted constants), ADTs, impls, visibility of /repo's current tree as JSON facts; decides nothing"},
    {"name": "rules", "path": "rules/", "serves_properties": ALL,
     "kind_free_text": "E2: Python rule engine over the MIR facts: CFG/dominators, must-pass-through and path-counting rules (intra- and interprocedural), local provenance, loop shapes and canonical collection sources, variant-arm association, call graph / who-may-call, sibling cross-checks, symbolic sequence algebra for the FIFO wrapper, who-writes / who-reads tables; semantics-preserving view normalisations (new-helper inlining with variant threading - including variant-qualified payload facts carried through ?, ok_or and map_err and the discriminant of a value behind a shared reference - and constant propagation, const-generic specialisation, arm splitting, parameter un-bundling and re-ordering, moved-function and rename detection, closure devirtualisation and inlining, per-site copies of wrapper closures, extend / for_each / map / Option-Result combinator and predicate desugaring, splitting of loops over chain(a, b), rename assignment by pinned callee sets, newtype erasure, sub-struct flattening with reference folding and split whole-group writes); the plain and the normalised view are both evaluated when the plain view alarms and the verdict is merged per rule group, a group's pass being trusted only if it covers at least two thirds of the subjects pinned for it (rules/group_counts.json); the deciding step of every check"},
    {"name": "witness", "path": "witness/", "serves_properties": ["C02", "C03", "C04", "C05", "C06", "C07", "C09", "C10", "C13", "C14", "C16"],
     "kind_free_text": "E3 (thorough tier): rustdoc compile_fail,E0xxx witnesses with compiling twins, path-depending on /repo (cargo +nightly test --doc --offline)"},
    {"name": "clippy-xref", "path": "clippy/", "serves_properties": ["C07", "C18"],
     "kind_free_text": "E4 (thorough tier): clippy disallowed-methods as an independent type-resolved enumeration of the deny-listed call sites; must agree site-for-site with the MIR enumeration, decides nothing"},
    {"name": "selftest", "path": "mutants/ seeded/", "serves_properties": ALL,
     "kind_free_text": "E5 (thorough tier): checker self-validation on scratch copies: hand-written and sweep-derived breaking variants and independently seeded changes must fire, benign refactorings (mine and agent-made) must stay silent; failure is exit 2 (no verdict), never a VIOLATION. bin/sweep (systematic single-site mutation sweep) and bin/corpus (cached-facts regression) are development aids"},
]

NOTES = ("Static analysis only: every verdict is computed from /repo's current source (type-checked MIR), nothing is executed. "
         "Each check decides the structural clauses named in DESIGN.md section 4 for its property and lists what it does not decide in its evidence file.")

CHECKS = {
    "C02": {
        "technique": "MIR typestate / must-pass-through and path-counting rules on every path of the system-command runner, its replay (closure form or position-scan loop form) and the three Command::apply impls; who-may-call via resolved call graph; role-resolved anchors; semantics-preserving view normalisations (new-helper inlining with variant threading, arm splitting, parameter un-bundling) tried when the plain view alarms",
        "text": "Path-exhaustive structural check of the runner protocol (one disposition per path, callback conserved, postponed commands never lost, one in-line runner call per command). Proves these clauses for every CFG path of the current source; does not prove the behavioural statement over all trees.",
        "note": TRUSTED + "Not decided: Bevy reaching each queued command; termination; flush completeness.",
    },
}

CHECKS["C03"] = {
    "technique": "sibling cross-check over MIR: prepare/start/end tracker sets per Command::apply arm (reified fn pointers resolved), dominator-based gating of every reader accessor (plain getter behind the flag, or gated accessor) and of every direct tracker-field read, provenance of the claim predicate, who-writes table of the tracker fields and who-reads table of reader types (rules/writers.json, rules/readers.json), shared disposition rules of C02/C05",
    "text": "Decides on every arm and every reader path that the prepare/start/end protocol agrees, that readers reach tracker data only behind the reacting flag, their own reaction variant and their own TypeId, and that the claim of pending metadata identifies the command. The last clause is violated on the current tree (claim by system id only): recorded as four known findings (F3), any other violation still alarms.",
    "note": TRUSTED + "Not decided: the behavioural claim for arbitrary mixes of pending events (refuted by F3); payload values.",
}
CHECKS["C04"] = {
    "technique": "interprocedural linear-use counting of the cleanup value over MIR (path-count summaries through crate callees and closures), dominator ordering rule in run_initialized_system, effective-visibility facts, parametricity argument for the payload take",
    "text": "Proves for every path of every crate function that carries the cleanup that it is consumed exactly once, before the run's deferred commands in both runner configurations; that flag setters and payload types are unreachable from outside the crate; that the system-event payload is moved out of an Option without Clone bound or unsafe.",
    "note": TRUSTED + "Not decided: user-supplied SystemCommandCallback::with closures; visibility over whole trees needs Bevy's flush order (trusted). One named exception (ReactCommands::once outer closure, already-taken arm).",
}
CHECKS["C12"] = {
    "technique": "symbolic sequence algebra over MIR (every path of every postponed-queue method is executed symbolically on sequence-valued places and compared with the contract of the method's signature role: attach = existing++argument, detach, push, pop, spare buffers stored empty) plus container-operation classification of the pending lists and the replay traversal against a frozen order table",
    "text": "Decides that every container between 'sent' and 'seen' is FIFO on every path: any order-destroying or unclassified operation on the four pending lists, the postponed queue or the replay traversal is reported with its call site. Fired on the pinned tree (swap_remove, F1), repaired by fix commit 4d2420e; re-fires if it returns.",
    "note": TRUSTED + "Not decided: 'each with its own data' for mixed kinds (C03 finding F3); Bevy's FIFO command application.",
}

CHECKS["C01"] = {
    "technique": "sibling cross-check (kind graph) extracted from MIR: reactor_type / register / revoke arm / dispatch loops per trigger kind; loop-shape rules (one command per element, single exit, not skippable) with canonical collection sources",
    "text": "Decides that the register, revoke, schedule and reactor_type siblings of every trigger kind agree on table, sub-list, key type and reaction variant, that kinds do not share targets, that every dispatch loop queues exactly one command per registration with no early exit and cannot be skipped while its list is non-empty, and that the entity-scoped filter compares the whole reaction type.",
    "note": TRUSTED + "Not decided: which registrations are live at a given instant over arbitrary histories; Bevy applying the queued commands.",
}
CHECKS["C05"] = {
    "technique": "symbolic length decomposition vs. iteration sources (multiset equality of canonical collection sources), dominator rule for the zero-listener arm, provenance of every tracker end() result, path counting in the abort helper",
    "text": "Decides that the reader count equals the number of commands queued (same lists summed and iterated, one command per element, no early exit), that a payload is spawned only if it will be read, that every end()/abort passes the payload entity to the release helper exactly once and that the helper decrements by one and despawns only at zero.",
    "note": TRUSTED + "Not decided: listeners revoked between scheduling and running; entity counts at quiescence.",
}
CHECKS["C06"] = {
    "technique": "A4 variant-arm association + shared kind graph; loop/index provenance in each revoke_* (enumerate index of the element compared equal); closure edge conditions or index-scan loop recogniser in EntityReactors::remove; must-pass-through rule for the dispatch of every token entry; call-graph reachability for deferral; provenance of world-reactor system ids; who-writes table of the reactor tables (rules/writers.json)",
    "text": "Decides that revocation dispatch is exhaustive and agrees with registration, removes exactly the matching entry and stops, edits the tables immediately (no deferral reachable), tolerates dead or absent entries without panicking, and that world reactors revoke with the id and triggers they registered.",
    "note": TRUSTED + "Not decided: command order relative to the next trigger (Bevy); duplicate registrations of one trigger.",
}

CHECKS["C07"] = {
    "technique": "ownership analysis over MIR and the ADT table: transitive type walk for holder fields, release-operation classification per holder, linearity of every by-value ReactorHandle parameter (stored or forwarded on every path), expected-zero deny-list of leak primitives, move/borrow/drop typestate of the prepared handle, provenance classification of every despawn call site",
    "text": "Decides where clones of the ref-counted reactor handle can live and that each such place has a release; that the mode selects the handle kind; that registration only lends the handle and clones once per queued registration; that the despawn reaction moves handles and clears the slot it fills; that no despawn call takes its entity from a handle, a sys_command() result or a table entry.",
    "note": TRUSTED + "Not decided: the count over histories (Arc's count given the decided clauses); when GC runs.",
}

CHECKS["C08"] = {
    "technique": "call-graph reachability with generic-argument tracking (track_removals::<C>), entry-point classification of the removal collector, dominator rules for the DespawnTracker guard and entity identity, must-pass-through poll rule on every run path and dominance of the entry pass over the callback lookup, generic-argument facts of add_systems/after/in_set",
    "text": "Decides that removal/despawn detectors are installed by both removal triggers for their own type, are persistent and not duplicated, that a DespawnTracker is never replaced and reports the entity it sits on exactly once, that the polled dispatch loops are exhaustive, and that polling happens after every run and in Last after auto-despawn.",
    "note": TRUSTED + "Not decided: exactly-once over arbitrary histories between polls (RemovedComponents buffering and component drop on despawn are Bevy's contract).",
}
CHECKS["C09"] = {
    "technique": "who-may-call rules over the resolved call graph (runner entered only from Command::apply and its replay; dispatch functions only queue), iterator-chain classification against the order table, dominance/reachability rule for the replay position, shared typestate rules of C02/C04/C12",
    "text": "Decides that the crate adds nothing that reorders or runs out of band: in-line only, postponed only when busy and nested, replay after re-insertion through the runner, FIFO buffer, own commands after cleanup. The order itself is produced by Bevy's command queue and is not decided.",
    "note": TRUSTED + "Not decided: the order relation over all pairs of runs of arbitrary trees (Bevy's in-line flush).",
}
CHECKS["C10"] = {
    "technique": "construction-site / who-may-call enumeration from MIR aggregates and the call graph, trait-impl table (no Clone/Copy), field-access enumeration, path counting in Drop, effective visibility; compile-fail/compile-pass witnesses in the thorough tier",
    "text": "Proves by construction that there is one payload per prepare(), one send per payload drop, that only the crate-private collector receives, that the collector drains completely and despawns recursively only found entities, and that setup never replaces the despawner. Thread interleavings are delegated to Arc and crossbeam.",
    "note": TRUSTED + "Not decided: interleavings of drops with collection (Arc / crossbeam contracts).",
}
CHECKS["C11"] = {
    "technique": "conjunction of MIR path rules (must-pass-through, path counting, who-writes enumeration), one per bookkeeping item; shared obligations of C02/C03/C04/C05",
    "text": "Decides that every path restores the tree counter, the postponed queue, the pending-metadata lists (one claim per prepare), the reacting flags and the stored callback.",
    "note": TRUSTED + "Not decided: state after a panic unwinds through a tree; user callbacks that ignore the cleanup.",
}
CHECKS["C13"] = {
    "technique": "A4 variant arms + must-pass-through write-back rule in both run_with_cleanup functions, provenance of the written-back system, data-flow of the system argument from every registration entry point (sinks, and must-pass-through of a sink on every returning path), trait-impl table",
    "text": "Decides that an initialized system is always written back as Initialized with the same system value, that initialization happens only on the New arm, that every registration builds and owns its own system (never a type-keyed cache), that the stored callback is private and conserved by the runner.",
    "note": TRUSTED + "Not decided: Bevy keeping Local state across run_unsafe calls.",
}

CHECKS["C14"] = {
    "technique": "interprocedural path counting of trigger events (syscall whose system is a mutation/insertion/resource scheduler) per accessor; two-path shape rule for set_if_neq (edge conditions on PartialEq::eq); dominator rules for insert (call time) and for the presence check in the deferred insertion scheduler",
    "text": "Decides the trigger effect of every accessor on every path: reacting accessors exactly one, set_if_neq zero/one split exactly by the comparison with replace and Some(previous), non-reacting accessors none, insertion reactions only behind a presence check. Fired on the pinned tree (insertion reactions for a despawned entity, F2), repaired by fix commit b7248e2; re-fires if the check is removed.",
    "note": TRUSTED + "Not decided: values ('stores the value' is decided as 'the replace happens').",
}
CHECKS["C15"] = {
    "technique": "closure typestate over MIR: Option::take guard of the stored closure, must-pass-through rules (despawn + revoke after the run on every path), provenance of entity / token / triggers / mode constant inside ReactCommands::once, must-pass-through of registration and callback storage after the entity is reserved, shared registration rule of C01.a",
    "text": "Decides that the once wrapper can run its reactor at most once, that every path after the run despawns the reactor's own fresh entity and revokes a clone of the returned token, and that registration, token, storage and despawn share one identity with mode Revokable.",
    "note": TRUSTED + "Not decided: which trigger fires first (ordering, C01/C02).",
}
CHECKS["C16"] = {
    "technique": "call-graph reachability (no spawn / despawn from world-reactor methods), constant-mode and id provenance, path counting in the App add methods, dominance/ordering and loop-shape rules in EntityReactor::add/remove, A4 exhaustiveness of ReactorType::get_entity, expected-zero rule for removals of the EntityReactors component, shared reader-gating and one-run-per-command rules",
    "text": "Decides that world reactors never spawn or despawn their system and always register Persistent with the resource-held id; that local data is attached to the trigger entity before registration; that removal revokes first and then cleans up once per token entity, removing data only when no entry of the reactor remains; that EntityLocal reads the data of the entity it reports.",
    "note": TRUSTED + "Not decided: histories over several entities; value of the data.",
}
CHECKS["C17"] = {
    "technique": "take-run-put-back typestate (path counting + must-pass-through) on syscall_with_validation, named_syscall, named_syscall_direct, spawned_syscall; key-origin agreement; generic-argument facts for the cache key; create-initialize-run lifecycle rule; sibling agreement of the deferred / forwarding syscall variants",
    "text": "Decides on every path of the four entry points that the cached system is taken, run exactly once with its deferred commands applied, and put back under the same key (system type / name+type / spawned id); that errors are returned before any run; that initialization happens only when not cached.",
    "note": TRUSTED + "Not decided: outputs; nested recursive calls beyond the documented warning. One named exception (`?` after run for CallbackSystem::Empty).",
}
CHECKS["C18"] = {
    "technique": "A8 lookup discipline over the deferred-execution call graph (roots: Command::apply impls, systems given to syscall, queued closures, reified setup/cleanup fns, stored callbacks, GC, poll): deny-list of panicking Bevy lookups with dominator-based liveness that is invalidated by intervening &mut World calls; unwrap-of-lookup and panic-on-failure-arm rules; shared abort/release and revoke-exactness rules",
    "text": "Decides that no framework code that runs at apply time panics on a stale entity or missing component, that deferred inserts of the reactivity API tolerate a despawned entity, that stale targets abort without running anything and release their payload, and that revocation leaves other registrations alone.",
    "note": TRUSTED + "Not decided: the operation x despawn-point product (covered by its projection onto lookup sites); documented reader-side and missing-plugin panics are API contract.",
}

NOT_APPLICABLE = {}

"""C13 - Each registered system owns one persistent, private system state (DESIGN.md section 4, C13)."""
import re
import mir
from mir import op_fn, op_place, origins
import lib
import anchors as A
import core

EXPLANATION = (
    "The state lives in the system value held by the stored callback. Decided: the callback taken by the runner is "
    "re-inserted on every path (C02.b) and the storage component is private and reachable only through take/insert; in "
    "both run_with_cleanup functions the system is initialized only on the New arm and every returning path that "
    "obtained a system from the mem::take writes back Initialized(<that same system>) - never New, never nothing; "
    "SystemCommandCallback::new builds its RawCallbackSystem from its own argument and moves it into the boxed closure; "
    "the reactor/system argument of the registration entry points flows only into SystemCommandCallback::new (never into "
    "a type-keyed cache such as syscall / named_syscall); SystemCommandCallback is not Clone.")

NOT_DECIDED = ["that Bevy's System keeps Locals across run_unsafe calls (trusted)"]


def _takes_callback_state(m, t):
    """the first operand of a mem::take / mem::replace is a `&mut (Raw)CallbackSystem<..>`"""
    p = op_place(t["args"][0]) if t["args"] else None
    if p is None or p["p"]:
        return False
    ty = m.local_ty(p["l"])
    return ty.startswith("&mut ") and re.search(r"::(Raw)?CallbackSystem<", ty) is not None


def _check_rwc(ctx, prog, m, depth=0, require_init=True, by_type=False):
    """C13.b for one run_with_cleanup function. If the taken state is matched inside a crate-local callee (e.g. an
    extraction helper such as `take_initialized`), the callee is inlined at that call site and the rule is evaluated on
    the inlined body: inlining preserves semantics, so the rule holds for the program if it holds there."""
    ctx.touch(m, calls=len(list(m.iter_calls())))
    fk = lib.fkey(m)
    takes = [b for b, t, fr in m.iter_calls() if fr and lib.tail(mir.fn_name(fr), 2) in ("mem::take", "mem::replace")
             and (_takes_callback_state(m, t) if by_type else lib.originates_from_arg(m, t["args"][0], 1))]
    if not ctx.check(len(takes) == 1, "C13.b", "%s:takes-self-once" % fk, "%s:%d" % (m.file, m.line), "", "self is taken %d times" % len(takes)):
        return
    tb = takes[0]
    dest = m.blocks[tb]["term"]["dest"]["l"]
    aliases = {dest}     # whole-value moves of the taken state (parameter binding of an inlined callee)
    grew = True
    while grew:
        grew = False
        for b_, i_, s_ in m.iter_stmts():
            if s_["k"] == "assign" and not s_["place"]["p"] and "use" in s_["rv"]:
                p_ = op_place(s_["rv"]["use"])
                if p_ and not p_["p"] and p_["l"] in aliases and s_["place"]["l"] not in aliases:
                    aliases.add(s_["place"]["l"])
                    grew = True
    sw = [sb for sb, pl, tg, ow in lib.discr_switches(m) if pl["l"] in aliases and not pl["p"]]
    if not sw:
        # the state may be matched by a crate-local callee that receives the taken value (an extraction helper)
        if depth < 2:
            import inline
            for b, t, fr in m.iter_calls():
                if fr is None or b == tb or not t["args"] or prog.resolve_local(fr) is None:
                    continue
                if any(lib.originates_from_call(m, a, tb) for a in t["args"]):
                    m2 = inline.inline_at(prog, m, b)
                    if m2 is not None:
                        ctx.notes.append("C13.b: %s matches the taken state inside %s; evaluated on the body with that call inlined" % (fk, lib.tail(mir.fn_name(fr), 2)))
                        return _check_rwc(ctx, prog, m2, depth + 1, require_init, by_type)
        ctx.fail("C13.b", "%s:anchor-lost:state-match" % fk, m.loc(tb), "taken state is not matched")
        return
    arms, ow, adt = lib.enum_arms(m, prog, sw[0])
    if ow is not None and not m.is_unreachable_block(ow):
        # `let Enum::New(x) = taken else { .. }` / a catch-all arm: the variants without an arm of their own go there
        arms = dict(arms)
        for v in ("Empty", "New", "Initialized"):
            arms.setdefault(v, ow)
    inits = [b for b, t, fr in m.iter_calls() if fr and lib.tail(mir.fn_name(fr), 2) == "System::initialize"]
    for b in inits:
        ctx.check("New" in arms and m.dominates(arms["New"], b), "C13.b", "%s:initialize-only-on-New" % fk, m.loc(b),
                  "initialize is on the New arm", "System::initialize is called outside the New arm (an initialized system would be reset)")
    if require_init:
        ctx.check(bool(inits), "C13.b", "%s:New-arm-initializes" % fk, "%s:%d" % (m.file, m.line), "", "the New arm does not initialize the system")
    # write-backs: assignments to *self
    wbs = []
    for b, i, s in m.iter_stmts():
        if s["k"] == "assign" and s["place"]["l"] == 1 and s["place"]["p"] == ["deref"]:
            wbs.append((b, i, s["rv"]))
    good = []
    for b, i, rv in wbs:
        src = rv.get("use")
        ok = False
        for o in (origins(m, src) if src else ()):
            if o[0] == "agg":
                ag = m.blocks[o[1]]["stmts"][o[2]]["rv"]["agg"]
                if ag.get("vname") == "Initialized":
                    so = origins(m, ag["ops"][0])
                    ok = bool(so) and all(x[0] == "call" and x[1] == tb and x[2] in ("@New", "@Initialized") for x in so)
                elif ag.get("vname") == "New":
                    ctx.fail("C13.b", "%s:writes-back-New" % fk, m.loc(b, i), "the system is written back as New: it would be re-initialized (state reset) on the next run")
        if ok:
            good.append(b)
        else:
            ctx.fail("C13.b", "%s:write-back-not-the-taken-system" % fk, m.loc(b, i), "self is overwritten with something other than Initialized(<the taken system>)")
    for v in ("New", "Initialized"):
        if v not in arms:
            ctx.fail("C13.b", "%s:anchor-lost:%s-arm" % (fk, v), m.loc(sw[0]), "no %s arm" % v)
            continue
        w = lib.path_to_return_avoiding(m, [arms[v]], good)
        ctx.check(w is None and bool(good), "C13.b", "%s[%s]:system-written-back" % (fk, v), m.loc(arms[v]),
                  "every returning path from the %s arm stores Initialized(system) back into self" % v,
                  "a path from the %s arm returns without storing the system back (its state would be lost)" % v,
                  lib.render_path(m, w) if w else None)



def check(ctx):
    ctx.explanation = EXPLANATION
    ctx.not_decided = NOT_DECIDED
    prog = ctx.prog
    import c02
    # ---- C13.a ----
    n = core.adopt(ctx, c02, lambda o: o["rule"] == "C02.b" or (o["rule"] == "C02.a" and "run-uses-taken-callback" in o["key"]), "C13.a")
    # 'all of its runs, including runs postponed by recursion': a postponed run is replayed, and only the root of a tree
    # (counter == 0, reset only there, incremented once per run) may discard what is left (shared with C02.c)
    n += core.adopt(ctx, c02, lambda o: o["rule"] == "C02.c" and any(k in o["key"] for k in ("root-resets-counter", "one-counter-increment", "discard",
                    "run-path-always-replays", "counter-increment", "replay-present", "drop-only-after-run")), "C13.a")
    ctx.floor("C13.a", n, 3, "shared callback-conservation obligations")
    try:
        st = prog.adt_by_name("SystemCommandStorage")
        f = st["variants"][0]["fields"]
        ctx.check(st["reachable"] is False and all(x["vis"] != "Public" for x in f), "C13.a", "SystemCommandStorage:private", "%s:%d" % (st["file"], st["line"]),
                  "storage type not reachable from outside and its field is private", "SystemCommandStorage or its field is accessible from outside the crate")
        touchers = set()
        for body in prog.bodies:
            for b, i, s in body.iter_stmts():
                if s["k"] != "assign":
                    continue
                ps = [s["place"]] + [p for p in (s["rv"].get("ref"), s["rv"].get("rawptr")) if p] + [op_place(o) for o in mir.rv_operands(s["rv"]) if op_place(o)]
                for p in ps:
                    if any(a == st["path"] and nm == "callback" for a, nm in lib.fields_in(p)):
                        touchers.add(lib.fkey(body))
        NM = A.names(prog)
        ctx.check(touchers <= {"SystemCommandStorage::new", NM["storage_insert"], NM["storage_take"]}, "C13.a",
                  "SystemCommandStorage.callback:only-via-new-take-insert", "%s:%d" % (st["file"], st["line"]), "field touched by %s" % sorted(touchers),
                  "the stored callback is accessed outside new/take/insert: %s" % sorted(touchers))
    except mir.AnchorLost as e:
        ctx.fail("C13.a", "anchor-lost:SystemCommandStorage", "", str(e))

    # ---- C13.b write back Initialized(same system) ----
    rwc = [b for b in prog.bodies if b.raw.get("name") == "run_with_cleanup" and b.kind == "assoc_fn"]
    ctx.floor("C13.b", len(rwc), 2, "run_with_cleanup functions")
    for m in rwc:
        _check_rwc(ctx, prog, m)
    # any other method of the callback-system enums that moves the state out of `self` owes the same write-back
    for m in prog.bodies:
        if m.kind != "assoc_fn" or m.raw.get("impl_trait") or m in rwc or not m.local_ty(1).startswith("&mut "):
            continue
        if not re.sub(r"<.*$", "", m.raw.get("impl_self", "")).endswith(("::CallbackSystem", "::RawCallbackSystem")):
            continue
        if any(fr and lib.tail(mir.fn_name(fr), 2) in ("mem::take", "mem::replace") and lib.originates_from_arg(m, t["args"][0], 1) for b, t, fr in m.iter_calls()):
            _check_rwc(ctx, prog, m, require_init=False)

    # ... and so does any other function or closure that takes the state out of a callback system it holds by reference (a new
    # run method inlined into its caller in the normalised view, or open-coded there)
    for m in prog.bodies:
        if m in rwc or (m.kind == "assoc_fn" and re.sub(r"<.*$", "", m.raw.get("impl_self", "") or "").endswith(("::CallbackSystem", "::RawCallbackSystem"))):
            continue
        if any(fr and lib.tail(mir.fn_name(fr), 2) in ("mem::take", "mem::replace") and _takes_callback_state(m, t) for b, t, fr in m.iter_calls()):
            _check_rwc(ctx, prog, m, require_init=False, by_type=True)

    # ---- C13.c one state per registration ----
    try:
        new = A.method(prog, "SystemCommandCallback", "new")
        ctx.touch(new)
        raw_new = [(b, t) for b, t, fr in new.iter_calls() if fr and lib.tail(mir.fn_name(fr), 2) == "RawCallbackSystem::new"]
        ok = len(raw_new) == 1 and lib.originates_from_arg(new, raw_new[0][1]["args"][0], 1)
        captured = False
        if ok:
            for b, i, clo, ops, dl in lib.closure_aggregates(new):
                if any(lib.originates_from_call(new, o, raw_new[0][0]) for o in ops):
                    captured = True
        ctx.check(ok and captured, "C13.c", "SystemCommandCallback::new:owns-fresh-system", "%s:%d" % (new.file, new.line),
                  "RawCallbackSystem::new(system) is moved into the stored closure", "SystemCommandCallback::new does not build and capture a system of its own from its argument")
    except mir.AnchorLost as e:
        ctx.fail("C13.c", "anchor-lost:SystemCommandCallback::new", "", str(e))
    # entry points: the system argument flows only to SystemCommandCallback::new / spawn_system_command*
    entries = []
    for body in prog.bodies:
        nm = body.raw.get("name")
        if nm in ("spawn_system_command", "spawn_rc_system_command") or (lib.impl_self_name(body) == "ReactCommands" and nm in ("on", "on_persistent", "on_revokable")):
            entries.append(body)
        if nm == "add_reactor" and body.kind == "assoc_fn":
            entries.append(body)
    ctx.floor("C13.c", len(entries), 7, "registration entry points taking a system")
    ALLOWED = ("SystemCommandCallback::new", "spawn_system_command", "ReactCommands::on_persistent", "ReactCommands::on", "ReactCommands::on_revokable")
    for e in entries:
        ctx.touch(e)
        # the system parameter: the last parameter whose type is a generic `impl IntoSystem` / type param
        sys_args = [i for i in range(1, e.arg_count + 1) if ("IntoSystem" in e.local_ty(i) or e.local_ty(i) in ("S",))]
        if not sys_args:
            ctx.fail("C13.c", "%s:anchor-lost:system-parameter" % lib.fkey(e), "%s:%d" % (e.file, e.line), "no system parameter found: %s" % [e.local_ty(i) for i in range(1, e.arg_count + 1)])
            continue
        sa = sys_args[-1]
        bodies = [e] + prog.closures_of(e)
        sinks = []
        for bd in bodies:
            for b, t, fr in bd.iter_calls():
                for a in t["args"]:
                    os_ = origins(bd, a)
                    direct = bd is e and os_ and all(o[0] == "arg" and o[1] == sa and len(o) == 2 for o in os_)
                    viacap = bd is not e and os_ and all(o[0] == "arg" and o[1] == 1 for o in os_) and "IntoSystem" in str(bd.local_ty(op_place(a)["l"]) if op_place(a) else "")
                    if direct or viacap:
                        sinks.append((bd.loc(b), lib.tail(mir.fn_name(fr), 2) if fr else "?"))
        # ... and on every path: a path that returns without handing the given system to a registration of its own (e.g.
        # because "the same function was registered before" and only the triggers are added to that registration)
        # shares one system state between two registrations
        sink_blocks = set()
        for b, t, fr in e.iter_calls():
            for a in t["args"]:
                os_ = origins(e, a)
                if os_ and all(o[0] == "arg" and o[1] == sa and len(o) == 2 for o in os_):
                    sink_blocks.add(b)
                for o in os_:
                    if o[0] == "agg" and len(o) == 3:
                        ag_ = e.blocks[o[1]]["stmts"][o[2]]["rv"].get("agg") or {}
                        if ag_.get("kind") == "closure" and any(
                                oo[0] == "arg" and oo[1] == sa and len(oo) == 2 for cap in ag_["ops"] for oo in origins(e, cap)):
                            sink_blocks.add(b)
        wp = lib.path_to_return_avoiding(e, [0], sorted(sink_blocks)) if sink_blocks else None
        ctx.check(bool(sink_blocks) and wp is None, "C13.c", "%s:every-path-registers-the-given-system" % lib.fkey(e), "%s:%d" % (e.file, e.line),
                  "every returning path hands the system argument to a registration (directly or through a closure that captures it)",
                  "a path of %s returns without registering the system it was given: the triggers end up on another registration's system "
                  "(shared Locals) or nowhere" % lib.fkey(e), lib.render_path(e, wp) if wp else None)
        bad = [s for s in sinks if not any(s[1].endswith(a) for a in ALLOWED)]
        ctx.check(bool(sinks) and not bad, "C13.c", "%s:system-flows-only-into-own-callback" % lib.fkey(e), "%s:%d" % (e.file, e.line),
                  "system argument flows to %s" % sorted({s[1] for s in sinks}),
                  "the system argument reaches %s: a shared or type-keyed system would share state between registrations" % bad)
    # a world reactor type is registered (and its state created) at most once (shared with C16.a)
    import c16
    n16 = core.adopt(ctx, c16, lambda o: o["rule"] == "C16.a" and "spawns-exactly-one-system-or-panics" in o["key"], "C13.c")
    ctx.floor("C13.c", n16, 3, "shared world-reactor registration obligations (C16.a)")
    try:
        cb = prog.adt_by_name("SystemCommandCallback")
        for tr in ("Clone", "Copy"):
            ctx.check(not prog.type_impls(cb["path"], tr), "C13.c", "SystemCommandCallback:not-%s" % tr, "%s:%d" % (cb["file"], cb["line"]), "",
                      "SystemCommandCallback is %s: two registrations could share one state" % tr)
    except mir.AnchorLost as e:
        ctx.fail("C13.c", "anchor-lost:SystemCommandCallback", "", str(e))

"""C10 - Auto-despawn is an exact reference count (DESIGN.md section 4, C10).
Decides by construction: one payload per prepare, one send per payload, only the framework receives."""
import re

import mir
from mir import op_fn, op_place, origins
import lib
import loops as LP
import tables as T
import anchors as A

EXPLANATION = (
    "Type-level and call-graph argument with enumerated obligations: the payload struct AutoDespawnSignalInner is "
    "constructed only in AutoDespawnSignal::new, which is called only from AutoDespawner::prepare; it is neither Clone nor "
    "Copy; Clone for AutoDespawnSignal clones the Arc and constructs nothing; Drop for the payload has one path with "
    "exactly one send of its own entity on its own sender and nothing else touches those fields; the despawner's sender "
    "is only cloned into prepare and its receiver only read by the crate-private try_recv, whose only caller is the "
    "collector; the signal's field is private; the payload's fields are Send + Sync types; the collector drains until "
    "the channel is empty, looks each entity up fallibly and despawns recursively on the found arm only; the resource is "
    "inserted only when absent (a second insertion would orphan live signals).")

NOT_DECIDED = [
    "interleavings of clone drops on worker threads with collection: delegated to Arc (exactly one drop of the payload) and crossbeam's channel (a sent value is received once), both trusted",
]

SEND_SYNC_LEAVES = ("bevy_ecs::entity::Entity", "crossbeam_channel::channel::Sender<bevy_ecs::entity::Entity>",
                    "crossbeam_channel::channel::Receiver<bevy_ecs::entity::Entity>", "usize", "u64", "u32", "bool")


def check(ctx):
    ctx.explanation = EXPLANATION
    ctx.not_decided = NOT_DECIDED
    prog = ctx.prog
    # where does the despawn signal get sent? It must be the Drop of the payload *inside* the Arc (runs exactly once, on
    # whichever thread drops the last clone), never a Drop of the cloneable handle guarded by a count test
    try:
        sig0 = prog.adt_by_name("AutoDespawnSignal")
        arc_payload = None
        mm = re.match(r"alloc::sync::Arc<(.+)>$", sig0["variants"][0]["fields"][0]["ty"]) if len(sig0["variants"][0]["fields"]) == 1 else None
        if mm:
            arc_payload = mm.group(1)
        handle_drop = [im for im in prog.impls if im.get("self_adt") == sig0["path"] and (im.get("trait") or "").endswith("ops::drop::Drop")]
        payload_drop = [im for im in prog.impls if arc_payload and im.get("self_adt") == arc_payload and (im.get("trait") or "").endswith("ops::drop::Drop")]
        ctx.check(bool(arc_payload) and bool(payload_drop) and not handle_drop, "C10.b", "AutoDespawnSignal:signal-sent-by-Arc-payload-drop", "%s:%d" % (sig0["file"], sig0["line"]),
                  "the handle is Arc<%s>, the payload implements Drop, the handle itself does not" % arc_payload,
                  "the despawn signal is not sent from the Drop of the Arc payload (handle Drop impls: %d, payload Drop impls: %d): a count test in the handle's Drop races when the last clones are dropped on different threads" % (len(handle_drop), len(payload_drop)))
        uses_count = [lib.fkey(bd) for bd in prog.bodies if "ecs::auto_despawn" in bd.path for b, t, fr in bd.iter_calls()
                      if fr and lib.tail(mir.fn_name(fr), 2) in ("Arc::strong_count", "Arc::weak_count", "Arc::get_mut", "Arc::try_unwrap", "Arc::into_inner")]
        ctx.check(not uses_count, "C10.b", "auto_despawn:no-manual-refcount-inspection", "", "", "manual Arc count inspection in %s (racy 'last copy' detection)" % uses_count)
    except (mir.AnchorLost, IndexError) as e:
        ctx.fail("C10.b", "anchor-lost:AutoDespawnSignal", "", str(e))
    try:
        inner = prog.adt_by_name(A.signal_payload_name(prog))
        sig = prog.adt_by_name("AutoDespawnSignal")
        desp = prog.adt_by_name("AutoDespawner")
        prep = A.method(prog, "AutoDespawner", "prepare")
        gc = A.free_fn(prog, A.TABLE["gc"])
        # the two small private helpers may have been inlined into their only callers (the payload is then built in
        # prepare(), the channel is then read by the collector itself): same obligations, other site
        try:
            new = A.method(prog, "AutoDespawnSignal", "new")
        except mir.AnchorLost:
            new = None
        try:
            try_recv = A.method(prog, "AutoDespawner", "try_recv")
        except mir.AnchorLost:
            try_recv = None
        drop = A.trait_method(prog, A.signal_payload_name(prog), "Drop", "drop")
        clone = A.trait_method(prog, "AutoDespawnSignal", "Clone", "clone")
        ent = A.method(prog, "AutoDespawnSignal", "entity")
    except mir.AnchorLost as e:
        ctx.fail("C10.anchor", "anchor-lost", "", str(e))
        return
    for b in (new, prep, try_recv, gc, drop, clone, ent):
        if b is not None:
            ctx.touch(b, calls=len(list(b.iter_calls())))
    # private field names by type (they may be renamed): the despawner's two channel ends, the payload's entity and sender
    def _by_ty(adt_, pat_, dflt_):
        fs_ = [f_["name"] for f_ in adt_["variants"][0]["fields"] if re.search(pat_, f_["ty"])]
        return fs_[0] if len(fs_) == 1 else dflt_
    D_SND = _by_ty(desp, r"channel::Sender<bevy_ecs::entity::Entity>$", "sender")
    D_RCV = _by_ty(desp, r"channel::Receiver<bevy_ecs::entity::Entity>$", "receiver")
    P_ENT = _by_ty(inner, r"^bevy_ecs::entity::Entity$", "entity")
    P_SND = _by_ty(inner, r"channel::Sender<bevy_ecs::entity::Entity>$", "sender")
    build = new if new is not None else prep        # where the payload is built
    recv = try_recv if try_recv is not None else gc  # where the channel is read
    # ---- C10.a one payload per prepare ----
    sites = []
    for body in prog.bodies:
        for b, i, st in body.iter_stmts():
            if st["k"] == "assign" and "agg" in st["rv"] and st["rv"]["agg"].get("adt") == inner["path"]:
                sites.append((body, b))
    ctx.check([s[0].path for s in sites] == [build.path], "C10.a", "AutoDespawnSignalInner:constructed-only-in-new", "%s:%d" % (build.file, build.line),
              "single construction site", "payload constructed in %s" % [lib.fkey(s[0]) for s in sites])
    if new is not None:
        callers = prog.callers_of(lambda n: n == new.path)
        ctx.check([c[0].path for c in callers] == [prep.path], "C10.a", "AutoDespawnSignal::new:called-only-from-prepare", "%s:%d" % (prep.file, prep.line),
                  "single caller", "AutoDespawnSignal::new is called from %s" % [lib.fkey(c[0]) for c in callers])
        ctx.check(new.raw.get("reachable") is False, "C10.a", "AutoDespawnSignal::new:private", "%s:%d" % (new.file, new.line), "", "AutoDespawnSignal::new is reachable from outside")
    else:
        ctx.ok("C10.a", "AutoDespawnSignal::new:called-only-from-prepare", "%s:%d" % (prep.file, prep.line), "the payload is built in prepare() itself")
        ctx.ok("C10.a", "AutoDespawnSignal::new:private", "%s:%d" % (prep.file, prep.line), "no separate constructor")
    for tr in ("Clone", "Copy"):
        ctx.check(not prog.type_impls(inner["path"], tr), "C10.a", "AutoDespawnSignalInner:not-%s" % tr, "%s:%d" % (inner["file"], inner["line"]),
                  "", "the payload is %s: a copy would send a second despawn signal" % tr)
    cl_calls = [lib.tail(mir.fn_name(fr), 2) for b, t, fr in clone.iter_calls() if fr]
    cl_aggs = [st["rv"]["agg"].get("adt") for b, i, st in clone.iter_stmts() if st["k"] == "assign" and "agg" in st["rv"] and st["rv"]["agg"]["kind"] == "adt"]
    ctx.check(cl_calls == ["Arc::clone"] or cl_calls == ["Clone::clone"] and True, "C10.a", "AutoDespawnSignal::clone:arc-clone-only", "%s:%d" % (clone.file, clone.line),
              "Clone clones the Arc only", "Clone for AutoDespawnSignal calls %s" % cl_calls)
    ctx.check(all(a == sig["path"] for a in cl_aggs), "C10.a", "AutoDespawnSignal::clone:constructs-no-payload", "%s:%d" % (clone.file, clone.line),
              "", "Clone constructs %s" % cl_aggs)
    # prepare passes its own entity and a clone of the despawner's sender
    if new is not None:
        pn = [(b, t) for b, t, fr in prep.iter_calls() if fr and mir.fn_name(fr) == new.path]
        okp = len(pn) == 1
        if okp:
            t = pn[0][1]
            okp = lib.originates_from_arg(prep, t["args"][0], 2) and all(o[0] == "arg" and o[1] == 1 and o[-1] == "." + D_SND for o in origins(prep, t["args"][1]))
    else:
        # built in place: the aggregate's entity operand is the entity argument, its sender operand a clone of self.sender
        okp = False
        for (bd_, b_) in sites:
            for st_ in bd_.blocks[b_]["stmts"]:
                if st_["k"] == "assign" and "agg" in st_["rv"] and st_["rv"]["agg"].get("adt") == inner["path"]:
                    ag_ = st_["rv"]["agg"]
                    fs_ = dict(zip(ag_.get("fields", []), ag_["ops"]))
                    okp = P_ENT in fs_ and P_SND in fs_ and lib.originates_from_arg(prep, fs_[P_ENT], 2)
                    if okp:
                        os_ = origins(prep, fs_[P_SND])      # (provenance looks through Clone::clone)
                        okp = bool(os_) and all(o[0] == "arg" and o[1] == 1 and o[-1] == "." + D_SND for o in os_)
    ctx.check(okp, "C10.a", "AutoDespawner::prepare:own-entity-own-sender", "%s:%d" % (prep.file, prep.line),
              "new(entity, self.sender.clone())", "prepare does not pass its entity argument and the despawner's own sender")

    # ---- C10.b one send per payload ----
    sends = [(b, t) for b, t, fr in drop.iter_calls() if fr and lib.tail(mir.fn_name(fr), 1) in ("send", "try_send", "send_timeout")]
    lossy = [lib.tail(mir.fn_name(fr), 2) for b, t, fr in drop.iter_calls() if fr and lib.tail(mir.fn_name(fr), 1) in ("try_send", "send_timeout", "send_deadline")]
    ctx.check(not lossy, "C10.b", "AutoDespawnSignalInner::drop:send-cannot-be-refused", "%s:%d" % (drop.file, drop.line), "the Drop uses the blocking send on an unbounded channel",
              "the Drop sends with %s, which can silently refuse the signal (the entity would never be despawned)" % lossy)
    cnt, _, _ = lib.event_counts(drop, [b for b, t in sends])
    oks = cnt == {1} and len(sends) == 1
    if oks:
        t = sends[0][1]
        oks = all(o[0] == "arg" and o[1] == 1 and o[-1] == "." + P_SND for o in origins(drop, t["args"][0])) and \
            all(o[0] == "arg" and o[1] == 1 and o[-1] == "." + P_ENT for o in origins(drop, t["args"][1]))
    ctx.check(oks, "C10.b", "AutoDespawnSignalInner::drop:one-send-of-own-entity", "%s:%d" % (drop.file, drop.line),
              "Drop sends self.entity on self.sender exactly once on its only path", "Drop sends %s times or not its own entity on its own sender" % sorted(cnt))
    readers = {}
    for body in prog.bodies:
        for b, i, st in body.iter_stmts():
            if st["k"] != "assign":
                continue
            places = []
            rv = st["rv"]
            for k in ("ref", "rawptr", "discr"):
                if k in rv:
                    places.append(rv[k])
            for op in mir.rv_operands(rv):
                if op_place(op):
                    places.append(op_place(op))
            places.append(st["place"])
            for p in places:
                for adt, nm in lib.fields_in(p):
                    if adt == inner["path"]:
                        readers.setdefault(nm, set()).add(body.path)
        for b, t, fr in body.iter_calls():
            for a in t["args"]:
                p = op_place(a)
                if p:
                    for adt, nm in lib.fields_in(p):
                        if adt == inner["path"]:
                            readers.setdefault(nm, set()).add(body.path)
    allowed = {"entity": {build.path, drop.path, ent.path}, "sender": {build.path, drop.path}}
    for f in ("entity", "sender"):
        extra = readers.get(P_ENT if f == "entity" else P_SND, set()) - allowed[f]
        ctx.check(not extra, "C10.b", "AutoDespawnSignalInner.%s:touched-only-by-new-drop%s" % (f, "-entity" if f == "entity" else ""), "",
                  "field touched only by %s" % sorted(lib.tail(x, 2) for x in readers.get(f, set())), "field %s of the payload is used in %s" % (f, sorted(extra)))

    # ---- C10.c only the framework receives ----
    users = {"sender": set(), "receiver": set()}
    for body in prog.bodies:
        for b, t, n, ch in lib.field_method_calls(body, desp["path"], D_SND):
            users["sender"].add((body.path, lib.tail(n, 2)))
        for b, t, n, ch in lib.field_method_calls(body, desp["path"], D_RCV):
            users["receiver"].add((body.path, lib.tail(n, 2)))
    derived_clone = {i["path"] for im in prog.impls if im.get("self_adt") == desp["path"] and im.get("derived") for i in im["items"]}
    su = {u for u in users["sender"] if u[0] not in derived_clone}
    ru = {u for u in users["receiver"] if u[0] not in derived_clone}
    ctx.check(su and all(u[0] == prep.path and u[1] in ("Sender::clone", "Clone::clone") for u in su), "C10.c", "AutoDespawner.sender:only-cloned-in-prepare", "%s:%d" % (prep.file, prep.line),
              "sender used by %s" % sorted(su), "the despawner's sender is used elsewhere: %s" % sorted(su))
    ctx.check(ru and all(u[0] == recv.path for u in ru), "C10.c", "AutoDespawner.receiver:only-read-in-try_recv", "%s:%d" % (recv.file, recv.line),
              "receiver used by %s" % sorted(ru), "the despawner's receiver is read elsewhere: %s" % sorted(ru))
    if try_recv is not None:
        ctx.check(try_recv.raw.get("reachable") is False, "C10.c", "AutoDespawner::try_recv:crate-private", "%s:%d" % (try_recv.file, try_recv.line), "",
                  "try_recv is callable from outside the crate (user code could steal despawn signals)")
        tc = prog.callers_of(lambda n: n == try_recv.path)
        ctx.check({c[0].path for c in tc} == {gc.path}, "C10.c", "AutoDespawner::try_recv:called-only-by-collector", "%s:%d" % (gc.file, gc.line),
                  "", "try_recv is called from %s" % sorted(lib.fkey(c[0]) for c in tc))
    else:
        tc = []
        ctx.ok("C10.c", "AutoDespawner::try_recv:crate-private", "%s:%d" % (gc.file, gc.line), "no separate receive method: the private receiver field is read by the collector only")
        ctx.ok("C10.c", "AutoDespawner::try_recv:called-only-by-collector", "%s:%d" % (gc.file, gc.line), "the collector reads the channel itself")
    for adt in (sig, desp, inner):
        for f in adt["variants"][0]["fields"]:
            ctx.check(f["vis"] != "Public", "C10.c", "%s.%s:private-field" % (adt["path"].split("::")[-1], f["name"]), "%s:%d" % (adt["file"], adt["line"]),
                      "", "field is public: the signal/despawner could be constructed or drained from outside")
    try:
        dn = A.method(prog, "AutoDespawner", "new")
        ctx.touch(dn)
        ok, det = lib.channel_pairing(dn, "AutoDespawner", D_SND, D_RCV)
        ctx.check(ok, "C10.c", "AutoDespawner::new:channel-paired", "%s:%d" % (dn.file, dn.line), "sender and receiver are the two ends of one unbounded channel",
                  "the despawner's sender and receiver are not the two ends of the same channel (%s)" % det)
        cons = [lib.fkey(bd) for bd in prog.bodies for b, i, st in bd.iter_stmts() if st["k"] == "assign" and "agg" in st["rv"] and st["rv"]["agg"].get("adt") == desp["path"]]
        ctx.check(sorted(set(cons) - derived_names(prog, desp["path"])) == ["AutoDespawner::new"], "C10.c", "AutoDespawner:constructed-only-in-new", "%s:%d" % (dn.file, dn.line),
                  "", "AutoDespawner is constructed in %s" % cons)
    except mir.AnchorLost as e:
        ctx.fail("C10.c", "anchor-lost:AutoDespawner::new", "", str(e))
    # ---- C10.d Send + Sync (structural in quick; compile-pass witness in thorough) ----
    for f in inner["variants"][0]["fields"]:
        ctx.check(f["ty"] in SEND_SYNC_LEAVES, "C10.d", "AutoDespawnSignalInner.%s:send-sync-type" % f["name"], "%s:%d" % (inner["file"], inner["line"]),
                  "%s is Send + Sync" % f["ty"], "field type %s is not in the Send+Sync whitelist (inconclusive)" % f["ty"])
    sf = sig["variants"][0]["fields"]
    ctx.check(len(sf) == 1 and sf[0]["ty"] == "alloc::sync::Arc<%s>" % inner["path"], "C10.d", "AutoDespawnSignal:is-arc-of-payload", "%s:%d" % (sig["file"], sig["line"]),
              "signal = Arc<payload>", "signal is %s" % [f["ty"] for f in sf])
    # ---- C10.e collector ----
    Ls = LP.find_loops(gc)
    def _drv_ok(L_):
        dn_ = mir.fn_name(op_fn(gc.blocks[L_.driver]["term"]["func"]))
        if try_recv is not None:
            return dn_ == try_recv.path
        # reads the channel itself: Receiver::try_recv on the despawner's receiver field
        return lib.tail(dn_, 1) == "try_recv" and any(True for (b_, t_, n_, ch_) in lib.field_method_calls(gc, desp["path"], D_RCV) if b_ == L_.driver)
    okl = len(Ls) == 1 and Ls[0].driver is not None and _drv_ok(Ls[0]) and not Ls[0].exits
    ctx.check(okl, "C10.e", "garbage_collect_entities:drains-until-empty", "%s:%d" % (gc.file, gc.line), "single loop driven by try_recv with no other exit",
              "the collector does not drain the channel until it is empty")
    import c07
    ds = [s for s in c07.despawn_sites(prog) if s[0].path == gc.path or (s[0].raw.get("root") == gc.path)]
    ctx.check(len(ds) == 1 and ds[0][2] in ("DespawnRecursiveExt::despawn_recursive", "EntityWorldMut::despawn_recursive") and ds[0][3] == "gc-receiver", "C10.e",
              "garbage_collect_entities:despawns-received-entity-recursively", ds[0][0].loc(ds[0][1]) if ds else "",
              "despawn_recursive of the received entity", "the collector does not despawn_recursive exactly the received entity: %s" % [(d[2], d[3]) for d in ds])
    look = [lib.tail(mir.fn_name(fr), 2) for b, t, fr in gc.iter_calls() if fr and lib.tail(mir.fn_name(fr), 2) in T.FALLIBLE_LOOKUPS | T.PANICKING_LOOKUPS and "entity" in lib.tail(mir.fn_name(fr), 1)]
    ctx.check(look and all(l in T.FALLIBLE_LOOKUPS for l in look), "C10.e", "garbage_collect_entities:fallible-lookup", "%s:%d" % (gc.file, gc.line),
              "entity looked up with %s" % look, "the collector looks the entity up with a panicking API: %s" % look)
    unwraps = [lib.tail(mir.fn_name(fr), 2) for bd in [gc] + prog.closures_of(gc) for b, t, fr in bd.iter_calls() if fr and lib.tail(mir.fn_name(fr), 2) in T.UNWRAPS]
    ctx.check(not unwraps, "C10.e", "garbage_collect_entities:no-unwrap", "%s:%d" % (gc.file, gc.line), "", "collector unwraps: %s" % unwraps)
    # ---- C10.f guarded setup ----
    try:
        sad = A.trait_method(prog, "App", "AutoDespawnAppExt", "setup_auto_despawn")
        ctx.touch(sad)
        ins = [b for b, t, fr in sad.iter_calls() if fr and lib.tail(mir.fn_name(fr), 1) in ("insert_resource", "init_resource") and lib.has_type(fr.get("args"), "AutoDespawner")]
        cont = [b for b, t, fr in sad.iter_calls() if fr and lib.tail(mir.fn_name(fr), 1) == "contains_resource" and lib.has_type(fr.get("args"), "AutoDespawner")]
        ok = bool(ins) and bool(cont)
        if ok:
            arms = lib.bool_arms(sad, cont[0])
            ok = bool(arms) and all(sad.dominates(arms[0][2], b) for b in ins)
        ctx.check(ok, "C10.f", "setup_auto_despawn:inserts-only-when-absent", "%s:%d" % (sad.file, sad.line),
                  "AutoDespawner is inserted only on the !contains_resource arm", "setup_auto_despawn can replace an existing AutoDespawner (every live signal's channel would be orphaned)")
    except mir.AnchorLost as e:
        ctx.fail("C10.f", "anchor-lost:setup_auto_despawn", "", str(e))
    ctx.sample({"payload": inner["path"], "construction_sites": [lib.fkey(s[0]) for s in sites], "try_recv_callers": [lib.fkey(c[0]) for c in tc]})


def derived_names(prog, adt_path):
    out = set()
    for im in prog.impls:
        if im.get("self_adt") == adt_path and im.get("derived"):
            for i in im["items"]:
                b = prog.body(i["path"])
                if b is not None:
                    out.add(lib.fkey(b))
    return out

"""C16 - World reactors: shared system, per-entity local data (DESIGN.md section 4, C16)."""
import mir
from mir import op_fn, op_place, origins
import lib
import loops as LP
import tables as T
import anchors as A
import core

EXPLANATION = (
    "World reactors keep one system: the methods of Reactor / EntityReactor reach no spawn_system_command* and no despawn, "
    "every registration they make passes the constant ReactorMode::Persistent and the id held by the reactor's resource, and "
    "each add_*reactor App method spawns exactly one system on every returning path and panics when the resource already "
    "exists. EntityReactor::add attaches the local data (try_insert) to the same entity its triggers are built for, before "
    "the registration is queued. EntityReactor::remove queues the revoke before the per-entity clean-up calls, issues one "
    "clean-up per unique entity of the token (loop without early exit, entity extraction exhaustive over ReactorType), and "
    "the clean-up removes EntityWorldLocal<T> only where no remaining entry of that entity's reactors has the reactor's id. "
    "EntityLocal reads the data of the reaction source after check() (shared with C03.c).")

NOT_DECIDED = ["'as last modified by earlier runs' (plain component mutation)", "histories of add / remove / despawn over several entities"]


def const_mode(body, op):
    for o in origins(body, op):
        if o[0] == "agg":
            ag = body.blocks[o[1]]["stmts"][o[2]]["rv"]["agg"]
            if ag.get("adt", "").endswith("::ReactorMode"):
                return ag.get("vname")
        return None
    return None


def _capt_is_id(body, op):
    """a captured operand (a value or a reference to it) whose type is the system id"""
    p = mir.op_place(op)
    if p is None:
        return False
    ty = body.local_ty(p["l"]) if not p["p"] else (p["p"][-1].get("ty", "") if isinstance(p["p"][-1], dict) else "")
    return ty.replace("&", "").strip().endswith("::SystemCommand")


def _pair_built_by_map_adapter(prog, rem, L):
    """`token.iter_unique_entities().map(|entity| Pair{ id, entity })`: the closure returns a two-operand aggregate of its own
    parameter (the element) and one captured value, and what it captured is the token's id"""
    drv_arg = rem.blocks[L.driver]["term"]["args"][0]
    maps = [(b, t) for b, t, fr in rem.iter_calls() if fr and lib.tail(mir.fn_name(fr), 2) == "Iterator::map"
            and (lib.originates_from_call(rem, drv_arg, b) or any(b2 == b for b2, _ in lib.receiver_chains(rem, drv_arg)))]
    if len(maps) != 1:
        return False
    clo = None
    for o in origins(rem, maps[0][1]["args"][1]):
        if o[0] == "agg":
            clo = rem.blocks[o[1]]["stmts"][o[2]]["rv"]["agg"]
    if not clo or clo.get("kind") != "closure":
        return False
    try:
        pb = prog.body(clo["closure"])
    except Exception:
        return False
    if pb is None:
        return False
    aggs = []
    for rb in pb.return_blocks():
        pass
    for o in origins(pb, {"move": {"l": 0, "p": []}}):
        if o[0] != "agg":
            return False
        aggs.append(pb.blocks[o[1]]["stmts"][o[2]]["rv"]["agg"])
    if len(aggs) != 1 or len(aggs[0]["ops"]) != 2:
        return False
    el = [o_ for o_ in aggs[0]["ops"] if lib.originates_from_arg(pb, o_, 2)]
    cap = [o_ for o_ in aggs[0]["ops"] if lib.originates_from_arg(pb, o_, 1)]
    if len(el) != 1 or len(cap) != 1 or el[0] is cap[0] or len(clo["ops"]) != 1:
        return False
    os_ = origins(rem, clo["ops"][0])
    return bool(os_) and all(o[0] == "call" and o[-1] == ".id" for o in os_)


def check(ctx):
    ctx.explanation = EXPLANATION
    ctx.not_decided = NOT_DECIDED
    prog = ctx.prog
    import c03, c06
    # ---- C16.a ----
    methods = [m for ty in ("Reactor", "EntityReactor") for m in A.methods_of(prog, ty)]
    ctx.floor("C16.a", len(methods), 7, "world-reactor methods")
    n_with = 0
    for m in methods:
        ctx.touch(m, calls=len(list(m.iter_calls())))
        mk = "%s::%s" % (lib.impl_self_name(m), m.raw.get("name"))
        reach = prog.reachable_bodies([m], depth=4)
        bad = []
        for f in reach:
            for b, t, fr in f.iter_calls():
                if fr is None:
                    continue
                n1, n2 = lib.tail(mir.fn_name(fr), 1), lib.tail(mir.fn_name(fr), 2)
                if n1.startswith("spawn_system_command") or n1.startswith("spawn_rc_system") or n2 in T.DESPAWN_FNS or n2 in ("Commands::spawn", "World::spawn"):
                    bad.append((lib.fkey(f), f.loc(b), n2))
        ctx.check(not bad, "C16.a", "%s:no-spawn-no-despawn" % mk, "%s:%d" % (m.file, m.line),
                  "no system spawn and no despawn reachable (%d functions)" % len(reach), "world-reactor method reaches %s" % bad)
        for b, t, fr in m.iter_calls():
            if fr and lib.tail(mir.fn_name(fr), 2) == "ReactCommands::with":
                n_with += 1
                md = const_mode(m, t["args"][3])
                ctx.check(md == "Persistent", "C16.a", "%s:registers-Persistent" % mk, m.loc(b), "constant ReactorMode::Persistent",
                          "world reactor registers with mode %s (its single system could be despawned)" % md)
    ctx.floor("C16.a", n_with, 3, "ReactCommands::with calls of world reactors")
    n = core.adopt(ctx, c06, lambda o: o["rule"] == "C06.e" and "uses-the-reactor-resource-id" in o["key"], "C16.a")
    ctx.floor("C16.a", n, 5, "shared system-id provenance obligations")
    adders = [b for b in prog.bodies if b.kind == "assoc_fn" and b.raw.get("name") in ("add_world_reactor", "add_world_reactor_with", "add_entity_reactor")
              and lib.impl_self_name(b) == "App"]
    ctx.floor("C16.a", len(adders), 3, "App::add_*reactor methods")
    for m in adders:
        ctx.touch(m)
        sp = [b for b, t, fr in m.iter_calls() if fr and lib.tail(mir.fn_name(fr), 1).startswith("spawn_system_command")]
        cnt, _, _ = lib.event_counts(m, sp)
        cont = [b for b, t, fr in m.iter_calls() if fr and lib.tail(mir.fn_name(fr), 1) == "contains_resource" and any("ReactorRes" in a for a in fr.get("args", []))]
        okp = False
        if cont:
            arms = lib.bool_arms(m, cont[0])
            okp = bool(arms) and not m.can_reach_return(arms[0][1]) and all(m.dominates(arms[0][2], b) for b in sp)
        ins = [(b, t) for b, t, fr in m.iter_calls() if fr and lib.tail(mir.fn_name(fr), 1) == "insert_resource"]
        oki = len(ins) >= 1
        ctx.check(cnt == {1} and okp and oki, "C16.a", "App::%s:spawns-exactly-one-system-or-panics" % m.raw.get("name"), "%s:%d" % (m.file, m.line),
                  "one spawn per returning path; the duplicate arm panics", "add method spawns %s systems per path / does not refuse a duplicate reactor" % sorted(cnt))

    # ---- C16.b data attached with the triggers ----
    try:
        add = A.method(prog, "EntityReactor", "add")
        ctx.touch(add)
        ge = [(b, t) for b, t, fr in add.iter_calls() if fr and lib.tail(mir.fn_name(fr), 2) in ("Commands::get_entity", "Commands::entity")]
        ti = [(b, t, lib.tail(mir.fn_name(fr), 1)) for b, t, fr in add.iter_calls() if fr and lib.tail(mir.fn_name(fr), 2) in ("EntityCommands::try_insert", "EntityCommands::insert")]
        nb = [(b, t) for b, t, fr in add.iter_calls() if fr and lib.tail(mir.fn_name(fr), 1) == "new_bundle"]
        wc = [(b, t) for b, t, fr in add.iter_calls() if fr and lib.tail(mir.fn_name(fr), 2) == "ReactCommands::with"]
        ok = len(ge) == 1 and len(ti) == 1 and len(nb) == 1 and len(wc) == 1
        if ok:
            ent = {tuple(o) for o in origins(add, ge[0][1]["args"][1])}
            ok = {tuple(o) for o in origins(add, nb[0][1]["args"][0])} == ent and all(o[0] == "arg" and o[1] == 3 for o in ent)
            ok = ok and lib.originates_from_call(add, ti[0][1]["args"][0], ge[0][0])
            ok = ok and lib.originates_from_call(add, wc[0][1]["args"][1], nb[0][0])
            ok = ok and add.dominates(ti[0][0], wc[0][0])
            # inserted value is EntityWorldLocal::new(data)
            vo = origins(add, ti[0][1]["args"][1])
            def _is_local_of_data(o):
                if o[0] == "call":
                    return lib.tail(mir.fn_name(op_fn(add.blocks[o[1]]["term"]["func"])), 2) == "EntityWorldLocal::new" \
                        and lib.originates_from_arg(add, add.blocks[o[1]]["term"]["args"][0], 4)
                if o[0] == "agg" and len(o) == 3:       # the one-field wrapper built in place
                    ag_ = add.blocks[o[1]]["stmts"][o[2]]["rv"]["agg"]
                    return ag_.get("adt", "").endswith("::EntityWorldLocal") and len(ag_["ops"]) == 1 and lib.originates_from_arg(add, ag_["ops"][0], 4)
                return False
            ok = ok and all(_is_local_of_data(o) for o in vo) and bool(vo)
        ctx.check(ok, "C16.b", "EntityReactor::add:data-attached-to-trigger-entity-before-registration", "%s:%d" % (add.file, add.line),
                  "try_insert(EntityWorldLocal::new(data)) on the entity the triggers are built for, queued before the registration",
                  "EntityReactor::add does not attach the data to the same entity as its triggers before registering")
        if ti:
            ctx.check(ti[0][2] == "try_insert", "C16.b", "EntityReactor::add:try_insert", add.loc(ti[0][0]), "", "local data is attached with a panicking insert")
    except mir.AnchorLost as e:
        ctx.fail("C16.b", "anchor-lost:EntityReactor::add", "", str(e))

    # ---- C16.c data removed iff last trigger removed ----
    try:
        rem = A.method(prog, "EntityReactor", "remove")
        # role: the function (free, or an associated function of a private type) that removes the reactor's local-data component
        crds = [b_ for b_ in prog.bodies if b_.kind in ("fn", "assoc_fn") and not b_.raw.get("impl_trait") and any(
            fr_ and lib.tail(mir.fn_name(fr_), 2) in ("EntityCommands::remove", "EntityWorldMut::remove") and any("EntityWorldLocal" in a_ for a_ in fr_.get("args", []))
            for _, _, fr_ in b_.iter_calls())]
        crd = crds[0] if len(crds) == 1 else A.free_fn(prog, "cleanup_reactor_data")
        ctx.touch(rem)
        ctx.touch(crd)
        rv = [b for b, t, fr in rem.iter_calls() if fr and lib.tail(mir.fn_name(fr), 2) == "ReactCommands::revoke"]
        cs = [(b, t) for b, t, fr in rem.iter_calls() if fr and lib.tail(mir.fn_name(fr), 1) == "syscall"
              and any(op_fn(a) and mir.fn_name(op_fn(a)) == crd.path for a in t["args"])]
        Ls = [L for L in LP.find_loops(rem) if L.driver is not None and any(b in L.blocks for b, t in cs)]
        ok = len(rv) == 1 and len(cs) == 1 and len(Ls) == 1
        if ok:
            L = Ls[0]
            ok = rem.dominates(rv[0], L.header) and not L.exits
            cnt, _ = LP.iteration_counts(rem, L, [cs[0][0]])
            ok = ok and cnt == {1}
            # iterates token.iter_unique_entities() and passes (token.id, element)
            chain = lib.receiver_chains(rem, rem.blocks[L.driver]["term"]["args"][0])
            drv = [lib.tail(n_, 1) for _, ch in chain for n_ in ch]
            dests = origins(rem, rem.blocks[L.driver]["term"]["args"][0])
            ok = ok and any(fr and lib.tail(mir.fn_name(fr), 2) == "RevokeToken::iter_unique_entities" for b, t, fr in rem.iter_calls())
            # ... all of them: between the token's entity iterator and the loop only element-preserving steps (no `skip`, `take`,
            # `filter`, `step_by`, ..: an entity left out keeps its local data after its last trigger is gone)
            keep_all = {"iter_unique_entities", "into_iter", "iter", "map", "by_ref", "copied", "cloned", "deref", "deref_mut", "as_ref", "borrow",
                        "borrow_mut", "clone", "as_slice", "collect", "from_iter", "to_vec", "into_boxed_slice", "peekable", "fuse", "inspect", "enumerate"}
            chains_ = [[lib.tail(n_, 1) for n_ in ch_] for _, ch_ in chain]
            if not chains_:
                # a loop the view built (`for_each` / `extend` desugared): the chain of the value its `into_iter` received
                for o_ in origins(rem, rem.blocks[L.driver]["term"]["args"][0]):
                    if o_[0] == "call":
                        t_ = rem.blocks[o_[1]]["term"]
                        f_ = op_fn(t_["func"])
                        if f_ is not None and lib.tail(mir.fn_name(f_), 1) == "into_iter" and t_["args"]:
                            chains_ += [[lib.tail(n_, 1) for n_ in ch_] for _, ch_ in lib.receiver_chains(rem, t_["args"][0])]
            for names_ in chains_:
                if "iter_unique_entities" not in names_:
                    continue            # (not a chain from the token: decided by the call check above)
                after_ = names_[len(names_) - 1 - names_[::-1].index("iter_unique_entities") + 1:]
                ok = ok and all(d_ in keep_all for d_ in after_)
            agg = None
            for o in origins(rem, cs[0][1]["args"][1]):
                if o[0] == "agg":
                    agg = rem.blocks[o[1]]["stmts"][o[2]]["rv"]["agg"]
            # (a tuple or a private record: one operand is the loop's element, the other the token's id)
            if ok and agg is None and lib.originates_from_call(rem, cs[0][1]["args"][1], L.driver):
                # the pair is built by a `.map(|entity| ..)` adapter on the iterated sequence: read the adapter's closure
                ok = _pair_built_by_map_adapter(prog, rem, L)
                agg = False
            elif ok:
                ok = agg is not None and len(agg["ops"]) == 2
            if ok and agg:
                el_ = [o_ for o_ in agg["ops"] if lib.originates_from_call(rem, o_, L.driver)]
                # the token's id: read back from the token, or the very value the token was built with (`new_from(id, ..)`)
                nf_ = [t_ for b_, t_, fr_ in rem.iter_calls() if fr_ and lib.tail(mir.fn_name(fr_), 2) == "RevokeToken::new_from"]
                given_ = {tuple(o) for t_ in nf_ for o in origins(rem, t_["args"][0])} if len(nf_) == 1 else set()
                id_ = [o_ for o_ in agg["ops"] if origins(rem, o_) and (all(o[0] == "call" and o[-1] == ".id" for o in origins(rem, o_))
                                                                      or (given_ and {tuple(o) for o in origins(rem, o_)} == given_))]
                ok = len(el_) == 1 and len(id_) == 1 and el_[0] is not id_[0]
        ctx.check(ok, "C16.c", "EntityReactor::remove:revoke-then-cleanup-per-entity", "%s:%d" % (rem.file, rem.line),
                  "revoke is queued before a clean-up syscall (token.id, entity) for every unique entity of the token",
                  "EntityReactor::remove does not queue the revoke before one clean-up per token entity")
        # cleanup_reactor_data
        rmv = [b for b, t, fr in crd.iter_calls() if fr and lib.tail(mir.fn_name(fr), 2) in ("EntityCommands::remove", "EntityWorldMut::remove")
               and any("EntityWorldLocal" in a for a in fr.get("args", []))]
        qg = [b for b, t, fr in crd.iter_calls() if fr and lib.tail(mir.fn_name(fr), 2) == "Query::get" and lib.originates_from_arg(crd, t["args"][1], 1)]
        # "no remaining entry of this reactor": accepted idioms  find(..).is_some()/is_none(),  position(..) None arm,
        # find(..) matched on None,  any(..) == false  -  all over the entity's own reactors with predicate `== id`
        searches = [(b, t, lib.tail(mir.fn_name(fr), 1)) for b, t, fr in crd.iter_calls() if fr and lib.tail(mir.fn_name(fr), 1) in ("find", "any", "position", "find_map")]
        none_heads = []
        for (sb_, st_, nm_) in searches:
            if nm_ == "any":
                for (x, tt, ft) in lib.bool_arms(crd, sb_):
                    none_heads.append(ft)
            else:
                for (x, ok_t, fail_t) in lib.result_arms(crd, sb_):
                    none_heads.append(fail_t)
                for b2, t2, fr2 in crd.iter_calls():
                    if fr2 and lib.tail(mir.fn_name(fr2), 2) in ("Option::is_some", "Option::is_none") and lib.originates_from_call(crd, t2["args"][0], sb_):
                        for (x, tt, ft) in lib.bool_arms(crd, b2):
                            none_heads.append(ft if lib.tail(mir.fn_name(fr2), 1) == "is_some" else tt)
        ok = len(rmv) == 1 and len(qg) == 1 and len(searches) == 1 and bool(none_heads)
        if ok:
            arms_q = lib.result_arms(crd, qg[0])
            ok = bool(arms_q) and crd.dominates(arms_q[0][1], rmv[0]) and lib.dominated_by_any(crd, rmv[0], none_heads)
            # the search runs over the entity's own reactors ...
            ok = ok and any(fr and lib.tail(mir.fn_name(fr), 2) == "EntityReactors::iter_reactors" for b, t, fr in crd.iter_calls())
            r = lib.receiver_chains(crd, searches[0][1]["args"][0])
            ok = ok and any("iter_reactors" in lib.tail(n_, 1) for _, ch in r for n_ in ch) or ok and any(
                lib.originates_from_call(crd, searches[0][1]["args"][0], b) for b, t, fr in crd.iter_calls() if fr and lib.tail(mir.fn_name(fr), 2) == "EntityReactors::iter_reactors") \
                or ok and receiver_from_iter_reactors(crd, searches[0][1]["args"][0])
            # ... with a predicate that compares the element with the given reactor id
            pred = None
            for o in origins(crd, searches[0][1]["args"][1]):
                if o[0] == "agg":
                    pred = crd.blocks[o[1]]["stmts"][o[2]]["rv"]["agg"]
            pb = prog.body(pred["closure"]) if pred else None
            okp = False
            if pb is not None:
                reqs = lib.true_return_requirements(pb)
                idc = set()
                for (b, t, fr, is_eq) in lib.comparison_calls(pb):
                    both = origins(pb, t["args"][0]) | origins(pb, t["args"][1])
                    if any(o[0] == "arg" and o[1] == 2 for o in both) and any(o[0] == "arg" and o[1] == 1 for o in both):
                        idc.add(b)
                okp = bool(reqs) and bool(idc) and all(any(rq.get(b) is True for b in idc) for rq in reqs)
                # what the predicate captured is the id half of the input (a tuple's `.0`, or the id-typed field of a record)
                def _id_half(c_):
                    if lib.originates_from_arg(crd, c_, 1, (".0", ".0")):
                        return True
                    os_ = origins(crd, c_)
                    return bool(os_) and all(o_[0] == "arg" and o_[1] == 1 for o_ in os_) and _capt_is_id(crd, c_)
                okp = okp and all(_id_half(c) for c in pred["ops"])
            ok = ok and okp
            # removed from the same entity that was looked up
            ro = origins(crd, crd.blocks[rmv[0]]["term"]["args"][0])
            for o in ro:
                if o[0] == "call":
                    t0 = crd.blocks[o[1]]["term"]
                    ok = ok and {tuple(x) for x in origins(crd, t0["args"][1])} == {tuple(x) for x in origins(crd, crd.blocks[qg[0]]["term"]["args"][1])}
        ctx.check(ok, "C16.c", "cleanup_reactor_data:removes-only-when-no-entry-left", "%s:%d" % (crd.file, crd.line),
                  "EntityWorldLocal<T> is removed only on the arm where no remaining entry of the entity's reactors has the reactor's id",
                  "the clean-up removes the local data although triggers of this reactor may remain (or keeps it when none remain)")
        ge = A.method(prog, "ReactorType", "get_entity")
        ctx.touch(ge)
        sws = lib.discr_switches(ge)
        okx = len(sws) == 1 and ge.is_unreachable_block(sws[0][3])
        nvar = len(prog.adt_by_name("ReactorType")["variants"])
        ctx.check(okx and len(sws[0][2]) == nvar, "C16.c", "ReactorType::get_entity:exhaustive", "%s:%d" % (ge.file, ge.line),
                  "explicit arm for each of the %d variants" % nvar, "ReactorType::get_entity has a catch-all arm (a new entity-scoped kind would be skipped by the clean-up)")
        iue = A.method(prog, "RevokeToken", "iter_unique_entities")
        ctx.touch(iue)
        ctx.check(any(c.calls_named(lambda n: n == ge.path) for c in prog.closures_of(iue)), "C16.c", "RevokeToken::iter_unique_entities:uses-get_entity",
                  "%s:%d" % (iue.file, iue.line), "", "iter_unique_entities does not derive entities from ReactorType::get_entity")
        # an entity is skipped only when it has no entity (get_entity() is None) or an EARLIER entry names the SAME entity
        for c in prog.closures_of(iue):
            ges = [b for b, t, fr in c.iter_calls() if fr and mir.fn_name(fr) == ge.path]
            if not ges:
                continue
            ctx.touch(c)
            heads = []
            first = min(ges)
            for (sb, ok_t, fail_t) in lib.result_arms(c, first):
                heads.append(fail_t)
            for b, t, fr in c.iter_calls():
                if fr and lib.tail(mir.fn_name(fr), 1) in ("eq", "ne") and len(t["args"]) >= 2:
                    for (sb, tt, ft) in lib.bool_arms(c, b):
                        heads.append(tt if lib.tail(mir.fn_name(fr), 1) == "eq" else ft)
                # `.any(|prev| prev.get_entity() == Some(entity))`: true only where an element compared equal
                if fr and lib.tail(mir.fn_name(fr), 1) == "any" and len(t["args"]) > 1:
                    for o in origins(c, t["args"][1]):
                        if o[0] == "agg" and len(o) == 3 and c.blocks[o[1]]["stmts"][o[2]]["rv"]["agg"]["kind"] == "closure":
                            pcb = prog.body(c.blocks[o[1]]["stmts"][o[2]]["rv"]["agg"]["closure"])
                            reqs = lib.true_return_requirements(pcb) if pcb is not None else None
                            if reqs and all(any(v for v in r.values()) for r in reqs):
                                for (sb, tt, ft) in lib.bool_arms(c, b):
                                    heads.append(tt)
            nones = [b for b, i, st in c.iter_stmts() if st["k"] == "assign" and st["place"]["l"] == 0 and not st["place"]["p"]
                     and "agg" in st["rv"] and st["rv"]["agg"].get("vname") == "None"]
            nones += [b for b, t, fr in c.iter_calls() if fr and mir.fn_name(fr).endswith("::from_residual") and t["dest"]["l"] == 0]
            somes = [(b, st["rv"]["agg"]) for b, i, st in c.iter_stmts() if st["k"] == "assign" and st["place"]["l"] == 0 and not st["place"]["p"]
                     and "agg" in st["rv"] and st["rv"]["agg"].get("vname") == "Some"]
            ok = bool(somes) and all(lib.dominated_by_any(c, b, heads) for b in nones) \
                and all(lib.originates_from_call(c, a["ops"][0], first) for b, a in somes)
            # `(!seen_before).then_some(entity)`: yields its own entity exactly when no earlier element compared equal
            ts = [(b, t) for b, t, fr in c.iter_calls() if fr and lib.tail(mir.fn_name(fr), 2) == "bool::then_some" and t["dest"]["l"] == 0]
            if not somes and len(ts) == 1:
                tb, tt_ = ts[0]
                p_ = op_place(tt_["args"][0])
                src = lib.bool_source(c, p_["l"]) if p_ is not None and not p_["p"] else None
                eq_any = set()
                for b, t, fr in c.iter_calls():
                    if fr and lib.tail(mir.fn_name(fr), 1) == "any" and len(t["args"]) > 1:
                        for o in origins(c, t["args"][1]):
                            if o[0] == "agg" and len(o) == 3 and c.blocks[o[1]]["stmts"][o[2]]["rv"]["agg"]["kind"] == "closure":
                                pcb = prog.body(c.blocks[o[1]]["stmts"][o[2]]["rv"]["agg"]["closure"])
                                reqs = lib.true_return_requirements(pcb) if pcb is not None else None
                                if reqs and all(any(v for v in r.values()) for r in reqs):
                                    eq_any.add(b)
                ok = src is not None and src[0] in eq_any and src[1] is True and lib.originates_from_call(c, tt_["args"][1], first) \
                    and all(lib.dominated_by_any(c, b, heads) for b in nones)
            ctx.check(ok, "C16.c", "RevokeToken::iter_unique_entities:skips-only-duplicates", "%s:%d" % (c.file, c.line),
                      "an entry is skipped only if it names no entity or an earlier entry names the same entity; otherwise its own entity is yielded",
                      "iter_unique_entities skips entities that are not duplicates (their local data would never be cleaned up) or yields a different entity")
    except mir.AnchorLost as e:
        ctx.fail("C16.c", "anchor-lost", "", str(e))

    # ---- C16.d the run reads the source entity's data ----
    n = core.adopt(ctx, c03, lambda o: o["rule"] == "C03.c" and "EntityLocal" in o["key"], "C16.d")
    # a postponed run is handed its own entity's metadata (claim order of the entity-reaction tracker, shared with C03.e)
    n2 = core.adopt(ctx, c03, lambda o: o["rule"] == "C03.e" and "EntityReactionAccessTracker" in o["key"], "C16.d")
    ctx.floor("C16.d", n2, 4, "shared claim-order obligations of the entity-reaction tracker (C03.e)")
    # removing one trigger removes exactly that entry of the entity's reactors (shared with C06.b)
    n3 = core.adopt(ctx, c06, lambda o: o["rule"] == "C06.b" and "EntityReactors::remove" in o["key"], "C16.c")
    ctx.floor("C16.c", n3, 2, "shared EntityReactors::remove obligations (C06.b)")
    # removing one kind of trigger leaves the reactor's other triggers registered: a table entry is deleted only when
    # every list in it is empty (shared with C06.f)
    n4 = core.adopt(ctx, c06, lambda o: o["rule"] == "C06.f", "C16.c")
    ctx.notes.append("C16.c adopts %d entry-deletion obligations (C06.f)" % n4)
    # 'data is removed when the last trigger is removed': cleanup_reactor_data looks the entity's EntityReactors up and
    # returns early when there is none, so the component must never be taken off a live entity (it may be empty)
    rm_ = lib.component_removals(prog, "EntityReactors")
    ctx.check(not rm_, "C16.c", "EntityReactors:never-removed-from-a-live-entity", rm_[0][0].loc(rm_[0][1]) if rm_ else "",
              "no crate code removes the EntityReactors component (the local-data cleanup finds it, possibly empty)",
              "%s removes the EntityReactors component with %s: the local-data cleanup (which returns early when the entity has no "
              "EntityReactors) then leaves the reactor's per-entity data behind" % (lib.fkey(rm_[0][0]) if rm_ else "", rm_[0][2] if rm_ else ""))
    # 'a run caused by an entity exposes exactly that entity's local data': every reaction command that prepared the
    # entity-reaction tracker is handed to the runner exactly once (a skipped run leaves its prepared entry to the next
    # run of that reactor; shared with C02.d / C03.a)
    import c02
    n5 = core.adopt(ctx, c02, lambda o: o["rule"] == "C02.d" and "one-runner-call-per-path" in o["key"], "C16.d")
    ctx.floor("C16.d", n5, 1, "shared one-runner-call-per-path obligations (C02.d)")
    # ... and every delivery has a pending entry of its own: `prepare` appends exactly one entry per command and never merges,
    # overwrites or de-duplicates (two runs of one reactor for two entities may be pending at once; shared with C11.prepared /
    # C12.a)
    import c11 as _c11, c12 as _c12
    n6 = core.adopt(ctx, _c11, lambda o: o["rule"] == "C11.prepared" and "EntityReactionAccessTracker" in o["key"] and "<=" not in o["key"], "C16.e")
    n6 += core.adopt(ctx, _c12, lambda o: o["rule"] == "C12.a" and "EntityReactionAccessTracker" in o["key"], "C16.e")
    ctx.floor("C16.e", n6, 3, "shared pending-entry obligations of the entity-reaction tracker (C11.prepared, C12.a)")
    # the entity reported and the entity whose data is read are the same accessor result
    for nm in ("get", "get_mut"):
        try:
            m = A.method(prog, "EntityLocal", nm)
        except mir.AnchorLost as e:
            ctx.fail("C16.d", "anchor-lost:EntityLocal::%s" % nm, "", str(e))
            continue
        keys = set()
        for b, t, fr in m.iter_calls():
            if fr and lib.tail(mir.fn_name(fr), 2) in ("Query::get", "Query::get_mut") and len(t["args"]) > 1:
                for o in origins(m, t["args"][1]):
                    fr2 = op_fn(m.blocks[o[1]]["term"]["func"]) if o[0] == "call" else None
                    keys.add(mir.fn_name(fr2) if fr2 else str(o))
        rets = set()
        for b, i, st in m.iter_stmts():
            if st["k"] == "assign" and st["place"]["l"] == 0 and "agg" in st["rv"] and st["rv"]["agg"]["kind"] == "tuple":
                for o in origins(m, st["rv"]["agg"]["ops"][0]):
                    fr2 = op_fn(m.blocks[o[1]]["term"]["func"]) if o[0] == "call" else None
                    rets.add(mir.fn_name(fr2) if fr2 else str(o))
        ctx.check(len(keys) == 1 and keys == rets, "C16.d", "EntityLocal::%s:data-of-reported-entity" % nm, "%s:%d" % (m.file, m.line),
                  "data is read at the entity that is reported (%s)" % sorted(lib.tail(k, 2) for k in keys),
                  "EntityLocal::%s reports entity from %s but reads data at %s" % (nm, sorted(rets), sorted(keys)))
    ctx.floor("C16.d", n, 8, "shared EntityLocal gating obligations")


def receiver_from_iter_reactors(body, op):
    """the receiver (possibly `&mut iter`) derives from a call to EntityReactors::iter_reactors"""
    for o in origins(body, op):
        if o[0] == "call":
            fr = op_fn(body.blocks[o[1]]["term"]["func"])
            if fr and lib.tail(mir.fn_name(fr), 2) == "EntityReactors::iter_reactors":
                return True
    return False

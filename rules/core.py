"""E2 rule-engine core: check context, obligations, violations, known findings, evidence, CLI glue."""
import json
import os
import sys
import time

import mir

VERIF = os.path.dirname(os.path.dirname(os.path.abspath(__file__)))
EVID = os.environ.get("COBWEB_EVID") or os.path.join(VERIF, "evidence")
KNOWN = os.path.join(VERIF, "known_findings.json")

COMMON_TRUSTED = [
    "rustc 1.97 nightly MIR construction, type checking and Instance resolution (facts come from optimized_mir at -Zmir-opt-level=0)",
    "Bevy 0.15 API semantics as documented: System::run applies deferred commands, exclusive systems flush on return, "
    "Commands are applied in queue order with nested commands flushed in-line, RemovedComponents is cursor based, "
    "components are dropped when their entity is despawned",
    "std / smallvec / hashbrown / crossbeam method contracts as classified in rules/tables.py",
    "the rule engine itself (/verif/rules), validated by the mutant catalogue and the seeded changes, not proven",
]


class Ctx:
    def __init__(self, prop, prog, tier, meta):
        self.prop = prop
        self.prog = prog
        self.tier = tier
        self.meta = meta
        self.obligations = []      # dicts: rule, key, where, detail, ok
        self.rule_counts = {}      # rule -> [instances, ok]
        self.functions = set()
        self.call_sites = 0
        self.cfg_states = 0
        self.samples = []
        self.not_decided = []
        self.trusted = list(COMMON_TRUSTED)
        self.explanation = ""
        self.notes = []
        self.sub = False   # sub-context used for adopting obligations: does not adopt itself (no mutual recursion)

    # -- recording ----------------------------------------------------------------------------------------------
    def touch(self, body, calls=0, states=0):
        if body is not None:
            self.functions.add(body.path)
        self.call_sites += calls
        self.cfg_states += states

    def _rec(self, rule, key, where, detail, ok, path=None):
        full = "%s:%s" % (rule, key)
        self.obligations.append({"rule": rule, "key": full, "where": where, "detail": detail, "ok": ok, "path": path})
        rc = self.rule_counts.setdefault(rule, [0, 0])
        rc[0] += 1
        if ok:
            rc[1] += 1

    def ok(self, rule, key, where="", detail=""):
        self._rec(rule, key, where, detail, True)

    def fail(self, rule, key, where="", detail="", path=None):
        self._rec(rule, key, where, detail, False, path)

    def check(self, cond, rule, key, where="", detail_ok="", detail_fail="", path=None):
        if cond:
            self.ok(rule, key, where, detail_ok)
        else:
            self.fail(rule, key, where, detail_fail or detail_ok, path)
        return cond

    def floor(self, rule, n, floor, what):
        """fail closed when a rule found fewer instances than were counted by hand on the pinned tree"""
        if n < floor:
            self.fail(rule, "anchor-lost:%s" % what, "", "found %d instances of %s, floor is %d" % (n, what, floor))
            return False
        self.ok(rule, "floor:%s" % what, "", "found %d instances of %s (floor %d)" % (n, what, floor))
        return True

    def anchor(self, rule, fn, what):
        """run fn(); an AnchorLost / missing subject becomes a violation of this rule (fail closed)"""
        try:
            r = fn()
        except mir.AnchorLost as e:
            self.fail(rule, "anchor-lost:%s" % what, "", str(e))
            return None
        if r is None or r == []:
            self.fail(rule, "anchor-lost:%s" % what, "", "anchor %s not found" % what)
            return None
        self.ok(rule, "floor:%s" % what, "", "anchor found")
        return r

    def body_or_fail(self, rule, pred, what=None):
        r = self.prog.find(pred)
        if len(r) != 1:
            self.fail(rule, "anchor-lost:%s" % (what or pred), "", "%r matched %d bodies" % (pred, len(r)))
            return None
        self.ok(rule, "floor:%s" % (what or pred), "", "anchor found")
        self.touch(r[0])
        return r[0]

    def sample(self, s):
        if len(self.samples) < 40:
            self.samples.append(s)


def load_known():
    if not os.path.exists(KNOWN):
        return []
    with open(KNOWN) as fh:
        return json.load(fh)


def finish(ctx, t0, seed, replay_only=None):
    """prints the report, writes evidence and replay files, returns the exit code"""
    known = {k["key"]: k for k in load_known() if k.get("status") == "known" and k.get("property") == ctx.prop}
    os.makedirs(os.path.join(EVID, "violations"), exist_ok=True)
    # clear this property's old replay files
    vdir = os.path.join(EVID, "violations")
    for f in os.listdir(vdir):
        if f.startswith(ctx.prop + "-"):
            os.remove(os.path.join(vdir, f))
    violations = []
    known_hits = []
    for ob in ctx.obligations:
        if ob["ok"]:
            continue
        if ob["key"] in known:
            known_hits.append(ob)
        else:
            violations.append(ob)
    for rule, (n, okn) in sorted(ctx.rule_counts.items()):
        print("rule=%s instances=%d ok=%d" % (rule, n, okn))
    for ob in known_hits:
        print("KNOWN-FINDING: property=%s %s (%s) %s" % (ctx.prop, ob["key"], ob["where"], known[ob["key"]].get("what", "")))
    k = 0
    for ob in violations:
        k += 1
        rp = os.path.join(vdir, "%s-%d.json" % (ctx.prop, k))
        with open(rp, "w") as fh:
            json.dump({"property": ctx.prop, "rule": ob["rule"], "key": ob["key"], "where": ob["where"],
                       "detail": ob["detail"], "path": ob["path"], "source_hash": ctx.meta.get("source_hash")}, fh, indent=1)
        print("VIOLATION property=%s replay=%s" % (ctx.prop, rp))
        print("  rule=%s key=%s at %s: %s" % (ob["rule"], ob["key"], ob["where"], ob["detail"]))
        if ob["path"]:
            for step in ob["path"][:60]:
                print("    " + step)
    n_ob = len(ctx.obligations)
    n_ok = sum(1 for o in ctx.obligations if o["ok"])
    wall = round(time.time() - t0, 3)
    ev = {
        "property_id": ctx.prop,
        "tier": ctx.tier,
        "seed": seed,
        "level": "other",
        "coverage": {
            "explanation": ctx.explanation,
            "obligations": n_ob,
            "discharged": n_ok,
            "known_findings_hit": len(known_hits),
            "rules": {r: {"instances": v[0], "ok": v[1]} for r, v in sorted(ctx.rule_counts.items())},
            "functions_analysed": len(ctx.functions),
            "function_list": sorted(ctx.functions)[:200],
            "call_sites": ctx.call_sites,
            "cfg_states_explored": ctx.cfg_states,
            "bodies_in_fact_file": len(ctx.prog.bodies),
            "feature_sets": ctx.meta.get("feature_sets", [ctx.meta.get("features", [])]),
            "source_hash": ctx.meta.get("source_hash"),
            "samples": ctx.samples or [o["key"] + " @ " + o["where"] for o in ctx.obligations[:20]],
            "trusted_base": ctx.trusted,
            "not_decided": ctx.not_decided,
            "checker_cmd": "bin/check %s --tier %s" % (ctx.prop, ctx.tier),
            "exhaustive": False,
            "notes": ctx.notes,
        },
        "assumptions": ctx.trusted,
        "wall_s": wall,
        "violations": len(violations),
    }
    tmp = os.path.join(EVID, ctx.prop + ".json.tmp%d" % os.getpid())
    with open(tmp, "w") as fh:
        json.dump(ev, fh, indent=1)
    os.replace(tmp, os.path.join(EVID, ctx.prop + ".json"))
    print("property=%s tier=%s obligations=%d discharged=%d known=%d violations=%d functions=%d wall=%.2fs" % (
        ctx.prop, ctx.tier, n_ob, n_ok, len(known_hits), len(violations), len(ctx.functions), wall))
    return 1 if violations else 0


def reuse(ctx, module, rule_prefixes, new_rule):
    """Run another property's module on the same program and adopt the obligations of the named rules under
    `new_rule` (shared clauses, e.g. C04.c = C03.a/b). Keys keep the original rule id so the instance stays diagnosable."""
    if ctx.sub:
        return 10 ** 6
    sub = sub_obligations(ctx, module)
    n = 0
    for o in sub.obligations:
        if any(o["rule"] == p or o["rule"].startswith(p + ".") or o["rule"].startswith(p) for p in rule_prefixes):
            ctx._rec(new_rule, o["key"], o["where"], o["detail"], o["ok"], o["path"])
            # _rec prefixes the rule again; keep the original key text
            ctx.obligations[-1]["key"] = "%s<=%s" % (new_rule, o["key"])
            n += 1
    ctx.functions |= sub.functions
    return n


_SUB_CACHE = {}


def sub_obligations(ctx, module):
    """obligations of another property's module on the same program (cached per program object)"""
    key = (id(ctx.prog), module.__name__)
    if key not in _SUB_CACHE:
        sub = Ctx(ctx.prop, ctx.prog, ctx.tier, ctx.meta)
        sub.sub = True
        try:
            module.check(sub)
        except Exception:
            import traceback
            # the adopted rules could not be evaluated on this tree: adopters see a lost anchor (fail closed)
            for r in sorted({o["rule"] for o in sub.obligations} | {module.__name__.upper() + ".anchor"}):
                sub.fail(r, "anchor-lost:rule-engine-exception", "", "evaluation of %s raised: %s" % (module.__name__, traceback.format_exc()[-400:]))
        _SUB_CACHE[key] = sub
    return _SUB_CACHE[key]


def adopt(ctx, module, pred, new_rule):
    """adopt the obligations of `module` selected by pred(obligation) under new_rule; returns the number adopted"""
    if ctx.sub:
        return 10 ** 6
    sub = sub_obligations(ctx, module)
    n = 0
    for o in sub.obligations:
        if pred(o):
            ctx._rec(new_rule, o["key"], o["where"], o["detail"], o["ok"], o["path"])
            ctx.obligations[-1]["key"] = "%s<=%s" % (new_rule, o["key"])
            n += 1
    ctx.functions |= sub.functions
    return n

"""C01 - Trigger dispatch is exact: every matching registration, nothing else.
Decides sibling agreement of the registration tables (register / revoke / schedule / reactor_type), one command per
registration entry with no early loop exit, the exact entity-scoped filter, lookup entity = trigger entity
(DESIGN.md section 4, C01)."""
import re

import mir
from mir import op_fn, op_place, origins
import lib
import loops as LP
import anchors as A

EXPLANATION = (
    "For each of the trigger kinds (impls of ReactionTrigger) a tuple is extracted from the code itself: the ReactorType "
    "variant and key built by reactor_type(); the table / sub-list / key (or EntityReactionType variant + entity) written "
    "by the function passed to syscall in register(); the table / sub-list / variant reached by the arm of revoke_reactor "
    "for that variant; and the dispatch loops that iterate that table entry or that entity-scoped variant. The members of "
    "a tuple must agree and different kinds must have different targets (Engler-style sibling cross-check, no stored "
    "copy). Every dispatch loop queues exactly one command per list element, has no exit other than exhaustion, takes the "
    "reactor from the iterated element and the source entity from the trigger; the entity-scoped filter compares the "
    "whole derived-PartialEq EntityReactionType; count() is defined through the same filter.")

NOT_DECIDED = [
    "which registrations are live at the instant of a trigger over arbitrary histories (run-time table contents)",
    "that Bevy applies the queued commands; tables edited while a dispatch is in flight (commands are snapshotted into the queue)",
]


def trigger_impls(prog):
    out = []
    for im in prog.impls:
        t = im.get("trait") or ""
        if t.endswith("::ReactionTrigger") and im.get("self_adt"):
            out.append(im)
    return out


def kind_of_trigger(ctx, prog, im):
    """extract reactor_type() and register() facts of one trigger impl"""
    items = {i["name"]: prog.body(i["path"]) for i in im["items"]}
    rt, reg = items.get("reactor_type"), items.get("register")
    name = im["self_adt"].split("::")[-1]
    if rt is None or reg is None:
        ctx.fail("C01.a", "%s:anchor-lost:impl-items" % name, "", "reactor_type/register bodies missing")
        return None
    ctx.touch(rt)
    ctx.touch(reg, calls=len(list(reg.iter_calls())))
    k = {"name": name, "rt_body": rt, "reg_body": reg}
    # reactor_type: the ReactorType aggregate
    aggs = [st["rv"]["agg"] for b, i, st in rt.iter_stmts() if st["k"] == "assign" and "agg" in st["rv"]
            and st["rv"]["agg"]["kind"] == "adt" and st["rv"]["agg"]["adt"].endswith("::ReactorType")]
    if len(aggs) != 1:
        ctx.fail("C01.a", "%s:anchor-lost:reactor_type-aggregate" % name, "%s:%d" % (rt.file, rt.line), "%d ReactorType aggregates" % len(aggs))
        return None
    k["rt_variant"] = aggs[0]["vname"]
    k["rt_keys"] = [LP._key_of(rt, o) for o in aggs[0]["ops"]]
    # register: the syscall that carries the handle
    sys_calls = []
    for b, t, fr in reg.iter_calls():
        if fr and lib.tail(mir.fn_name(fr), 1) == "syscall" and len(t["args"]) >= 3:
            sys_calls.append((b, t, fr))
    carrying = []
    for b, t, fr in sys_calls:
        inp = t["args"][1]
        if carries_handle(reg, inp):
            carrying.append((b, t, fr))
    k["n_syscalls"] = len(sys_calls)
    if len(carrying) != 1:
        ctx.fail("C01.a", "%s:register-queues-one-registration" % name, "%s:%d" % (reg.file, reg.line),
                 "register() queues %d syscalls carrying the handle (must be exactly one per table insertion)" % len(carrying))
        return None
    b, t, fr = carrying[0]
    counts, _, ns = lib.event_counts(reg, [b])
    k["reg_counts"] = counts
    F = op_fn(t["args"][2])
    Fb = prog.resolve_local(F) if F else None
    if Fb is None:
        ctx.fail("C01.a", "%s:anchor-lost:register-fn" % name, reg.loc(b), "system passed to syscall is not a crate function")
        return None
    ctx.touch(Fb, calls=len(list(Fb.iter_calls())))
    k["F"] = Fb
    k["F_args"] = F.get("args", [])
    # input tuple: EntityReactionType aggregate => entity-scoped
    k["ert_variant"] = None
    agg = tuple_agg(reg, t["args"][1])
    if agg:
        for o in agg["ops"]:
            a2 = None
            for oo in origins(reg, o):
                if oo[0] == "agg":
                    a2 = reg.blocks[oo[1]]["stmts"][oo[2]]["rv"]["agg"]
            if a2 and a2["kind"] == "adt" and a2["adt"].endswith("::EntityReactionType"):
                k["ert_variant"] = a2["vname"]
                k["ert_keys"] = [LP._key_of(reg, x) for x in a2["ops"]]
            elif all(x[0] == "arg" and x[1] == 1 for x in origins(reg, o)) and origins(reg, o):
                k["reg_entity_from_self"] = True
    return k


def carries_handle(reg, op, depth=0):
    """does the operand contain a clone of the handle parameter (arg 3)?"""
    for o in origins(reg, op):
        if o[0] == "arg" and o[1] == 3:
            return True
        if o[0] == "agg" and len(o) == 3:
            agg = reg.blocks[o[1]]["stmts"][o[2]]["rv"]["agg"]
            if depth < 3 and any(carries_handle(reg, x, depth + 1) for x in agg["ops"]):
                return True
    return False


def tuple_agg(body, op):
    for o in origins(body, op):
        if o[0] == "agg" and len(o) == 3:
            agg = body.blocks[o[1]]["stmts"][o[2]]["rv"]["agg"]
            if agg["kind"] == "tuple":
                return agg
            # a private record in place of the tuple (a struct of the crate: one variant, named after the type)
            if agg["kind"] == "adt" and lib.is_crate_adt(agg.get("adt", "")) and agg.get("vname") == agg.get("adt", "").split("::")[-1]:
                return agg
    return None


def table_write_target(ctx, prog, Fb, label):
    """(fields, key) written by F: F calls a ReactCache method whose body pushes into a table entry"""
    out = []
    callers = [Fb] + prog.closures_of(Fb)
    found = []
    for fb in callers:
        found += lib.local_call_bodies(prog, fb)
    for b, t, cb in found:
        if lib.impl_self_name(cb) != "ReactCache" or cb.raw.get("impl_trait"):
            continue
        for b2, t2, fr2 in cb.iter_calls():
            if fr2 and lib.tail(mir.fn_name(fr2), 2) in ("Vec::push", "SmallVec::push") and any("ReactorHandle" in a for a in fr2.get("args", [])):
                steps = lib.access_path(cb, t2["args"][0])
                fields = lib.path_fields(steps)
                key = None
                for s in lib.path_calls(steps):
                    if s[1] in ("HashMap::entry", "HashMap::get_mut"):
                        key = LP._key_of(cb, cb.blocks[s[2]]["term"]["args"][1])
                # the pushed value is the method's handle parameter
                pushed_ok = all(o[0] == "arg" for o in origins(cb, t2["args"][1]))
                ctx.touch(cb)
                out.append((tuple(fields), key, cb, pushed_ok))
    return out


def revoke_graph(ctx, prog):
    """per ReactorType variant: what the revoke path reaches"""
    rr = ctx.body_or_fail("C01.a", lambda n: n.endswith("react_commands::revoke_reactor"), "revoke_reactor")
    if rr is None:
        return None
    ctx.touch(rr, calls=len(list(rr.iter_calls())))
    sw = None
    for sb, place, targets, otherwise in lib.discr_switches(rr):
        if "ReactorType" in lib.place_type(rr, place):
            ea_ = lib.enum_arms(rr, prog, sb)
            if ea_ and ea_[2].endswith("::ReactorType"):       # not e.g. the Option<&ReactorType> of the iterator
                # (of several matches on the kind, the one that comes first: it dominates the others)
                if sw is None or rr.dominates(sb, sw):
                    sw = sb
    if sw is None:
        ctx.fail("C01.a", "revoke_reactor:anchor-lost:match", "%s:%d" % (rr.file, rr.line), "no match on ReactorType")
        return None
    arms, otherwise, adt = lib.enum_arms(rr, prog, sw)
    out = {"_body": rr, "_switch": sw, "_otherwise_unreachable": rr.is_unreachable_block(otherwise), "_arms": arms}
    sub_map = component_subfield_map(ctx, prog)
    for v, tb in arms.items():
        region = lib.arm_region(rr, tb, sw)
        info = {"where": rr.loc(tb)}
        for b, t, cb in lib.local_call_bodies(prog, rr, region):
            nm = cb.raw.get("name")
            ert = None
            for a in t["args"]:
                for o in origins(rr, a):
                    if o[0] == "agg":
                        ag = rr.blocks[o[1]]["stmts"][o[2]]["rv"]["agg"]
                        if ag["kind"] == "adt" and ag["adt"].endswith("::EntityReactionType"):
                            ert = ag["vname"]
            if ert is None or len({rr.blocks[o[1]]["stmts"][o[2]]["rv"]["agg"]["vname"] for a in t["args"] for o in origins(rr, a) if o[0] == "agg"
                                   and rr.blocks[o[1]]["stmts"][o[2]]["rv"]["agg"].get("adt", "").endswith("::EntityReactionType")}) > 1:
                # the kind travels inside another value built in this arm (`Location::Component(Kind::Insertion(id))`): read it
                # from the definitions of this arm only
                erts = set()
                for a in t["args"]:
                    ag_ = lib.region_agg(rr, region, a)
                    if ag_ and ag_.get("kind") == "adt" and ag_.get("adt", "").endswith("::EntityReactionType"):
                        erts.add(ag_["vname"])
                ert = next(iter(erts)) if len(erts) == 1 else ert
            info["callee"] = cb
            info["ert_variant"] = ert
            if nm == "revoke_entity_reactor" or (cb.calls_named(lambda n: lib.tail(n, 2) == "EntityReactors::remove")) \
                    or (nm == "remove" and lib.impl_self_name(cb) == "EntityReactors"):       # (the helper itself was inlined)
                info["scope"] = "entity"
            elif nm == "revoke_component_reactor":
                info["scope"] = "table"
                info["fields"] = sub_map.get(ert)
            else:
                info["scope"] = "table"
                fs = []
                for b2, t2, fr2 in cb.iter_calls():
                    if fr2 and lib.tail(mir.fn_name(fr2), 2) in ("Vec::remove", "Vec::swap_remove", "Vec::retain"):
                        fs.append(tuple(lib.path_fields(lib.access_path(cb, t2["args"][0]))))
                info["fields"] = fs[0] if len(set(fs)) == 1 else None
            ctx.touch(cb)
        out[v] = info
    return out


def component_subfield_map(ctx, prog):
    """EntityReactionType variant -> (table field, sub-list field) inside revoke_component_reactor (A4)"""
    try:
        rc = A.method(prog, "ReactCache", "revoke_component_reactor")
    except mir.AnchorLost as e:
        ctx.fail("C01.a", "anchor-lost:revoke_component_reactor", "", str(e))
        return {}
    ctx.touch(rc)
    out = {}
    tables = {}
    for sb, place, targets, otherwise in lib.discr_switches(rc):
        if "EntityReactionType" not in lib.place_type(rc, place):
            continue
        res = lib.enum_arms(rc, prog, sb)
        if not res:
            continue
        arms, ow, adt = res
        for v, tb in arms.items():
            region = lib.arm_region(rc, tb, sb)
            for b, i, st in rc.iter_stmts(region):
                if st["k"] == "assign" and ("ref" in st["rv"]):
                    for adt_, nm in lib.fields_in(st["rv"]["ref"]):
                        if adt_.endswith("::ComponentReactors"):
                            out.setdefault(v, set()).add(nm)
                        if adt_.endswith("::ReactCache"):
                            tables.setdefault(v, set()).add(nm)
    # the table may be looked up once, outside the per-variant arms (`let (A(id) | B(id) | C(id)) = rtype else {..}` followed
    # by one `self.component_reactors.get_mut(&id)`): then it is the single ReactCache field the function touches
    whole = set()
    for b, i, st in rc.iter_stmts():
        if st["k"] == "assign" and ("ref" in st["rv"]):
            for adt_, nm in lib.fields_in(st["rv"]["ref"]):
                if adt_.endswith("::ReactCache"):
                    whole.add(nm)
    res = {}
    for v in out:
        tb = tables.get(v) or (whole if len(whole) == 1 else set())
        if len(out[v]) == 1 and len(tb) == 1:
            res[v] = (("ReactCache", next(iter(tb))), ("ComponentReactors", next(iter(out[v]))))
    return res


def dispatch_loops(ctx, prog):
    """every loop in the crate that queues / buffers ReactionCommands: records source, command variant, rtype variant"""
    out = []
    for body in prog.bodies:
        if "react::" not in body.path:
            continue
        has = False
        for b, i, st in body.iter_stmts():
            if st["k"] == "assign" and "agg" in st["rv"] and st["rv"]["agg"].get("adt", "").endswith("::ReactionCommand"):
                has = True
        drains = any(fr and lib.tail(mir.fn_name(fr), 1) == "drain" for _, _, fr in body.iter_calls())
        if not has and not drains:
            continue
        for L in LP.find_loops(body):
            if L.driver is None:
                continue
            events = []
            for b2 in sorted(L.blocks):
                if any(b2 in M.blocks for M in L.inner):
                    continue
                t2 = body.blocks[b2]["term"]
                fr2 = op_fn(t2["func"]) if t2["k"] == "call" else None
                if fr2 and lib.tail(mir.fn_name(fr2), 2) in ("Commands::queue", "Vec::push") and len(t2["args"]) > 1:
                    ty = next((a for a in fr2.get("args", []) if "ReactionCommand" in a), None)
                    if ty is None and "ReactionCommand" not in str(fr2.get("resolved_args", "")):
                        continue
                    events.append(b2)
            src = LP.coll_source(body, body.blocks[L.driver]["term"]["args"][0])
            if not events and not (src and src[0] in ("table", "entity")):
                continue
            out.append((body, L, events, src))
    return out


def queued_agg(body, b):
    t = body.blocks[b]["term"]
    for o in origins(body, t["args"][1]):
        if o[0] == "agg" and len(o) == 3:
            return body.blocks[o[1]]["stmts"][o[2]]["rv"]["agg"]
    return None


def _entity_scheduler_path(prog):
    try:
        return A.entity_scheduler(prog)[0].path
    except mir.AnchorLost:
        return None


def check(ctx):
    ctx.explanation = EXPLANATION
    ctx.not_decided = NOT_DECIDED
    prog = ctx.prog
    import core as _core, c07 as _c07
    nh = _core.adopt(ctx, _c07, lambda o: o["rule"] == "C07.h", "C01.h")
    ctx.floor("C01.h", nh, 8, "shared handle-linearity obligations (C07.h): a registration stores the handle it is given")
    # a revoked registration is not dispatched to and a live one is not lost to someone else's revocation: the token names
    # every registered bundle member, and a revocation removes exactly the matching entries (shared with C06.b / C06.e)
    import c06 as _c06
    ni = _core.adopt(ctx, _c06, lambda o: o["rule"] in ("C06.b", "C06.e", "C06.g"), "C01.i")
    ctx.floor("C01.i", ni, 30, "shared revoke-exactness obligations (C06.b/e)")
    impls = trigger_impls(prog)
    ctx.floor("C01.a", len(impls), 11, "impls of ReactionTrigger")
    kinds = [k for k in (kind_of_trigger(ctx, prog, im) for im in impls) if k]
    rg = revoke_graph(ctx, prog)
    loops = dispatch_loops(ctx, prog)
    if rg is None:
        return
    ctx.check(rg["_otherwise_unreachable"], "C01.a", "revoke_reactor:match-exhaustive", rg["_body"].loc(rg["_switch"]),
              "no reachable catch-all arm (%d arms)" % len(rg["_arms"]), "revoke_reactor has a reachable catch-all arm")

    # schedule-side index
    table_loops = {}
    entity_loops = {}
    for (body, L, events, src) in loops:
        if src and src[0] == "table":
            table_loops.setdefault((src[1], src[2]), []).append((body, L, events, src))
        elif src and src[0] == "entity":
            rt = src[2]
            variants = {x[0] for x in rt if x and isinstance(x[0], str) and x[0][:1].isupper()} if rt else set()
            entity_loops.setdefault(tuple(sorted(variants)) or ("<param>",), []).append((body, L, events, src))

    targets = {}
    for k in kinds:
        nm = k["name"]
        where = "%s:%d" % (k["reg_body"].file, k["reg_body"].line)
        rv = rg.get(k["rt_variant"])
        if rv is None:
            ctx.fail("C01.a", "%s:revoke-arm-missing" % nm, where, "revoke_reactor has no arm for ReactorType::%s" % k["rt_variant"])
            continue
        ctx.check(k["reg_counts"] == {1} or nm == "DespawnTrigger" and k["reg_counts"] <= {0, 1}, "C01.a",
                  "%s:one-registration-per-register" % nm, where, "register() queues its registration exactly once",
                  "register() queues its registration %s times" % sorted(k["reg_counts"]))
        if k["ert_variant"]:
            # entity-scoped
            tgt = ("entity", k["ert_variant"])
            ok = rv.get("scope") == "entity" and rv.get("ert_variant") == k["ert_variant"]
            ctx.check(ok, "C01.a", "%s:register=revoke" % nm, rv["where"],
                      "registers and revokes EntityReactionType::%s" % k["ert_variant"],
                      "registers EntityReactionType::%s but revoke_reactor's %s arm reaches %s/%s" % (
                          k["ert_variant"], k["rt_variant"], rv.get("scope"), rv.get("ert_variant")))
            # key type params agree between reactor_type and the registered reaction type
            ctx.check(k["rt_keys"][-1:] == k.get("ert_keys", [])[-1:], "C01.a", "%s:same-key-type" % nm, where,
                      "reactor_type() and register() key by %s" % (k["rt_keys"][-1:],),
                      "reactor_type() keys by %s but register() by %s" % (k["rt_keys"], k.get("ert_keys")))
            ctx.check(k.get("reg_entity_from_self", False), "C01.a", "%s:registers-own-entity" % nm, where,
                      "registered entity is the trigger's own", "register() does not pass the trigger's own entity")
            # a dispatch loop for this variant exists: either built locally with this variant or the shared impl (param)
            have = any(k["ert_variant"] in vs for vs in entity_loops) or ("<param>",) in entity_loops
            ctx.check(have, "C01.a", "%s:dispatched" % nm, where, "an entity-scoped dispatch loop filters on this variant",
                      "no dispatch loop iterates entity-scoped %s registrations" % k["ert_variant"])
            Fb = k["F"]
            ctx.check(bool(Fb.calls_named(lambda n: lib.tail(n, 2) == "EntityReactors::insert")), "C01.a",
                      "%s:register-fn-inserts-into-EntityReactors" % nm, "%s:%d" % (Fb.file, Fb.line), "", "the registered system does not insert into EntityReactors")
        else:
            wt = table_write_target(ctx, prog, k["F"], nm)
            if len(wt) != 1:
                ctx.fail("C01.a", "%s:register-writes-one-table" % nm, where, "the registered system pushes into %d tables" % len(wt))
                continue
            fields, key, meth, pushed_ok = wt[0]
            tgt = ("table",) + tuple(fields)
            ctx.check(pushed_ok, "C01.a", "%s:pushes-the-handle" % nm, "%s:%d" % (meth.file, meth.line), "", "the value pushed is not the handle parameter")
            rfields = rv.get("fields")
            ctx.check(rv.get("scope") == "table" and rfields is not None and tuple(rfields) == tuple(fields), "C01.a",
                      "%s:register=revoke" % nm, rv["where"], "register and revoke both use %s" % (fields,),
                      "register() writes %s but revoke_reactor's %s arm removes from %s" % (fields, k["rt_variant"], rfields))
            # key: register keys by TypeId::of::<P>() with the same P as reactor_type (or by the entity for despawn)
            rk = k["rt_keys"][-1] if k["rt_keys"] else None
            if key and key[0][0] == "TypeId::of":
                pk = key[0][1:]
                # map callee generic param to the caller's argument via F's generic args
                fa = k["F_args"]
                # the key inside the table method is TypeId::of of its *bare* type parameter (not of a wrapper such as React<C>),
                # instantiated by register() with the parameter reactor_type() reports
                bare = len(pk) == 1 and re.fullmatch(r"\w+", pk[0]) is not None
                okk = rk and rk[0][0] == "TypeId::of" and len(fa) >= 1 and fa[0] == rk[0][1] and bare
                ctx.check(bool(okk), "C01.a", "%s:same-key-type" % nm, where,
                          "table keyed by TypeId::of::<%s>() = reactor_type() key" % (fa[:1],),
                          "register() keys the table by TypeId::of::<%s>() (instantiated with %s) but reactor_type() reports %s" % (pk, fa, rk))
            else:
                ctx.check(nm == "DespawnTrigger" or key is not None, "C01.a", "%s:key-understood" % nm, where, "key %s" % (key,), "table key not understood")
            leaf = (fields[0][1], fields[1][1] if len(fields) > 1 else None)
            have = table_loops.get(leaf, [])
            # the dispatch side looks the entry up under the same kind of key (bare type parameter / same origin kind)
            for (body_, L_, ev_, src_) in have:
                skeys = [kk for kk in (src_[3] or ()) if kk and kk[0] == "TypeId::of"]
                for kk in skeys:
                    ctx.check(len(kk) == 2 and re.fullmatch(r"\w+", kk[1]) is not None, "C01.a", "%s:dispatch-key-is-bare-type-parameter" % nm, body_.loc(L_.driver),
                              "dispatch looks %s up under TypeId::of::<%s>()" % (leaf, kk[1:]),
                              "dispatch looks %s up under TypeId::of::<%s>() while registration / revocation key by the bare component type" % (leaf, kk[1:]))
            ctx.check(bool(have), "C01.a", "%s:dispatched" % nm, where, "%d dispatch loop(s) iterate %s" % (len(have), leaf),
                      "no dispatch loop iterates %s" % (leaf,))
            # component kinds: the variant queued by the dispatch loop equals the variant revoke maps to this sub-list
            if rv.get("ert_variant"):
                for (body, L, events, src) in have:
                    for e in events:
                        ag = queued_agg(body, e)
                        if ag and "reaction_type" in ag.get("fields", []):
                            rk2 = LP._rtype_key(body, ag["ops"][ag["fields"].index("reaction_type")])
                            vs = {x[0] for x in rk2}
                            ctx.check(vs == {rv["ert_variant"]}, "C01.a", "%s:dispatch-variant=revoke-variant" % nm, body.loc(e),
                                      "loop over %s queues EntityReactionType::%s" % (leaf, rv["ert_variant"]),
                                      "loop over %s queues reaction type %s but revoke treats that list as %s" % (leaf, sorted(vs), rv["ert_variant"]))
        if tgt in targets:
            ctx.fail("C01.a", "%s:target-shared-with:%s" % (nm, targets[tgt]), where, "two trigger kinds register into the same target %s" % (tgt,))
        targets[tgt] = nm
        ctx.sample({"kind": nm, "reactor_type": k["rt_variant"], "target": [str(x) for x in tgt]})

    # the system that applies a whole bundle: handle prepared for the given system and mode, every trigger of the
    # given bundle registered with that handle
    try:
        rr = A.free_fn(prog, "register_reactors")
        ctx.touch(rr)
        try:
            prep_path = mir.strip_generics(A.method(prog, "ReactorMode", "prepare").path)      # (by role: the method may be renamed)
        except mir.AnchorLost:
            prep_path = None
        pc = [(b, t) for b, t, fr in rr.iter_calls() if fr and (lib.tail(mir.fn_name(fr), 2) == "ReactorMode::prepare"
                                                                 or (prep_path is not None and mir.strip_generics(fr.get("resolved") or fr["path"]) == prep_path))]
        rt = [(b, t) for b, t, fr in rr.iter_calls() if fr and lib.tail(mir.fn_name(fr), 1) == "register_triggers"]
        ok = len(pc) == 1 and len(rt) == 1
        if ok:
            ok = lib.originates_from_arg(rr, pc[0][1]["args"][0], 1, (".0", ".2")) and lib.originates_from_arg(rr, pc[0][1]["args"][2], 1, (".0", ".1")) \
                and lib.originates_from_arg(rr, rt[0][1]["args"][0], 1, (".0", ".0")) and lib.originates_from_call(rr, rt[0][1]["args"][2], pc[0][0])
            if not ok and lib.originates_from_call(rr, rt[0][1]["args"][2], pc[0][0]):
                # the input is a record instead of the pinned tuple: each of the three values comes from the input, from
                # three different parts of it, and the input has exactly one part of type ReactorMode and one of type
                # SystemCommand (so the type-checked call can only have received *the* mode and *the* system)
                ops3 = [pc[0][1]["args"][0], pc[0][1]["args"][2], rt[0][1]["args"][0]]
                o3 = [origins(rr, o) for o in ops3]
                parts = [frozenset(tuple(x[2:]) for x in os_) for os_ in o3]
                from_input = all(os_ and all(x[0] == "arg" and x[1] == 1 for x in os_) for os_ in o3)
                ity = rr.local_ty(1)
                ftys = None
                m_ = re.match(r"^bevy_ecs::system::(?:input::)?In<(.*)>$", ity)
                inner = m_.group(1) if m_ else ity
                if inner.startswith("("):
                    import inline as INL
                    ftys = INL._split_args(inner[1:-1])
                else:
                    adt = next((a for a in prog.facts.get("adts", []) if a["path"] == re.sub(r"<.*$", "", inner)), None)
                    if adt is not None and len(adt.get("variants", [])) == 1:
                        ftys = [f["ty"] for f in adt["variants"][0]["fields"]]
                uniq = ftys is not None and sum(1 for t_ in ftys if t_.endswith("ReactorMode")) == 1 \
                    and sum(1 for t_ in ftys if t_.endswith("SystemCommand")) == 1
                ok = from_input and uniq and len(set(parts)) == 3 and all(len(p) == 1 for p in parts)
            cnt, _, _ = lib.event_counts(rr, [rt[0][0]])
            ok = ok and cnt == {1}
        ctx.check(ok, "C01.a", "register_reactors:registers-given-bundle-with-prepared-handle", "%s:%d" % (rr.file, rr.line),
                  "mode.prepare(despawner, syscommand) then triggers.register_triggers(commands, &handle) exactly once",
                  "register_reactors does not register the given bundle exactly once with the handle prepared for the given system and mode")
    except mir.AnchorLost as e:
        ctx.fail("C01.a", "anchor-lost:register_reactors", "", str(e))

    # public trigger-firing entry points hand their own event / entity / type to the matching scheduler
    api_wiring(ctx, prog)
    # trigger bundles: every member of a tuple bundle is registered, reported and counted exactly once
    bundle_tuples(ctx, prog)

    # ---- C01.b one command per registration ----
    n_reg_loops, n_drain = 0, 0
    for (body, L, events, src) in loops:
        fk = lib.fkey(body)
        kind = "drain" if (src and src[0] == "field") else "registrations"
        if src and src[0] in ("table", "entity"):
            n_reg_loops += 1
        elif src and src[0] == "field":
            n_drain += 1
        else:
            if not events:
                continue
        tag = "%s:%s" % (fk, src_tag(src))
        counts, ns = LP.iteration_counts(body, L, events)
        ctx.touch(body, states=ns)
        ctx.check(counts == {1}, "C01.b", "%s:one-command-per-entry" % tag, body.loc(L.driver),
                  "each iteration queues exactly one command", "an iteration queues %s commands (each registration must produce exactly one run)" % sorted(counts))
        ctx.check(not L.exits, "C01.b", "%s:no-early-exit" % tag, body.loc(L.driver), "loop runs to exhaustion",
                  "the dispatch loop can be left before the list is exhausted: %s" % ["%s" % body.loc(x) for x, s in L.exits])
        if src and src[0] in ("table", "entity"):
            for e in events:
                ag = queued_agg(body, e)
                if not ag or "reactor" not in ag.get("fields", []):
                    continue
                rop = ag["ops"][ag["fields"].index("reactor")]
                ok = True
                for o in origins(body, rop):
                    if o[0] == "call" and o[1] == L.driver:
                        continue
                    if o[0] == "call":
                        t3 = body.blocks[o[1]]["term"]
                        fr3 = op_fn(t3["func"])
                        if fr3 and lib.tail(mir.fn_name(fr3), 2) == "ReactorHandle::sys_command" and lib.originates_from_call(body, t3["args"][0], L.driver):
                            continue
                    ok = False
                ctx.check(ok, "C01.b", "%s:reactor-from-element" % tag, body.loc(e), "queued reactor is the iterated element's",
                          "the queued command's reactor does not come from the iterated registration: %s" % lib.origin_str(origins(body, rop)))
    # a dispatch loop may be skipped only because its own list is absent / empty
    for (body, L, events, src) in loops:
        if not src or src[0] not in ("table", "entity"):
            continue
        tag = "%s:%s" % (lib.fkey(body), src_tag(src))
        excuse = absent_or_empty_arms(prog, body, src)
        outer = [M for M in L.outer if M.driver is not None]
        if outer:
            M = min(outer, key=lambda m: len(m.blocks))
            w = lib.path_between_avoiding(body, [M.some_t], [M.header], set(excuse) | {L.driver})
            if w and w[-1] == M.header and len(w) > 1:
                pass
            else:
                w = None
        else:
            w = lib.path_to_return_avoiding(body, [0], set(excuse) | {L.driver})
        ctx.check(w is None, "C01.b", "%s:loop-not-skippable" % tag, body.loc(L.driver),
                  "every path reaches the loop or passes an 'entry absent / list empty' arm of its own list (%d such arms)" % len(excuse),
                  "the dispatch loop can be skipped although its list is present and non-empty (matching registrations would not run)",
                  lib.render_path(body, w) if w else None)
    ctx.floor("C01.b", n_reg_loops, 9, "loops over registration lists")
    ctx.floor("C01.b", n_drain, 3, "buffer->queue transfer loops")
    # outer loops of the polled schedulers: no early exit either
    for nm in ("schedule_removal_reactions", "schedule_despawn_reactions"):
        try:
            m = A.method(prog, "ReactCache", nm)
        except mir.AnchorLost as e:
            ctx.fail("C01.b", "anchor-lost:%s" % nm, "", str(e))
            continue
        for L in LP.find_loops(m):
            ctx.check(L.driver is not None and not L.exits, "C01.b", "ReactCache::%s:loop@%s:no-early-exit" % (nm, driver_tag(m, L)), m.loc(L.header),
                      "loop has no exit other than exhaustion", "a loop of the polled scheduler can be left early (pending removals/despawns would be dropped)")

    # ---- C01.g every queued reaction command runs exactly once, also when postponed by recursion (shared with C02) ----
    import core as _core2
    import c02
    ng = _core2.adopt(ctx, c02, lambda o: o["rule"] in ("C02.a", "C02.c", "C02.d"), "C01.g")
    ctx.floor("C01.g", ng, 40, "shared runner obligations (C02.a/c/d)")
    # ---- C01.e no live registration is lost as a side effect of a revocation (shared with C06.f) ----
    import core as _core
    import c06, c14
    n = _core.adopt(ctx, c06, lambda o: o["rule"] == "C06.f", "C01.e")
    ctx.floor("C01.e", n, 1, "shared entry-deletion obligations (C06.f)")
    # ---- C01.f a trigger that did not happen dispatches nothing (shared with C14.d) ----
    n = _core.adopt(ctx, c14, lambda o: o["rule"] == "C14.d", "C01.f")
    ctx.floor("C01.f", n, 2, "shared void-trigger obligations (C14.d)")

    # ---- C01.c entity-scoped filter is exact ----
    try:
        it = A.method(prog, "EntityReactors", "iter_rtype")
        cnt = A.method(prog, "EntityReactors", "count")
    except mir.AnchorLost as e:
        ctx.fail("C01.c", "anchor-lost:EntityReactors", "", str(e))
        return
    ctx.touch(it)
    ctx.touch(cnt)
    cls = list(prog.closures_of(it))
    # the filter may live in a private iterator type that `iter_rtype` builds from (the list's iterator, the given reaction
    # type): its `Iterator::next` (and that function's closures) is then where the comparison is
    for bb_, i_, st_ in it.iter_stmts():
        ag_ = st_.get("rv", {}).get("agg") if st_["k"] == "assign" else None
        if not ag_ or ag_.get("kind") != "adt" or ag_.get("adt") not in prog.adts:
            continue
        if not any(any(o[0] == "arg" and o[1] == 2 for o in origins(it, op_)) for op_ in ag_["ops"]):
            continue
        for nb_ in prog.bodies:
            if nb_.raw.get("name") == "next" and (nb_.raw.get("impl_trait") or "").endswith("iterator::Iterator") \
                    and re.sub(r"<.*$", "", nb_.raw.get("impl_self") or "") == ag_["adt"]:
                ctx.touch(nb_)
                cls.extend(prog.closures_of(nb_))
    cmp_ok = False
    for c in cls:
        ctx.touch(c)
        whole = {b for (b, t, fr, is_eq) in lib.comparison_calls(c) if any(a.endswith("EntityReactionType") for a in fr.get("args", []))
                 and any(o[0] == "arg" and o[1] == 1 for o in origins(c, t["args"][0]) | origins(c, t["args"][1]))
                 and any(o[0] == "arg" and o[1] == 2 for o in origins(c, t["args"][0]) | origins(c, t["args"][1]))}
        if not whole:
            continue
        # filter_map form: yields Some only on the equal arm
        somes = [bb for bb, i, st in c.iter_stmts() if st["k"] == "assign" and "agg" in st["rv"] and st["rv"]["agg"].get("vname") == "Some"]
        heads = []
        for (b, t, fr, is_eq) in lib.comparison_calls(c):
            if b in whole:
                for (sb, tt, ft) in lib.bool_arms(c, b):
                    heads.append(tt if is_eq else ft)
        if somes and heads and all(lib.dominated_by_any(c, s, heads) for s in somes):
            cmp_ok = True
        # `(a == b).then(|| x)` / `.then_some(x)`: Some only where the comparison was equal
        eqs_ = {b: is_eq for (b, t, fr, is_eq) in lib.comparison_calls(c)}
        for b, t, fr in c.iter_calls():
            if fr and lib.tail(mir.fn_name(fr), 2) in ("bool::then", "bool::then_some") and t["args"]:
                p_ = op_place(t["args"][0])
                src = lib.bool_source(c, p_["l"]) if p_ is not None and not p_["p"] else None
                if src and src[0] in whole and (eqs_[src[0]] != src[1]) and not somes \
                        and all(o[0] == "call" and o[1] == b for o in origins(c, {"copy": {"l": 0, "p": []}})):
                    cmp_ok = True
        # filter form: the predicate returns true only when the comparison was equal
        reqs = lib.true_return_requirements(c) if c.local_ty(0) == "bool" else None
        if reqs and all(any(r.get(b) is True for b in whole) for r in reqs):
            cmp_ok = True
    ctx.check(cmp_ok, "C01.c", "EntityReactors::iter_rtype:filters-on-whole-reaction-type", "%s:%d" % (it.file, it.line),
              "yields an entry only on the equal arm of a comparison of whole EntityReactionType values",
              "iter_rtype does not filter by comparing the whole EntityReactionType (variant and TypeId)")
    derived = [im for im in prog.impls if (im.get("self_adt") or "").endswith("::EntityReactionType") and (im.get("trait") or "").endswith("cmp::PartialEq")]
    ctx.check(len(derived) == 1 and derived[0]["derived"], "C01.c", "EntityReactionType:derived-PartialEq", "",
              "PartialEq of EntityReactionType is derived (compares variant and payload)", "EntityReactionType has a hand-written PartialEq")
    via_iter = bool(cnt.calls_named(lambda n: n == it.path)) and bool(cnt.calls_named(lambda n: lib.tail(n, 1) == "count"))
    if not via_iter and cnt.calls_named(lambda n: lib.tail(n, 1) == "count"):
        # counted directly with a filter of its own: the filter must be the same test as iter_rtype's (an entry is counted
        # only where the whole reaction type compared equal with the requested one)
        for c in prog.closures_of(cnt):
            whole_c = {b for (b, t, fr, is_eq) in lib.comparison_calls(c) if any(a.endswith("EntityReactionType") for a in fr.get("args", []))
                       and any(o[0] == "arg" and o[1] == 1 for o in origins(c, t["args"][0]) | origins(c, t["args"][1]))
                       and any(o[0] == "arg" and o[1] == 2 for o in origins(c, t["args"][0]) | origins(c, t["args"][1]))}
            reqs_c = lib.true_return_requirements(c) if c.local_ty(0) == "bool" else None
            if whole_c and reqs_c and all(any(r.get(b) is True for b in whole_c) for r in reqs_c) \
                    and any(lib.tail(n, 1) == "filter" for _, _, n, _ in lib.field_method_calls(cnt, "EntityReactors", A.entity_reactors_field(prog))):
                via_iter = True
    ctx.check(via_iter, "C01.c",
              "EntityReactors::count:defined-through-iter_rtype", "%s:%d" % (cnt.file, cnt.line), "count == iter_rtype().count()",
              "EntityReactors::count is not defined through iter_rtype (count and dispatch could disagree)")

    # ---- C01.d lookup entity = trigger entity ----
    for (body, L, events, src) in loops:
        if not src or src[0] != "entity":
            continue
        fk = lib.fkey(body)
        for e in events:
            ag = queued_agg(body, e)
            if not ag:
                continue
            for fld in ("reaction_source", "target"):
                if fld in ag.get("fields", []):
                    eo = tuple(sorted(map(tuple, origins(body, ag["ops"][ag["fields"].index(fld)])), key=str))
                    ent = src[1]
                    ctx.check(ent == ("?",) or eo == ent or body.path == _entity_scheduler_path(prog), "C01.d",
                              "%s:lookup-entity=trigger-entity" % fk, body.loc(e),
                              "the EntityReactors looked up belong to the entity reported in the command",
                              "reactors are looked up on %s but the command reports %s" % (ent, eo))
    # callers of the shared entity-scoped scheduler pass the same entity to the lookup and to the scheduler
    try:
        impl, ent_i, rea_i = A.entity_scheduler(prog)
        rty_i = [i for i in range(1, impl.arg_count + 1) if impl.local_ty(i).endswith("::EntityReactionType")][0]
        variants = set()
        for (body, b, t, fr) in prog.callers_of(lambda n: n == impl.path):
            for o in origins(body, t["args"][rty_i - 1]):
                if o[0] == "agg" and len(o) == 3:
                    variants.add(body.blocks[o[1]]["stmts"][o[2]]["rv"]["agg"].get("vname"))
                else:
                    variants.add("?")
        ctx.check(variants >= {"Insertion", "Mutation", "Removal"}, "C01.a", "entity-scoped-dispatch:every-component-kind", "%s:%d" % (impl.file, impl.line),
                  "the shared entity-scoped scheduler is invoked for Insertion, Mutation and Removal reactions",
                  "entity-scoped reactors of kind %s are never dispatched (no scheduler passes that reaction type to the shared entity scheduler)"
                  % sorted({"Insertion", "Mutation", "Removal"} - variants))
        # what the shared scheduler buffers is handed to the world's queue before the caller returns: a return between the
        # buffering and the drain leaves commands of THIS trigger in the shared buffer, to be flushed by the next trigger
        buf_i = [i for i in range(1, impl.arg_count + 1) if "ReactionCommand" in impl.local_ty(i)]
        for (body, b, t, fr) in prog.callers_of(lambda n: n == impl.path):
            if not buf_i:
                break
            src_b = LP.coll_source(body, t["args"][buf_i[0] - 1])
            drains = [b2 for b2, t2, fr2 in body.iter_calls() if fr2 and lib.tail(mir.fn_name(fr2), 1) == "drain" and t2["args"]
                      and LP.coll_source(body, t2["args"][0]) == src_b]
            w_ = lib.path_to_return_avoiding(body, [lib.call_target(body, b)], drains)
            ctx.check(bool(drains) and w_ is None, "C01.b", "%s:buffered-reactions-drained-before-return" % lib.fkey(body), body.loc(b),
                      "every path from the buffering of entity-scoped reactions to return drains the buffer into the queue",
                      "%s can return after buffering entity-scoped reactions without draining the buffer (they would be delivered with a later, unrelated trigger)" % lib.fkey(body),
                      lib.render_path(body, w_) if w_ else None)
        for (body, b, t, fr) in prog.callers_of(lambda n: n == impl.path):
            ctx.touch(body)
            ent = tuple(sorted(map(tuple, origins(body, t["args"][ent_i - 1])), key=str))
            src2 = LP.coll_source(body, t["args"][rea_i - 1])
            ctx.check(src2 is not None and src2[0] == "entity_component" and src2[1] == ent, "C01.d",
                      "%s:lookup-entity=trigger-entity" % lib.fkey(body), body.loc(b),
                      "EntityReactors passed to the shared scheduler are those of the reported entity",
                      "the shared entity scheduler gets reactors of %s but reports entity %s" % (src2, ent))
    except mir.AnchorLost as e:
        # no shared scheduler (e.g. inlined into its callers in the view): the per-loop form of C01.d above covers the
        # entity-scoped loops themselves, provided every component kind has one
        vs_ = {v for key_ in entity_loops for v in key_}
        ctx.check({"Insertion", "Mutation", "Removal"} <= vs_, "C01.a", "entity-scoped-dispatch:every-component-kind", "",
                  "entity-scoped dispatch loops exist for Insertion, Mutation and Removal reactions",
                  "entity-scoped reactors of kind %s are never dispatched" % sorted({"Insertion", "Mutation", "Removal"} - vs_))
        ctx.check({"Insertion", "Mutation", "Removal"} <= vs_, "C01.d", "anchor-lost:schedule_entity_reaction_impl", "", "entity-scoped dispatch loops exist per kind",
                  str(e) + " (and no per-kind entity-scoped dispatch loops were found instead)")
    try:
        rer = A.free_fn(prog, "register_entity_reactor")
        ents = set()
        for b, t, fr in rer.iter_calls():
            if fr and lib.tail(mir.fn_name(fr), 2) in ("Query::get_mut", "Commands::get_entity"):
                ents.add(tuple(sorted(map(tuple, origins(rer, t["args"][1])), key=str)))
        ctx.check(len(ents) == 1, "C01.d", "register_entity_reactor:one-entity", "%s:%d" % (rer.file, rer.line),
                  "lookup and insertion use the same entity", "register_entity_reactor looks up different entities: %s" % sorted(ents))
    except mir.AnchorLost as e:
        ctx.fail("C01.d", "anchor-lost:register_entity_reactor", "", str(e))


def src_tag(src):
    if src is None:
        return "loop"
    if src[0] == "table":
        return "%s%s" % (src[1], "." + src[2] if src[2] else "")
    if src[0] == "entity":
        vs = sorted({x[0] for x in (src[2] or ()) if x and isinstance(x[0], str) and x[0][:1].isupper()})
        return "entity[%s]" % (",".join(vs) or "param")
    if src[0] == "field":
        return "drain(%s)" % src[2]
    return str(src[0])


def driver_tag(body, L):
    if L.driver is None:
        return "?"
    fr = op_fn(body.blocks[L.driver]["term"]["func"])
    src = LP.coll_source(body, body.blocks[L.driver]["term"]["args"][0])
    return "%s(%s)" % (lib.tail(mir.fn_name(fr), 1), src_tag(src))


def absent_or_empty_arms(prog, body, src):
    """blocks entered when a lookup of a registration list failed, or when a summed length is zero"""
    out = []
    for b, t, fr in body.iter_calls():
        if fr is None:
            continue
        n2 = lib.tail(mir.fn_name(fr), 2)
        if n2 in ("HashMap::get", "HashMap::get_mut", "HashMap::remove", "Query::get", "Query::get_mut", "World::get_mut", "World::get"):
            for (sb, ok_t, fail_t) in lib.result_arms(body, b):
                out.append(fail_t)
        if n2 in ("Query::contains", "World::get_entity", "World::get_entity_mut", "Commands::get_entity"):
            # the trigger itself is void: its entity is gone / the component was not inserted (C14.d)
            for (sb, tt, ft) in lib.bool_arms(body, b):
                out.append(ft)
            for (sb, ok_t, fail_t) in lib.result_arms(body, b):
                out.append(fail_t)
    for b, t, fr in body.iter_calls():
        # `if list.is_empty() { return }`: the true arm is the empty arm
        if fr is not None and lib.tail(mir.fn_name(fr), 1) == "is_empty" and t["args"]:
            for (sb, tt, ft) in lib.bool_arms(body, b):
                out.append(tt)
    for b in sorted(body.reachable):
        info = mir.switch_on(body, b)
        if info and info["kind"] == "bin" and info["bin"]["op"] in ("Eq", "Ne", "Gt") and lib.const_val(info["bin"]["r"]) == 0:
            x = info["bin"]["l"]
            understood = LP.len_sources(prog, body, x) is not None
            p = op_place(x)
            if not understood and p is not None:
                # buffer.len() == 0 on a plain local collection
                for o in origins(body, x):
                    if o[0] == "call":
                        fr = op_fn(body.blocks[o[1]]["term"]["func"])
                        if fr and lib.tail(mir.fn_name(fr), 1) in ("len", "count"):
                            understood = True
            if understood:
                tg = info["targets"]
                eq_t = info["otherwise"] if info["bin"]["op"] == "Eq" else tg.get(0)
                if eq_t is not None:
                    out.append(eq_t)
    # the shared entity-scoped scheduler refuses the Event variant explicitly (entity events have their own scheduler);
    # inlined into a component scheduler the arm is infeasible there (the reaction type is built as Insertion/Mutation/Removal)
    if True:
        for sb, place, targets, otherwise in lib.discr_switches(body):
            if "EntityReactionType" in lib.place_type(body, place):
                res = lib.enum_arms(body, prog, sb)
                if res and "Event" in res[0]:
                    out.append(res[0]["Event"])
    return out


def carries_handle_clone(reg, op, clone_blocks, depth=0):
    """operand contains a value produced by one of the clone() calls"""
    for o in origins(reg, op):
        if o[0] == "call" and o[1] in clone_blocks:
            return True
        if o[0] == "agg" and len(o) == 3 and depth < 3:
            agg = reg.blocks[o[1]]["stmts"][o[2]]["rv"]["agg"]
            if any(carries_handle_clone(reg, x, clone_blocks, depth + 1) for x in agg["ops"]):
                return True
    return False


def bundle_tuples(ctx, prog):
    n = 0
    for body in prog.bodies:
        if body.kind != "assoc_fn" or not (body.raw.get("impl_trait") or "").endswith("::ReactionTriggerBundle"):
            continue
        st = body.raw.get("impl_self", "")
        nm = body.raw.get("name")
        if not st.startswith("("):
            # the blanket impl for a single trigger: delegates to the trigger's own register / reactor_type exactly once
            if nm == "register_triggers":
                calls = [(b, t) for b, t, fr in body.iter_calls() if fr and lib.tail(mir.fn_name(fr), 2) == "ReactionTrigger::register"]
                cnt, _, _ = lib.event_counts(body, [b for b, t in calls])
                ok = cnt == {1} and all(lib.originates_from_arg(body, t["args"][0], 1) and lib.originates_from_arg(body, t["args"][1], 2)
                                        and lib.originates_from_arg(body, t["args"][2], 3) for b, t in calls)
                ctx.check(ok, "C01.a", "bundle(single)::register_triggers:registers-the-trigger", "%s:%d" % (body.file, body.line),
                          "the single-trigger bundle registers its trigger exactly once with the given commands and handle",
                          "the single-trigger bundle does not register its trigger exactly once on every path")
                ctx.touch(body)
            if nm == "collect_reactor_types":
                rts = [b for b, t, fr in body.iter_calls() if fr and lib.tail(mir.fn_name(fr), 2) == "ReactionTrigger::reactor_type"]
                sinks = [b for b, t, fr in body.iter_calls() if fr and lib.tail(mir.fn_name(fr), 1) in ("call_mut", "call", "call_once")
                         and any(any(o[0] == "call" and o[1] in rts for o in origins(body, a)) or
                                 any(o[0] == "agg" and any(any(o2[0] == "call" and o2[1] in rts for o2 in origins(body, x))
                                                            for x in body.blocks[o[1]]["stmts"][o[2]]["rv"]["agg"]["ops"]) for o in origins(body, a) if len(o) == 3)
                                 for a in t["args"][1:])]
                cnt, _, _ = lib.event_counts(body, sinks)
                ctx.check(cnt == {1}, "C01.a", "bundle(single)::collect_reactor_types:reports-the-trigger", "%s:%d" % (body.file, body.line),
                          "the single-trigger bundle reports its reactor type exactly once", "the single-trigger bundle does not pass its reactor type to the collector exactly once")
                ctx.touch(body)
            continue
        arity = 0 if st.strip() == "()" else len([x for x in st.strip("()").split(",") if x.strip()])
        if nm not in ("register_triggers", "collect_reactor_types", "len"):
            continue
        n += 1
        ctx.touch(body)
        calls = [(b, t) for b, t, fr in body.iter_calls() if fr and lib.tail(mir.fn_name(fr), 1) == nm]
        fields = set()
        for b, t in calls:
            for o in origins(body, t["args"][0]):
                if o[0] == "arg" and o[1] == 1 and len(o) == 3:
                    fields.add(o[2])
        cnt, _, _ = lib.event_counts(body, [b for b, t in calls])
        ok = len(calls) == arity and len(fields) == arity and (cnt == {arity if arity <= 2 else 2} or arity == 0)
        if ok and nm == "register_triggers":
            ok = all(lib.originates_from_arg(body, t["args"][1], 2) and lib.originates_from_arg(body, t["args"][2], 3) for b, t in calls)
        ctx.check(ok, "C01.a", "bundle(%d)::%s:every-member-once" % (arity, nm), "%s:%d" % (body.file, body.line),
                  "%d members, %d delegated calls on %d distinct tuple fields" % (arity, len(calls), len(fields)),
                  "tuple bundle of arity %d: %s delegates %d times over %d distinct members (a member would be skipped or handled twice)" % (arity, nm, len(calls), len(fields)))
    ctx.floor("C01.a", n, 45, "tuple bundle impl methods (16 arities x 3)")


API = {
    # (impl self name, method) -> (scheduler name, expected generic parameter of the method, input shape)
    ("ReactCommands", "broadcast"): ("schedule_broadcast_reaction", "E", "arg2"),
    ("ReactCommands", "entity_event"): ("schedule_entity_event_reaction", "E", "tuple(arg2,arg3)"),
    ("ReactCommands", "trigger_resource_mutation"): ("schedule_resource_mutation_reaction", "R", "unit"),
    ("ReactCommands", "insert"): ("schedule_insertion_reaction", "C", "arg2"),
    ("World", "broadcast"): ("schedule_broadcast_reaction", "E", "arg2"),
    ("World", "entity_event"): ("schedule_entity_event_reaction", "E", "tuple(arg2,arg3)"),
    ("React", "get_mut"): ("schedule_mutation_reaction", "C", "self.entity"),
    ("React", "set_if_neq"): ("schedule_mutation_reaction", "C", "self.entity"),
    ("React", "trigger_mutation"): ("schedule_mutation_reaction", "C", "arg1"),
}


root_origins = lib.root_origins


def api_wiring(ctx, prog):
    n = 0
    for (ty, name), (sched, gparam, shape) in sorted(API.items()):
        ms = [b for b in prog.bodies if b.kind == "assoc_fn" and b.raw.get("name") == name and lib.impl_self_name(b) == ty]
        if not ms:
            ctx.fail("C01.a", "api:%s::%s:anchor-lost" % (ty, name), "", "entry point not found")
            continue
        for m in ms:
            ctx.touch(m)
            found = []
            for bd in [m] + prog.closures_of(m):
                for b, t, fr in bd.iter_calls():
                    if fr is None or lib.tail(mir.fn_name(fr), 1) not in ("syscall", "syscall_with_validation"):
                        continue
                    for a in t["args"]:
                        fa = op_fn(a)
                        if fa and lib.tail(mir.fn_name(fa), 1).startswith("schedule_"):
                            found.append((b, t, fa, bd))
            n += 1
            ok = len(found) == 1 and lib.tail(mir.fn_name(found[0][2]), 1) == sched and found[0][2].get("args", [])[:1] == [gparam]
            if ok and found[0][3] is not m:
                # the trigger is queued by a closure built in the entry point (e.g. an `on_change` callback handed to a
                # helper): its input is judged by what the entry point captured
                os_ = root_origins(prog, m, found[0][3], found[0][1]["args"][1])
                ok = shape == "self.entity" and bool(os_) and all(o[0] == "arg" and o[1] == 1 and o[-1] == ".entity" for o in os_)
            elif ok:
                inp = found[0][1]["args"][1]
                os_ = origins(m, inp)
                if shape == "arg2":
                    ok = lib.originates_from_arg(m, inp, 2)
                elif shape == "arg1":
                    ok = lib.originates_from_arg(m, inp, 1)
                elif shape == "self.entity":
                    ok = bool(os_) and all(o[0] == "arg" and o[1] == 1 and o[-1] == ".entity" for o in os_)
                elif shape == "tuple(arg2,arg3)":
                    ag = tuple_agg(m, inp)
                    ok = ag is not None and len(ag["ops"]) == 2 and lib.originates_from_arg(m, ag["ops"][0], 2) and lib.originates_from_arg(m, ag["ops"][1], 3)
            ctx.check(ok, "C01.a", "api:%s::%s:fires-own-trigger" % (ty, name), "%s:%d" % (m.file, m.line),
                      "queues %s::<%s> with its own input" % (sched, gparam),
                      "%s::%s does not hand its own event/entity to %s::<%s> (found %s)" % (ty, name, sched, gparam, [(lib.tail(mir.fn_name(f[2]), 1), f[2].get("args", [])[:1]) for f in found]))
    ctx.floor("C01.a", n, 9, "public trigger-firing entry points")

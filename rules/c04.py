"""C04 - Event data is invisible outside the run it caused.
Decides: the cleanup is consumed exactly once, before the run's deferred commands, on every path and in both runner
configurations; flag setters unreachable from outside; payload take is a move (DESIGN.md section 4, C04)."""
import re

import mir
from mir import op_fn, op_place, origins
import lib
import linear
import anchors as A
import core

EXPLANATION = (
    "The cleanup that clears the 'currently reacting' flags is followed as a linear value from the runner to the point "
    "where it is called: every function and closure of the crate that receives it (the stored callback closures, "
    "RawCallbackSystem/CallbackSystem::run_with_cleanup, run_initialized_system and the wrapper closures) consumes it "
    "exactly once on every normally returning path (interprocedural path counting by summaries). In "
    "run_initialized_system the exclusive arm queues the cleanup on the world's own command queue before System::run, "
    "the other arm orders run_unsafe -> cleanup -> apply_deferred on every path. Every end_* clears every flag its "
    "start_* set (shared with C03). Tracker types, their prepare/start/end and the payload components are not reachable "
    "from outside the crate (effective-visibility facts). SystemEventData::take moves the payload out of an Option<T> "
    "with no Clone/Copy bound on T and no unsafe code, so an owned T cannot be produced twice.")

NOT_DECIDED = [
    "visibility at every position of arbitrary trees: follows from the decided clauses plus C02 only together with Bevy's flush order (trusted)",
    "callbacks built by users with SystemCommandCallback::with (documented obligation of the user to invoke the cleanup)",
]

# named exception (DESIGN.md C04.b): one symbol, one reason
EXCEPTIONS = {
    "ReactCommands::once::{closure#1}": "the path on which the stored FnOnce was already taken (Option::take() == None) drops the "
    "cleanup; infeasible because the first run despawns the reactor entity before returning (guarded by rule C15.b)",
}


def check(ctx):
    ctx.explanation = EXPLANATION
    ctx.not_decided = NOT_DECIDED
    prog = ctx.prog
    ris = ctx.anchor("C04.anchor", lambda: A.free_fn(prog, "run_initialized_system"), "run_initialized_system")
    if ris is None:
        return
    ctx.touch(ris, calls=len(list(ris.iter_calls())))
    rk = lib.fkey(ris)
    # role check of the anchor: called by both run_with_cleanup functions
    rwc = [b for b in prog.bodies if b.raw.get("name") == "run_with_cleanup" and b.kind == "assoc_fn"]
    ctx.floor("C04.a", len(rwc), 2, "run_with_cleanup functions")
    for f in rwc:
        ctx.check(bool(f.calls_named(lambda n: n == ris.path)), "C04.a", "%s:runs-through-run_initialized_system" % lib.fkey(f),
                  "%s:%d" % (f.file, f.line), "delegates to run_initialized_system",
                  "%s does not run its system through run_initialized_system" % f.path)

    # ---- C04.a order inside run_initialized_system ----
    cleanup_arg = ris.arg_count
    excl = [b for b, t, fr in ris.iter_calls() if fr and lib.tail(mir.fn_name(fr), 2) == "System::is_exclusive"]
    if ctx.floor("C04.a", len(excl), 1, "is_exclusive() test"):
        arms = lib.bool_arms(ris, excl[0])
        if not arms:
            ctx.fail("C04.a", "%s:anchor-lost:exclusive-branch" % rk, ris.loc(excl[0]), "is_exclusive() result is not branched on")
        else:
            sb, excl_t, nonexcl_t = arms[0]
            res = linear.Res("arg", cleanup_arg)
            runs = [b for b, t, fr in ris.iter_calls() if fr and lib.tail(mir.fn_name(fr), 2) == "System::run"]
            run_unsafe = [b for b, t, fr in ris.iter_calls() if fr and lib.tail(mir.fn_name(fr), 2) == "System::run_unsafe"]
            applies = [b for b, t, fr in ris.iter_calls() if fr and lib.tail(mir.fn_name(fr), 2) == "System::apply_deferred"]
            queues = []
            for b, t, fr in ris.iter_calls():
                if fr and lib.tail(mir.fn_name(fr), 2) == "Commands::queue":
                    agg = linear.agg_of(ris, t["args"][1])
                    if (agg and agg["kind"] == "closure" and any(linear.is_res(ris, c, res) for c in agg["ops"])) \
                            or linear.is_res(ris, t["args"][1], res) \
                            or (agg and agg["kind"] == "adt" and prog.type_impls(agg.get("adt"), "Command")
                                and any(linear.is_res(ris, c, res) for c in agg["ops"])):
                        # `queue(move |w| cleanup(w))`, `queue(cleanup)` or `queue(RunCleanup(cleanup))` (a crate command struct)
                        # on the world's own queue
                        recv = origins(ris, t["args"][0])
                        own = all(o[0] == "call" and lib.tail(mir.fn_name(op_fn(ris.blocks[o[1]]["term"]["func"])), 2) == "World::commands"
                                  and lib.originates_from_arg(ris, ris.blocks[o[1]]["term"]["args"][0], 1) for o in recv) and bool(recv)
                        ctx.check(own, "C04.a", "%s:cleanup-queued-on-world-queue" % rk, ris.loc(b),
                                  "cleanup is queued on world.commands()", "cleanup is queued on a queue that is not the world's own")
                        queues.append(b)
            calls = [b for b, t, fr in ris.iter_calls() if fr and lib.tail(mir.fn_name(fr), 2) == "FnOnce::call_once"
                     and linear.is_res(ris, t["args"][0], res)]
            # exclusive arm: queue(cleanup) dominates System::run; no run_unsafe/apply_deferred needed
            ex_runs = [b for b in runs if ris.dominates(excl_t, b)]
            ctx.check(bool(ex_runs) and all(any(ris.dominates(q, b) and ris.dominates(excl_t, q) for q in queues) for b in ex_runs),
                      "C04.a", "%s:exclusive-arm-queues-cleanup-before-run" % rk, ris.loc(ex_runs[0]) if ex_runs else ris.loc(sb),
                      "exclusive arm: Commands::queue(cleanup) dominates System::run",
                      "exclusive arm: the cleanup is not queued on the world queue before System::run (the system's own commands would run first)")
            w = lib.path_to_return_avoiding(ris, [excl_t], ex_runs)
            ctx.check(w is None, "C04.a", "%s:exclusive-arm-always-runs" % rk, ris.loc(sb), "",
                      "exclusive arm can return without running the system", lib.render_path(ris, w) if w else None)
            # non-exclusive arm: run_unsafe -> cleanup -> apply_deferred
            ne_run = [b for b in run_unsafe if ris.dominates(nonexcl_t, b)]
            ne_calls = [b for b in calls if ris.dominates(nonexcl_t, b)]
            ne_apply = [b for b in applies if ris.dominates(nonexcl_t, b)]
            ok = bool(ne_run) and bool(ne_calls) and bool(ne_apply)
            ok = ok and all(any(ris.dominates(r, c) for r in ne_run) for c in ne_calls)
            ok = ok and all(any(ris.dominates(c, a) for c in ne_calls) for a in ne_apply)
            ctx.check(ok, "C04.a", "%s:run-then-cleanup-then-apply_deferred" % rk, ris.loc(ne_run[0]) if ne_run else ris.loc(sb),
                      "non-exclusive arm: run_unsafe dominates cleanup(), which dominates apply_deferred",
                      "non-exclusive arm: order run_unsafe -> cleanup -> apply_deferred is broken (cleanup must run before the system's deferred commands)")
            w = lib.path_to_return_avoiding(ris, [nonexcl_t], ne_apply)
            ctx.check(w is None and bool(ne_apply), "C04.a", "%s:deferred-applied-on-every-path" % rk, ris.loc(sb), "",
                      "non-exclusive arm can return without apply_deferred", lib.render_path(ris, w) if w else None)
            # no safe System::run on the non-exclusive arm before the cleanup (it would apply deferred first)
            bad = [b for b in runs if ris.dominates(nonexcl_t, b)]
            ctx.check(not bad, "C04.a", "%s:no-safe-run-on-nonexclusive-arm" % rk, ris.loc(sb), "",
                      "non-exclusive arm uses System::run (which applies deferred commands before the cleanup)")
            # every safe System::run (which applies the system's deferred commands, and flushes the world for an exclusive
            # system) anywhere in the function is preceded on every path by the cleanup having been queued or called: a run
            # outside the two arms (a "fast path") would let the run's own commands execute inside the event window
            for r_ in runs:
                w_ = lib.path_between_avoiding(ris, [0], [r_], queues + calls)
                ctx.check(w_ is None, "C04.a", "%s:no-deferred-applying-run-before-cleanup" % rk, ris.loc(r_),
                          "System::run is reached only after the cleanup was queued or called",
                          "a path reaches System::run (which applies / flushes the run's own commands) before the cleanup was queued or called",
                          lib.render_path(ris, w_) if w_ else None)
            # apply_deferred never before cleanup anywhere
            for a in applies:
                ctx.check(any(ris.dominates(c, a) for c in calls), "C04.a", "%s:apply_deferred-after-cleanup" % rk, ris.loc(a),
                          "apply_deferred is dominated by the cleanup call", "apply_deferred can run before the cleanup")

    # ---- C04.b cleanup linearity up the chain ----
    L = linear.Linear(prog)
    subjects = []   # (body, Res, label)
    subjects.append((ris, linear.Res("arg", cleanup_arg), "run_initialized_system"))
    for f in rwc:
        subjects.append((f, linear.Res("arg", f.arg_count), lib.fkey(f)))
    # closures stored by the crate into SystemCommandCallback::with
    stored = stored_callbacks(prog)
    ctx.floor("C04.b", len(stored), 2, "callback closures stored by the crate (SystemCommandCallback::new, ReactCommands::once)")
    for c in stored:
        subjects.append((c, linear.Res("arg", 3), lib.fkey(c)))
    # the stored callback's own entry point hands the cleanup to the boxed closure (every run goes through it)
    for b_ in prog.bodies:
        if lib.tail(b_.path, 2) == A.names(prog)["callback_run"] and b_.arg_count == 3:
            subjects.append((b_, linear.Res("arg", 3), lib.fkey(b_)))
    for body, res, label in subjects:
        ctx.touch(body, calls=len(list(body.iter_calls())))
        counts = L.summary(body, res)
        key = "%s:cleanup-consumed-exactly-once" % label
        exc = None
        for k in EXCEPTIONS:
            if label.endswith(k) or lib.fkey(body).replace("<'w, 's>", "") == k or k in mir.strip_generics(body.path):
                exc = k
            # the same closure built by a private helper of `once` (the view re-parents the closures of an inlined helper to the
            # function that builds them): the one that takes the stored FnOnce out of its captured Option
            elif k.startswith("ReactCommands::once::") and body.kind == "closure" and mir.strip_generics(body.raw.get("root") or "").endswith("ReactCommands::once") \
                    and k.rsplit("::", 1)[0] not in mir.strip_generics(body.path):
                exc = k
        if counts == {1}:
            ctx.ok("C04.b", key, "%s:%d" % (body.file, body.line), "every returning path consumes the cleanup exactly once")
        elif exc and counts == {0, 1} and zero_only_on_taken_none(body, L, res) and exception_premise_holds(ctx, exc):
            ctx.ok("C04.b", key, "%s:%d" % (body.file, body.line), "exception %s: %s" % (exc, EXCEPTIONS[exc]))
            ctx.notes.append("exception applied: %s - %s" % (exc, EXCEPTIONS[exc]))
        else:
            bad = sorted(counts - {1})
            w = L.witness(body, res, bad[0]) if bad else None
            ev = {b: "consumes cleanup: " + d for b, (m, d) in L.events.get((body.path, res.key()), {}).items()}
            ctx.fail("C04.b", key, "%s:%d" % (body.file, body.line),
                     "the cleanup is consumed %s times on some path (must be exactly once: it clears the reacting flags before the run's deferred commands)" % bad,
                     lib.render_path(body, w, ev) if w else None)
    for body, b, desc in L.unknown:
        ctx.fail("C04.b", "%s:cleanup-escapes" % lib.fkey(body), body.loc(b), desc)
    ctx.touch(None, states=L.states)

    # the terminal consumers themselves: Cleanup::run calls the stored fn exactly once when present,
    # Setup::run calls the stored fn exactly once with its own reactor; the constructors store what they are given
    carriers(ctx, prog)

    # ---- C04.c every end_* clears every flag its start_* set (shared with C03.a / C03.b) ----
    import c03
    n = core.reuse(ctx, c03, ["C03.a", "C03.b", "C03.h"], "C04.c")
    ctx.floor("C04.c", n, 20, "shared C03.a/C03.b obligations")

    # ---- C04.g nothing else runs between the start of the event window and the reacting system's body ----
    # (setup.run sets the reacting flags; any call that hands out &mut World before callback.run - a poll, a flush, a GC
    #  that triggers reactions - would let unrelated systems read this event)
    try:
        R = A.runner(prog)
        ctx.touch(R)
        runs_ = lib.call_blocks(R, lib.ends(A.names(prog)["callback_run"]))
        setups = [b for b, t, fr in R.calls_named(lambda n: lib.tail(n, 2) == A.names(prog)["setup_run"]) if lib.originates_from_arg(R, R.blocks[b]["term"]["args"][0], 3)
                  and any(R.dominates(b, r) for r in runs_)]
        bad = []
        for s in setups:
            after = R.reach_from(lib.call_target(R, s))
            for b, t, fr in R.iter_calls():
                if b in runs_ or b not in after or not any(r in R.reach_from(b) for r in runs_) or any(R.dominates(r, b) for r in runs_):
                    continue
                for a in t["args"]:
                    pl = op_place(a)
                    if pl is not None and not pl["p"] and R.local_ty(pl["l"]).startswith("&mut bevy_ecs::world::World"):
                        nm = lib.tail(mir.fn_name(fr), 2) if fr else "<indirect>"
                        if nm not in ("World::resource_mut", "World::resource", "World::get_resource_mut"):
                            bad.append((R.loc(b), nm))
        ctx.check(bool(setups) and not bad, "C04.g", "runner:nothing-runs-between-setup-and-callback", R.loc(setups[0]) if setups else "%s:%d" % (R.file, R.line),
                  "no call receives &mut World between setup.run and callback.run",
                  "between setup.run (event flags set) and callback.run the runner calls %s with &mut World: whatever that runs can read this event" % bad)
    except mir.AnchorLost as e:
        ctx.fail("C04.g", "anchor-lost:runner", "", str(e))

    import c02 as _c02
    nrr = core.adopt(ctx, _c02, lambda o: o["rule"] == "C02.c" and "::replay:" in o["key"], "C04.f")
    ctx.floor("C04.f", nrr, 5, "shared replay obligations (C02.c)")
    # ---- C04.f a run postponed by recursion is handed its own event's metadata (shared with C03.e / C12.a) ----
    nf = core.adopt(ctx, c03, lambda o: o["rule"] == "C03.e", "C04.f")
    ctx.floor("C04.f", nf, 12, "shared claim-order obligations (C03.e)")

    # ---- C04.h nothing that was detected before a run is left pending into it: reactions to removals / despawns made earlier
    # are flushed by the runner's entry pass (collect + poll) *before* the target is looked up and its setup marks the event as
    # being reacted to; a reaction still queued at that point would run inside the run (e.g. in an exclusive system's final
    # flush, ahead of the queued cleanup) and observe the event (shared with C08.e) ----
    import c08 as _c08
    nh_ = core.adopt(ctx, _c08, lambda o: o["rule"] == "C08.e" and "runner:" in o["key"], "C04.h")
    ctx.floor("C04.h", nh_, 3, "shared entry-pass obligations of the runner (C08.e)")
    # ---- C04.i a command that is neither run nor postponed is aborted through the abort helper (setup *then* cleanup): a drop
    # path that runs only the cleanup ends a reaction that was never started and leaves the prepared entry to the next run,
    # which then reads an event that did not cause it (shared with C02.a / C05.d) ----
    import c05 as _c05i
    ni_ = core.adopt(ctx, _c02, lambda o: o["rule"] == "C02.a" and any(k in o["key"] for k in ("dispositions=", "single-disposition", "setup-runs-before-callback")), "C04.i")
    ni_ += core.adopt(ctx, _c05i, lambda o: o["rule"] == "C05.d" and "<=" not in o["key"], "C04.i")
    ctx.floor("C04.i", ni_, 2, "shared disposition obligations (C02.a, C05.d)")

    # ---- C04.d who can set the flag (A9) ----
    trackers = A.tracker_types(prog)
    private_types = sorted(trackers) + [p for p in prog.adts if re.search(r"(EventData|SystemCommandStorage|DataEntityCounter)$", p)]
    ctx.floor("C04.d", len(private_types), 8, "tracker / payload / storage types")
    for p in private_types:
        adt = prog.adts[p]
        ctx.check(adt["reachable"] is False, "C04.d", "%s:not-nameable-outside" % p.split("::")[-1], "%s:%d" % (adt["file"], adt["line"]),
                  "type is not reachable from outside the crate", "%s is reachable from outside the crate" % p)
    for ty in sorted(trackers):
        for m in A.methods_of(prog, ty.split("::")[-1]):
            ctx.check(m.raw.get("reachable") is False, "C04.d", "%s::%s:not-callable-outside" % (ty.split("::")[-1], m.raw.get("name")),
                      "%s:%d" % (m.file, m.line), "", "%s is callable from outside the crate" % m.path)
    # the flag field is written only by the tracker's own methods
    for ty in sorted(trackers):
        writers = set()
        for body in prog.bodies:
            for (b, i, adt, f, rv) in lib.field_writes(body, ty):
                if lib.impl_self_path(body) != ty:
                    writers.add(body.path)
        ctx.check(not writers, "C04.d", "%s:fields-written-only-by-own-methods" % ty.split("::")[-1], "", "",
                  "fields of %s are written outside its impl: %s" % (ty, sorted(writers)))

    # ---- C04.e take at most once ----
    try:
        take = A.method(prog, "SystemEventData", "take")
        rtake = A.method(prog, "SystemEvent", "take")
    except mir.AnchorLost as e:
        ctx.fail("C04.e", "anchor-lost:SystemEventData::take", "", str(e))
        return
    ctx.touch(take)
    ctx.touch(rtake)
    moves = [(b, t, n) for b, t, n, ch in lib.field_method_calls(take, "SystemEventData", "data")]
    okmove = any(lib.tail(n, 2) in ("Option::take", "mem::take", "mem::replace") for b, t, n in moves)
    clones = [n for b, t, n in moves if lib.tail(n, 1) in ("clone", "cloned", "copied", "to_owned")]
    ctx.check(okmove and not clones, "C04.e", "SystemEventData::take:moves-out-of-option", "%s:%d" % (take.file, take.line),
              "payload is moved out with Option::take", "SystemEventData::take does not move the payload out of the Option (ops: %s)" % [n for _, _, n in moves])
    for m in (take, rtake):
        bad = [p for p in m.raw.get("preds", []) if re.search(r"\b(Clone|Copy)\b", p)]
        ctx.check(not bad, "C04.e", "%s:no-clone-bound" % lib.fkey(m), "%s:%d" % (m.file, m.line),
                  "no Clone/Copy bound on the payload type", "a Clone/Copy bound on the payload allows handing out copies: %s" % bad)
        ctx.check(m.raw.get("unsafe_blocks", 0) == 0 and not m.raw.get("unsafe_fn"), "C04.e", "%s:no-unsafe" % lib.fkey(m),
                  "%s:%d" % (m.file, m.line), "no unsafe code", "unsafe code in the payload take path")
    adt = prog.adts.get(lib.impl_self_path(take))
    if adt:
        fty = [f["ty"] for f in adt["variants"][0]["fields"] if f["name"] == "data"]
        ctx.check(fty and fty[0].startswith("core::option::Option<"), "C04.e", "SystemEventData:payload-is-option", "%s:%d" % (adt["file"], adt["line"]),
                  "payload field is Option<T>", "payload field is %s, not Option<T>" % fty)
    ctx.sample({"cleanup_carriers": [s[2] for s in subjects]})


def stored_callbacks(prog):
    """closures built in this crate that flow into SystemCommandCallback::with"""
    out = []
    for (body, b, t, fr) in prog.callers_of(lambda n: lib.tail(n, 2) == "SystemCommandCallback::with"):
        for o in origins(body, t["args"][0]):
            if o[0] == "agg":
                agg = body.blocks[o[1]]["stmts"][o[2]]["rv"]["agg"]
                if agg["kind"] == "closure":
                    cb = prog.body(agg["closure"])
                    if cb is not None:
                        out.append(cb)
                        # closures reachable through captured Option<closure> (the `once` inner reactor)
                        for cap in agg["ops"]:
                            for oo in origins(body, cap):
                                if oo[0] == "agg":
                                    a2 = body.blocks[oo[1]]["stmts"][oo[2]]["rv"]["agg"]
                                    if a2["kind"] == "adt" and a2["adt"].endswith("Option"):
                                        for op2 in a2["ops"]:
                                            a3 = linear.agg_of(body, op2)
                                            if a3 and a3["kind"] == "closure" and prog.body(a3["closure"]) is not None:
                                                out.append(prog.body(a3["closure"]))
    return list({c.path: c for c in out}.values())


def exception_premise_holds(ctx, exc):
    """the `once` exception (the already-taken arm drops the cleanup) is sound only while that arm is infeasible, i.e. while
    the first run despawns the reactor entity and revokes its triggers on every path (C15.b) - otherwise a second delivery
    reaches the arm with the reacting flags set and never clears them"""
    if "once" not in exc:
        return True
    import c15
    sub = core.sub_obligations(ctx, c15)
    b = [o for o in sub.obligations if o["rule"] == "C15.b"]
    ok = bool(b) and all(o["ok"] for o in b)
    if not ok:
        ctx.notes.append("exception %s NOT applied: its premise C15.b does not hold (%s)" % (exc, [o["key"] for o in b if not o["ok"]][:3]))
    return ok


def zero_only_on_taken_none(body, L, res):
    """the only zero-consumption paths go through the None arm of an Option::take() on a captured value"""
    takes = [b for b, t, fr in body.iter_calls() if fr and lib.tail(mir.fn_name(fr), 2) == "Option::take"
             and all(o[0] == "arg" and o[1] == 1 for o in origins(body, t["args"][0]))]
    none_arms = []
    for tb in takes:
        for (sb, some_t, none_t) in lib.result_arms(body, tb):
            none_arms.append(none_t)
    if not none_arms:
        return False
    ev = L.events.get((body.path, res.key()), {})
    w = lib.path_to_return_avoiding(body, [0], set(ev) | set(none_arms))
    return w is None


def indirect_calls(body):
    """call terminators whose callee is a value (fn pointer): [(block, term, origins of the callee operand)]"""
    out = []
    for b in sorted(body.reachable):
        t = body.blocks[b]["term"]
        if t["k"] == "call" and op_fn(t["func"]) is None and mir.op_closure_const(t["func"]) is None:
            out.append((b, t, origins(body, t["func"])))
    return out


def carriers(ctx, prog):
    try:
        R_ = A.runner(prog)
        st_name = re.sub(r"<.*$", "", R_.local_ty(3)).split("::")[-1] if R_.arg_count >= 4 else "SystemCommandSetup"
        ct_name = re.sub(r"<.*$", "", R_.local_ty(4)).split("::")[-1] if R_.arg_count >= 4 else "SystemCommandCleanup"
        crun, cnew = A.carrier_methods(prog, ct_name)
        srun, snew = A.carrier_methods(prog, st_name)
    except mir.AnchorLost as e:
        ctx.fail("C04.b", "anchor-lost:setup/cleanup carriers", "", str(e))
        return
    for m in (crun, cnew, srun, snew):
        ctx.touch(m)
    # Cleanup::run
    ic = indirect_calls(crun)
    okc = len(ic) == 1 and all(o[0] == "arg" and o[1] == 1 and ".cleanup" in o for o in ic[0][2]) if ic else False
    if okc:
        sws = [(sb, pl, tg, ow) for sb, pl, tg, ow in lib.discr_switches(crun) if pl["l"] == 1]
        okc = len(sws) == 1
        if okc:
            sb, pl, tg, ow = sws[0]
            some_t = tg.get(1)
            cnt, _, _ = lib.event_counts(crun, [ic[0][0]], start=some_t) if some_t is not None else ({0}, None, 0)
            okc = some_t is not None and crun.dominates(some_t, ic[0][0]) and cnt == {1}
    ctx.check(okc, "C04.b", "SystemCommandCleanup::run:calls-stored-fn-once-when-present", "%s:%d" % (crun.file, crun.line),
              "Some(f) arm calls f(world) exactly once", "SystemCommandCleanup::run does not call the stored cleanup exactly once on the Some arm")
    agg = [st["rv"]["agg"] for b, i, st in cnew.iter_stmts() if st["k"] == "assign" and "agg" in st["rv"] and st["rv"]["agg"].get("adt", "").endswith("::SystemCommandCleanup")]
    okn = len(agg) == 1
    if okn:
        inner = origins(cnew, agg[0]["ops"][0])
        okn = False
        for o in inner:
            if o[0] == "agg":
                a2 = cnew.blocks[o[1]]["stmts"][o[2]]["rv"]["agg"]
                okn = a2.get("vname") == "Some" and lib.originates_from_arg(cnew, a2["ops"][0], 1)
    ctx.check(okn, "C04.b", "SystemCommandCleanup::new:stores-Some(cleanup)", "%s:%d" % (cnew.file, cnew.line), "", "SystemCommandCleanup::new does not store Some(<its argument>)")
    # Setup::run
    # the carrier's two private fields by type: the stored hook (a fn pointer) and the stored system id
    F_SETUP, F_REACTOR = "setup", "reactor"
    try:
        _sa = prog.adt_by_name("SystemCommandSetup")
        _fn = [f_["name"] for f_ in _sa["variants"][0]["fields"] if re.match(r"^(for<.*> )?fn\(", f_["ty"])]
        _id = [f_["name"] for f_ in _sa["variants"][0]["fields"] if f_["ty"].endswith("::SystemCommand")]
        if len(_fn) == 1:
            F_SETUP = _fn[0]
        if len(_id) == 1:
            F_REACTOR = _id[0]
    except (mir.AnchorLost, KeyError, IndexError):
        pass
    isr = indirect_calls(srun)
    oks = len(isr) == 1
    if oks:
        b, t, os_ = isr[0]
        cnt, _, _ = lib.event_counts(srun, [b])
        oks = cnt == {1} and all(o[0] == "arg" and o[1] == 1 and o[-1] == "." + F_SETUP for o in os_) and len(t["args"]) == 2 \
            and all(o[0] == "arg" and o[1] == 1 and o[-1] == "." + F_REACTOR for o in origins(srun, t["args"][1]))
        if not oks and cnt == {1} and all(o[0] == "arg" and o[1] == 1 and o[-1] == "." + F_SETUP for o in os_) and len(t["args"]) == 2:
            # the reactor id is not stored in the carrier but handed to run() by its caller: then every caller passes the id of
            # the command it is running / aborting (the runner its own command, the abort helper the command it was given,
            # which the runner takes from its own parameter or from the buffered entry it discards)
            ro_ = origins(srun, t["args"][1])
            ks_ = {o[1] for o in ro_ if o[0] == "arg" and len(o) == 2}
            if ro_ and len(ks_) == 1 and all(o[0] == "arg" and len(o) == 2 for o in ro_) and min(ks_) >= 3 \
                    and srun.local_ty(min(ks_)).endswith("::SystemCommand"):
                k_ = min(ks_)
                oks = True
                R_ = A.runner(prog)
                for (cb_, b_, t_, fr_) in prog.callers_of(lambda n: n == srun.path):
                    co_ = origins(cb_, t_["args"][k_ - 1])
                    if cb_.path == R_.path:
                        oks = oks and bool(co_) and all(o[0] == "arg" and o[1] == 2 for o in co_)
                    else:
                        # a helper of the runner (the abort helper): forwards its own SystemCommand parameter, and the runner
                        # calls it with its own command or with the `.command` of the entry whose setup / cleanup it passes
                        ps_ = {o[1] for o in co_ if o[0] == "arg" and len(o) == 2}
                        oks = oks and bool(co_) and len(ps_) == 1 and all(o[0] == "arg" and len(o) == 2 for o in co_) \
                            and cb_.local_ty(min(ps_)).endswith("::SystemCommand")
                        if oks:
                            for (rb_, b2_, t2_, fr2_) in prog.callers_of(lambda n: n == cb_.path):
                                so_ = origins(rb_, t2_["args"][min(ps_) - 1])
                                own_ = bool(so_) and all(o[0] == "arg" and o[1] == 2 and len(o) == 2 for o in so_)
                                popped_ = bool(so_) and all(o[-1] == ".command" for o in so_)
                                oks = oks and rb_.path == R_.path and (own_ or popped_)
    ctx.check(oks, "C04.b", "SystemCommandSetup::run:calls-stored-fn-once-with-own-reactor", "%s:%d" % (srun.file, srun.line),
              "(self.setup)(world, self.reactor) exactly once", "SystemCommandSetup::run does not call its stored setup exactly once with its own reactor")
    agg = [st["rv"]["agg"] for b, i, st in snew.iter_stmts() if st["k"] == "assign" and "agg" in st["rv"] and st["rv"]["agg"].get("adt", "").endswith("::SystemCommandSetup")]
    okn = False
    if len(agg) == 1 and F_SETUP in agg[0].get("fields", []):
        fs_ = agg[0]["fields"]
        # every stored field comes from a distinct constructor argument (`{reactor, setup}` or just `{setup}`)
        srcs_ = []
        okn = True
        for fn_, op_ in zip(fs_, agg[0]["ops"]):
            oo_ = origins(snew, op_)
            okn = okn and bool(oo_) and all(o[0] == "arg" and len(o) == 2 for o in oo_) and len({o[1] for o in oo_}) == 1
            srcs_ += [o[1] for o in oo_][:1]
        okn = okn and len(set(srcs_)) == len(fs_)
    ctx.check(okn, "C04.b", "SystemCommandSetup::new:stores-its-arguments", "%s:%d" % (snew.file, snew.line), "", "SystemCommandSetup::new does not store (reactor, setup) as given")

"""Frozen classification tables (DESIGN.md A5 / A8). Names are generics-stripped def paths of std / smallvec /
hashbrown / crossbeam / bevy items; a method that is not listed is *unclassified* (rules that need a complete
classification report it as inconclusive)."""

# ---- A5 container operations ----------------------------------------------------------------------------------
APPEND_ORDERED = {
    "alloc::vec::Vec::push", "alloc::collections::vec_deque::VecDeque::push_back", "smallvec::SmallVec::push",
    "alloc::collections::vec_deque::VecDeque::append", "alloc::vec::Vec::append",
    "alloc::vec::Vec::extend", "core::iter::traits::collect::Extend::extend",
}
ORDER_PRESERVING_REMOVE = {
    "alloc::vec::Vec::remove", "alloc::collections::vec_deque::VecDeque::pop_front",
    "alloc::collections::vec_deque::VecDeque::remove", "alloc::vec::Vec::retain", "alloc::vec::Vec::retain_mut",
    "alloc::collections::vec_deque::VecDeque::retain", "alloc::collections::vec_deque::VecDeque::retain_mut",
    "alloc::vec::Vec::drain", "alloc::collections::vec_deque::VecDeque::drain", "smallvec::SmallVec::drain",
    "smallvec::SmallVec::drain_filter", "smallvec::SmallVec::retain", "smallvec::SmallVec::remove",
    "alloc::vec::Vec::extract_if", "alloc::vec::Vec::clear", "alloc::collections::vec_deque::VecDeque::clear",
    "smallvec::SmallVec::clear", "alloc::vec::Vec::truncate",
}
ORDER_DESTROYING = {
    "alloc::vec::Vec::swap_remove", "smallvec::SmallVec::swap_remove",
    "alloc::collections::vec_deque::VecDeque::swap_remove_back", "alloc::collections::vec_deque::VecDeque::swap_remove_front",
    "alloc::collections::vec_deque::VecDeque::push_front", "alloc::collections::vec_deque::VecDeque::pop_back",
    "alloc::vec::Vec::pop", "smallvec::SmallVec::pop", "alloc::vec::Vec::insert", "smallvec::SmallVec::insert",
    "alloc::collections::vec_deque::VecDeque::insert",
    "alloc::slice::<impl [T]>::sort", "alloc::slice::<impl [T]>::sort_by", "alloc::slice::<impl [T]>::sort_by_key",
    "core::slice::<impl [T]>::sort_unstable", "core::slice::<impl [T]>::sort_unstable_by", "core::slice::<impl [T]>::sort_unstable_by_key",
    "core::slice::<impl [T]>::reverse", "core::slice::<impl [T]>::swap", "core::slice::<impl [T]>::rotate_left",
    "core::slice::<impl [T]>::rotate_right", "alloc::collections::vec_deque::VecDeque::rotate_left",
    "alloc::collections::vec_deque::VecDeque::rotate_right", "alloc::collections::vec_deque::VecDeque::swap",
    "alloc::collections::vec_deque::VecDeque::make_contiguous",
    "core::iter::traits::iterator::Iterator::rev", "core::iter::traits::double_ended::DoubleEndedIterator::next_back",
    "core::iter::traits::iterator::Iterator::rposition", "core::iter::traits::double_ended::DoubleEndedIterator::rfind",
    "core::iter::traits::iterator::Iterator::max_by_key", "core::iter::traits::iterator::Iterator::min_by_key",
    "core::iter::traits::iterator::Iterator::last",
}
FIRST_MATCH_SEARCH = {
    "core::iter::traits::iterator::Iterator::position", "core::iter::traits::iterator::Iterator::find",
    "core::iter::traits::iterator::Iterator::find_map",
}
LOOKUP = {
    "core::slice::<impl [T]>::iter", "core::slice::<impl [T]>::iter_mut", "core::slice::<impl [T]>::get", "core::slice::<impl [T]>::get_mut",
    "core::slice::<impl [T]>::first", "core::slice::<impl [T]>::is_empty", "core::slice::<impl [T]>::len",
    "alloc::vec::Vec::len", "alloc::vec::Vec::is_empty", "alloc::vec::Vec::iter", "alloc::vec::Vec::capacity",
    "alloc::collections::vec_deque::VecDeque::len", "alloc::collections::vec_deque::VecDeque::is_empty",
    "alloc::collections::vec_deque::VecDeque::iter", "alloc::collections::vec_deque::VecDeque::front",
    "alloc::collections::vec_deque::VecDeque::get", "alloc::collections::vec_deque::VecDeque::get_mut",
    "core::ops::index::Index::index", "core::ops::index::IndexMut::index_mut",
    "<alloc::collections::vec_deque::VecDeque<T, A> as core::ops::index::Index<usize>>::index",
    "<alloc::vec::Vec<T, A> as core::ops::index::Index<I>>::index",
    "smallvec::SmallVec::len", "smallvec::SmallVec::is_empty",
    "<smallvec::SmallVec<A> as core::ops::index::Index<I>>::index", "<smallvec::SmallVec<A> as core::ops::index::IndexMut<I>>::index_mut",
    "core::ops::deref::Deref::deref", "core::ops::deref::DerefMut::deref_mut",
    "<alloc::vec::Vec<T, A> as core::ops::deref::Deref>::deref", "<alloc::vec::Vec<T, A> as core::ops::deref::DerefMut>::deref_mut",
    "<smallvec::SmallVec<A> as core::ops::deref::Deref>::deref", "<smallvec::SmallVec<A> as core::ops::deref::DerefMut>::deref_mut",
    "core::iter::traits::collect::IntoIterator::into_iter",
    "core::default::Default::default", "core::mem::take", "core::mem::replace",
    # order-preserving iterator adaptors / consumers that only look
    "core::iter::traits::iterator::Iterator::enumerate", "core::iter::traits::iterator::Iterator::next",
    "core::iter::traits::iterator::Iterator::map", "core::iter::traits::iterator::Iterator::filter",
    "core::iter::traits::iterator::Iterator::filter_map", "core::iter::traits::iterator::Iterator::by_ref",
    "core::iter::traits::iterator::Iterator::peekable", "core::iter::traits::iterator::Iterator::cloned",
    "core::iter::traits::iterator::Iterator::copied", "core::iter::traits::iterator::Iterator::any",
    "core::iter::traits::iterator::Iterator::all", "core::iter::traits::iterator::Iterator::count",
    "core::iter::traits::iterator::Iterator::for_each", "core::cmp::PartialEq::eq", "core::cmp::PartialEq::ne",
}
WHOLE_VALUE_MOVE = {"core::mem::take", "core::mem::replace", "core::mem::swap", "core::option::Option::take",
                    "alloc::vec::Vec::new", "alloc::collections::vec_deque::VecDeque::new"}

RELEASE = ORDER_PRESERVING_REMOVE | {
    "alloc::vec::Vec::swap_remove", "alloc::vec::Vec::pop", "smallvec::SmallVec::swap_remove", "smallvec::SmallVec::pop",
    "hashbrown::map::HashMap::remove", "std::collections::hash::map::HashMap::remove", "hashbrown::map::HashMap::clear",
    "core::option::Option::take", "core::mem::take", "core::mem::replace",
}


_NORM = {}


def _norm(setobj):
    from mir import strip_generics
    k = id(setobj)
    if k not in _NORM:
        _NORM[k] = {strip_generics(x) for x in setobj} | set(setobj)
    return _NORM[k]


def classify(name):
    """class of a (generics-stripped, resolved) callee name for container-order rules"""
    from mir import strip_generics
    n = strip_generics(name)
    # normalise `<X as Trait>::m` to `Trait::m`
    if n.startswith("<") and " as " in n:
        inner = n[1:]
        depth = 0
        for i, ch in enumerate(inner):
            if ch == "<":
                depth += 1
            elif ch == ">":
                if depth == 0:
                    tr = inner[:i].split(" as ", 1)[1]
                    rest = inner[i + 1:]
                    n2 = strip_generics(tr) + rest
                    break
                depth -= 1
        else:
            n2 = n
    else:
        n2 = n
    for cand in (n, n2):
        if cand in _norm(ORDER_DESTROYING):
            return "order-destroying"
        if cand in _norm(FIRST_MATCH_SEARCH):
            return "first-match-search"
        if cand in _norm(APPEND_ORDERED):
            return "append-ordered"
        if cand in _norm(ORDER_PRESERVING_REMOVE):
            return "order-preserving-remove"
        if cand in _norm(LOOKUP):
            return "lookup"
    return None


# ---- A8 entity / component lookups (Bevy 0.15) ------------------------------------------------------------------
# last two path segments of the resolved callee
FALLIBLE_LOOKUPS = {
    "World::get_entity", "World::get_entity_mut", "World::get", "World::get_mut", "World::get_resource",
    "World::get_resource_mut", "EntityWorldMut::get", "EntityWorldMut::get_mut", "EntityRef::get", "EntityMut::get",
    "EntityMut::get_mut", "Query::get", "Query::get_mut", "Query::get_many", "Query::get_single", "Query::get_single_mut",
    "Commands::get_entity", "Query::contains", "EntityWorldMut::contains", "World::contains_resource",
    "HashMap::get", "HashMap::get_mut", "HashMap::remove", "World::remove_resource", "World::get_resource_or_insert_with",
    "EntityWorldMut::take", "World::try_resource_scope", "Query::iter", "Query::iter_mut", "Query::get_inner",
}
PANICKING_LOOKUPS = {
    "World::entity", "World::entity_mut", "Commands::entity", "Query::single", "Query::single_mut",
    "World::resource", "World::resource_mut", "World::resource_ref", "World::resource_scope", "World::non_send_resource",
    "World::non_send_resource_mut", "World::many_entities", "World::many_entities_mut",
    "Query::many", "Query::many_mut", "Query::component", "Query::component_mut",
}
# deferred entity commands that panic at apply time when the entity is gone (Bevy 0.15)
PANICKING_DEFERRED = {"EntityCommands::insert", "EntityCommands::insert_if", "EntityCommands::insert_if_new",
                      "EntityCommands::insert_by_id"}
TOLERANT_DEFERRED = {"EntityCommands::try_insert", "EntityCommands::try_insert_if", "EntityCommands::try_insert_if_new",
                     "EntityCommands::remove", "EntityCommands::despawn", "EntityCommands::try_despawn",
                     "EntityCommands::remove_with_requires", "EntityCommands::retain"}
PANIC_FNS = {"core::panicking::panic", "core::panicking::panic_fmt", "core::panicking::panic_display",
             "core::panicking::unreachable_display", "core::panicking::panic_explicit",
             "core::option::unwrap_failed", "core::result::unwrap_failed", "core::option::expect_failed",
             "core::panicking::assert_failed", "std::rt::begin_panic", "core::panicking::panic_nounwind",
             "std::rt::panic_fmt"}
UNWRAPS = {"Option::unwrap", "Option::expect", "Result::unwrap", "Result::expect", "Result::unwrap_err",
           "Result::expect_err", "Option::unwrap_unchecked"}

LEAK_FNS = {"core::mem::forget", "core::mem::ManuallyDrop::new", "core::mem::manually_drop::ManuallyDrop::new",
            "alloc::boxed::Box::leak", "alloc::sync::Arc::into_raw", "alloc::sync::Arc::increment_strong_count",
            "alloc::boxed::Box::into_raw", "alloc::rc::Rc::into_raw", "alloc::vec::Vec::leak",
            "alloc::sync::Arc::from_raw", "alloc::sync::Arc::decrement_strong_count"}

DESPAWN_FNS = {"World::despawn", "World::try_despawn", "EntityWorldMut::despawn", "EntityWorldMut::despawn_recursive",
               "EntityCommands::despawn", "EntityCommands::despawn_recursive", "EntityCommands::try_despawn",
               "DespawnRecursiveExt::despawn_recursive", "DespawnRecursiveExt::despawn_descendants",
               "EntityWorldMut::despawn_descendants", "EntityCommands::despawn_descendants",
               "World::clear_entities", "World::clear_all"}

"""C03 - A run sees exactly the data of the event that caused it.
Decides: prepare/start/end sets agree per command kind; tracker field symmetry; readers gated by flag, variant and
type; claim key identifies the command (DESIGN.md section 4, C03)."""
import re

import mir
from mir import op_fn, op_place, origins
import lib
import tables as T
import anchors as A
import c12

EXPLANATION = (
    "Per command kind (every arm of ReactionCommand::apply, EventCommand::apply, SystemCommand::apply) the set of access "
    "trackers that receive prepare() equals the set started by the function whose address is reified into the setup and "
    "the set ended by the function reified into the cleanup, and all three use the command's own system id. In every "
    "tracker start() sets and end() clears the flag is_reacting() returns, and every accessor field is written from the "
    "claimed entry. Every public reader method reaches tracker data only on the is_reacting()==true arm; typed entity "
    "readers additionally only on the arm of their own reaction variant and after an equal TypeId comparison with "
    "TypeId::of::<T>() of their own T; EntityLocal only after check(). Two reader types gated by the same tracker query "
    "different storage components, or each examines a tag field of the shared storage (C03.j). The claim predicate of start() must depend on "
    "something unique per prepare(): today it depends on the system id only (known finding F3, four keys).")

NOT_DECIDED = [
    "the behavioural claim for arbitrary mixes of pending events (it is refuted on the current tree by finding F3: metadata is claimed by system id)",
    "payload values; that the Query for the data component finds the entity (type-directed lookup, Bevy trusted)",
]

READER_VARIANT = {"InsertionEvent": "Insertion", "MutationEvent": "Mutation", "RemovalEvent": "Removal"}


def tracker_calls(prog, body, trackers, name, depth=2, _seen=None):
    """set of tracker type paths whose method `name` is called from body, transitively through crate callees"""
    out = set()
    _seen = _seen or set()
    if body.path in _seen:
        return out
    _seen.add(body.path)
    for b, t, cb in lib.local_call_bodies(prog, body):
        sp = lib.impl_self_path(cb)
        if cb.raw.get("name") == name and sp in trackers and not cb.raw.get("impl_trait"):
            out.add(sp)
        elif depth > 0 and cb.kind == "fn":
            out |= tracker_calls(prog, cb, trackers, name, depth - 1, _seen)
    return out


def reified_fn(ap, op):
    """the fn item / closure an operand (fn pointer) originates from"""
    out = []
    for o in origins(ap, op):
        if o[0] == "fnitem":
            out.append(("fn", o[1]))
        elif o[0] == "agg":
            st = ap.blocks[o[1]]["stmts"][o[2]]
            if st["rv"]["agg"]["kind"] == "closure":
                out.append(("closure", st["rv"]["agg"]["closure"]))
        else:
            out.append(("unknown", str(o)))
    return out


def arm_protocol(ctx, prog, ap, region, trackers, R, akey, where):
    """P/S/E sets and system-id agreement for one arm (region = set of blocks)"""
    P = set()
    ids = []
    for b, t, cb in lib.local_call_bodies(prog, ap, region):
        sp = lib.impl_self_path(cb)
        if cb.raw.get("name") == "prepare" and sp in trackers:
            P.add(sp)
            ids.append(("prepare " + sp.split("::")[-1], origins(ap, t["args"][1])))
    S, E = set(), set()
    n_runner = 0
    for b, t, fr in ap.iter_calls(region):
        if fr is None or mir.fn_name(fr) != R.path:
            continue
        n_runner += 1
        ids.append(("runner", origins(ap, t["args"][1])))
        # setup: origin of arg 2 is a call to SystemCommandSetup::new or Default::default
        for which, argi, acc in (("setup", 2, S), ("cleanup", 3, E)):
            for o in origins(ap, t["args"][argi]):
                if o[0] != "call":
                    ctx.fail("C03.a", "%s:%s-not-constructed-here" % (akey, which), ap.loc(b), "origin %s" % (o,))
                    continue
                ct = ap.blocks[o[1]]["term"]
                cfr = op_fn(ct["func"])
                cname = lib.tail(mir.fn_name(cfr), 2)
                if cname.endswith("::default"):
                    # default setup/cleanup: must start/end nothing
                    db = prog.resolve_local(cfr)
                    if db is not None:
                        for cb2 in [db] + prog.closures_of(db):
                            acc |= tracker_calls(prog, cb2, trackers, "start" if which == "setup" else "end")
                    continue
                if not (cname.endswith("::new") or cname in (A.names(prog)["setup_new"], A.names(prog)["cleanup_new"])):
                    ctx.fail("C03.a", "%s:%s-unknown-constructor:%s" % (akey, which, cname), ap.loc(o[1]), "")
                    continue
                # the constructor's function argument (by what it is, not by position: `new(reactor, f)` or `new(f)`)
                fn_args = [a_ for a_ in ct["args"] if any(k_ in ("fn", "closure") for k_, _n in reified_fn(ap, a_))]
                if not fn_args:
                    ctx.fail("C03.a", "%s:%s-fn-unresolved" % (akey, which), ap.loc(o[1]), "no function argument in %s" % cname)
                    continue
                fn_arg = fn_args[0]
                if which == "setup":
                    for a_ in ct["args"]:
                        p_ = op_place(a_)
                        if a_ is not fn_arg and p_ is not None and ap.local_ty(p_["l"]).endswith("::SystemCommand"):
                            ids.append(("setup", origins(ap, a_)))
                for kind, name in reified_fn(ap, fn_arg):
                    fb = prog.by_path.get(name) or (prog.find(name)[0] if prog.find(name) else None)
                    if fb is None:
                        ctx.fail("C03.a", "%s:%s-fn-unresolved" % (akey, which), ap.loc(o[1]), "%s %s" % (kind, name))
                        continue
                    ctx.touch(fb)
                    acc |= tracker_calls(prog, fb, trackers, "start" if which == "setup" else "end")
    names = lambda s: sorted(x.split("::")[-1] for x in s)
    # non-vacuous: the arm hands its command to the runner itself (through a helper the sets above would all be empty)
    ctx.check(n_runner >= 1, "C03.a", "%s:arm-calls-the-runner" % akey, where, "%d runner call(s) in the arm" % n_runner,
              "the arm of this command kind does not call the runner directly: its prepare/start/end sets cannot be read on this view")
    ctx.check(P == S == E, "C03.a", "%s:prepare=start=end" % akey, where,
              "prepared %s = started %s = ended %s" % (names(P), names(S), names(E)),
              "trackers prepared %s, started by the setup %s, ended by the cleanup %s differ" % (names(P), names(S), names(E)))
    # one system id origin
    flat = set()
    for _, os_ in ids:
        flat |= {tuple(o) for o in os_}
    ctx.check(len(flat) == 1 and all(o[0] == "arg" and o[1] == 1 for o in flat), "C03.a", "%s:one-system-id" % akey, where,
              "prepare/setup/runner all receive %s" % lib.origin_str(flat),
              "prepare, setup and runner do not all receive the command's own system id: %s" % [(n, lib.origin_str(o)) for n, o in ids])
    return P


def check(ctx):
    ctx.explanation = EXPLANATION
    ctx.not_decided = NOT_DECIDED
    prog = ctx.prog
    trackers = ctx.anchor("C03.anchor", lambda: A.tracker_types(prog), "tracker types")
    R = ctx.anchor("C03.anchor", lambda: A.runner(prog), "runner")
    if not trackers or R is None:
        return
    ctx.floor("C03.a", len(trackers), 4, "access tracker types")

    # ---- C03.a protocol agreement per arm ----
    n_arms = 0
    for ap in A.command_apply_impls(prog):
        if not ap.calls_named(lambda n: n == R.path):
            continue
        ctx.touch(ap, calls=len(list(ap.iter_calls())))
        ak = lib.fkey(ap)
        sw = [(sb, place, tg, ow) for (sb, place, tg, ow) in lib.discr_switches(ap) if place["l"] == 1 and not place["p"]]
        if sw:
            sb = sw[0][0]
            arms, otherwise, adt = lib.enum_arms(ap, prog, sb)
            ctx.check(ap.is_unreachable_block(otherwise), "C03.a", "%s:match-exhaustive" % ak, ap.loc(sb), "no catch-all arm",
                      "the command match has a reachable catch-all arm")
            for vname, tb in sorted(arms.items()):
                region = lib.arm_region(ap, tb, sb)
                arm_protocol(ctx, prog, ap, region, trackers, R, "%s[%s]" % (ak, vname), ap.loc(tb))
                n_arms += 1
        else:
            arm_protocol(ctx, prog, ap, None, trackers, R, ak, "%s:%d" % (ap.file, ap.line))
            n_arms += 1
    ctx.floor("C03.a", n_arms, 7, "command kinds (5 reaction arms + system event + plain system command)")

    # ---- C03.b tracker field symmetry; C03.d claim key; C03.e order ----
    accessor_fields = {}
    gated_accessors = {}     # tracker -> {method name: field} for accessors that check the flag themselves
    tracker_flags = {}
    for ty in sorted(trackers):
        tname = ty.split("::")[-1]
        try:
            start = A.method(prog, tname, "start")
            end = A.method(prog, tname, "end")
            prep = A.method(prog, tname, "prepare")
        except mir.AnchorLost as e:
            ctx.fail("C03.b", "anchor-lost:%s" % tname, "", str(e))
            continue
        try:
            isr = A.method(prog, tname, "is_reacting")
        except mir.AnchorLost as e:
            isr = None
        for m in (start, end, isr, prep):
            if m is not None:
                ctx.touch(m)
        enum_true = None
        if isr is not None:
            flag = returned_field(isr)
            opt_flag = option_flag(isr) if flag is None else None
            if flag is None and opt_flag is None:
                ef = enum_flag(prog, isr, ty)
                if ef is not None:
                    flag, enum_true = ef
        else:
            # no flag getter: the tracker hands its data out through *gated* accessors (`fn x(&self) -> Option<..>` that
            # return Some(field) only where the flag field is true). The flag is the bool field that start() sets to
            # true and end() sets to false.
            cands = {f for (b, i, adt, f, rv) in lib.field_writes(start, ty) if "use" in rv and lib.const_val(rv["use"]) == 1} & \
                    {f for (b, i, adt, f, rv) in lib.field_writes(end, ty) if "use" in rv and lib.const_val(rv["use"]) == 0}
            flag = cands.pop() if len(cands) == 1 else None
            opt_flag = None
        if flag is None and opt_flag is None:
            ctx.fail("C03.b", "%s::is_reacting:anchor-lost:flag-field" % tname, "%s:%d" % ((isr or start).file, (isr or start).line), "is_reacting does not return a field")
            continue
        tracker_flags[ty] = (flag, isr is not None)
        flag = flag or opt_flag
        sw = [(b, i, rv) for (b, i, adt, f, rv) in lib.field_writes(start, ty) if f == flag]
        ew = [(b, i, rv) for (b, i, adt, f, rv) in lib.field_writes(end, ty) if f == flag]
        if enum_true is not None:
            # is_reacting() maps the variants of a state enum to true / false: start stores a `true` variant, end a `false` one
            ok_s = bool(sw) and all(agg_variant(start, rv) in enum_true for _, _, rv in sw)
            ok_e = bool(ew) and all(agg_variant(end, rv) is not None and agg_variant(end, rv) not in enum_true for _, _, rv in ew)
        elif opt_flag is None:
            ok_s = bool(sw) and all("use" in rv and lib.const_val(rv["use"]) == 1 for _, _, rv in sw)
            ok_e = bool(ew) and all("use" in rv and lib.const_val(rv["use"]) == 0 for _, _, rv in ew)
        else:
            # is_reacting() is `self.<f>.is_some()`: start stores Some(..), end stores None
            ok_s = bool(sw) and all(writes_some(start, rv) for _, _, rv in sw)
            ok_e = bool(ew) and all(lib.writes_none(end, rv) for _, _, rv in ew)
        ctx.check(ok_s, "C03.b",
                  "%s::start:sets-flag" % tname, "%s:%d" % (start.file, start.line), "start writes true to %s" % flag,
                  "start does not write constant true to the flag %s that is_reacting() returns" % flag)
        ctx.check(ok_e, "C03.b",
                  "%s::end:clears-flag" % tname, "%s:%d" % (end.file, end.line), "end writes false to %s" % flag,
                  "end does not write constant false to the flag %s" % flag)
        # the tracker starts out not reacting: its constructor (Default) stores false / None into the flag
        dfl = [b_ for b_ in prog.bodies if b_.kind == "assoc_fn" and (b_.raw.get("impl_trait") or "").endswith("default::Default")
               and re.sub(r"<.*$", "", b_.raw.get("impl_self", "")) == ty]
        for d in dfl:
            ctx.touch(d)
            okd = False
            for b_, i_, st_ in d.iter_stmts():
                if st_["k"] == "assign" and "agg" in st_["rv"] and st_["rv"]["agg"].get("adt") == ty and flag in st_["rv"]["agg"].get("fields", []):
                    opf = st_["rv"]["agg"]["ops"][st_["rv"]["agg"]["fields"].index(flag)]
                    if enum_true is not None:
                        av_ = agg_variant(d, {"use": opf})
                        okd = av_ is not None and av_ not in enum_true
                    else:
                        okd = (lib.const_val(opf) == 0) if opt_flag is None else lib.writes_none(d, {"use": opf})
                    if not okd:
                        # `..Default::default()` / derived Default: bool::default() is false, Option::default() is None
                        os_ = origins(d, opf)
                        okd = bool(os_) and all(o[0] == "call" and "efault" in mir.fn_name(op_fn(d.blocks[o[1]]["term"]["func"]) or {"path": ""})
                                                and not d.blocks[o[1]]["term"]["args"] for o in os_)
            ctx.check(okd, "C03.b", "%s::default:starts-not-reacting" % tname, "%s:%d" % (d.file, d.line), "the flag is false / None in a fresh tracker",
                      "a fresh %s already reports is_reacting() == true: readers outside any reaction would see (stale) event data" % tname)
        # end clears the flag on every path
        wb = [b for b, _, _ in ew]
        w = lib.path_to_return_avoiding(end, [0], wb)
        ctx.check(w is None, "C03.b", "%s::end:clears-flag-on-every-path" % tname, "%s:%d" % (end.file, end.line), "",
                  "a path through end() does not clear the flag", lib.render_path(end, w) if w else None)
        # claimed entry: the order-preserving removal from the pending list in start
        claim_calls = [b for b, t, n, ch in lib.field_method_calls(start, ty, pending_field(prog, ty, prep) or "?")
                       if T.classify(n) in ("order-preserving-remove", "order-destroying")]
        # accessors: methods other than the protocol ones that return a field
        acc = {}
        for m in A.methods_of(prog, tname):
            nm = m.raw.get("name")
            if nm in ("prepare", "start", "end", "is_reacting"):
                continue
            f = returned_field(m)
            if f:
                acc[nm] = f
            elif opt_flag is None:
                gf = gated_field(m, ty, flag)
                if gf:
                    acc[nm] = gf
                    gated_accessors.setdefault(ty, {})[nm] = gf
        accessor_fields[ty] = acc
        acc_paths = {m.raw.get("name"): returned_field_path(m) for m in A.methods_of(prog, tname)}
        for nm, f in sorted(acc.items()):
            ws = [(b, i, rv) for (b, i, adt, ff, rv) in lib.field_writes(start, ty) if ff == f]
            fp = acc_paths.get(nm)
            if not ws and fp and len(fp) > 1:
                # the accessor returns a field of a record stored in the tracker (self.<rec>.<f>): a write of the whole
                # record (or of any prefix of the path) in start() is a write of that field
                for b, i, st in start.iter_stmts():
                    if st["k"] == "assign" and st["place"]["l"] == 1:
                        wp = self_field_path(st["place"])
                        if wp and len(wp) <= len(fp) and tuple(fp[:len(wp)]) == wp:
                            ws.append((b, i, st["rv"]))
            okw = bool(ws) and bool(claim_calls)
            for (b, i, rv) in ws:
                src = rv.get("use")
                os_ = origins(start, src) if src else set()
                if not os_ or not all(o[0] == "call" and o[1] in claim_calls for o in os_):
                    okw = False
            # ... and on every path: a conditional write would leave the previous run's value visible
            if okw:
                # a claim that reports failure (`VecDeque::remove -> Option`) claimed nothing on its None arm
                starts_ = []
                for cc in claim_calls:
                    arms_ = lib.result_arms(start, cc)
                    starts_ += [ok_t for (sb_, ok_t, fail_t) in arms_] if arms_ else [lib.call_target(start, cc)]
                wpath = lib.path_to_return_avoiding(start, starts_, [b for (b, i, rv) in ws])
                ctx.check(wpath is None, "C03.b", "%s::start:writes-%s-on-every-claimed-path" % (tname, f), "%s:%d" % (start.file, start.line),
                          "every path after the claim writes %s" % f,
                          "a path of start() claims an entry but does not overwrite %s: the reader sees the value of an earlier reaction" % f,
                          lib.render_path(start, wpath) if wpath else None)
            ctx.check(okw, "C03.b", "%s::start:writes-%s-from-claimed-entry" % (tname, f), "%s:%d" % (start.file, start.line),
                      "accessor %s() returns %s, which start() fills from the claimed pending entry" % (nm, f),
                      "field %s returned by %s() is not written in start() from the claimed pending entry" % (f, nm))
        # start sets the flag only on the found path (not when the claim failed)
        # C03.d: claim predicate inputs
        preds = [c for c in prog.closures_of(start) if any(True for _ in c.iter_calls())]
        search = [(b, t, n) for b, t, n, ch in lib.field_method_calls(start, ty, pending_field(prog, ty, prep) or "?")
                  if T.classify(n) == "first-match-search"]
        loop_claims = lib.loop_first_match(start, ty, pending_field(prog, ty, prep) or "?") if not search else []
        for (L_, cb_, other) in loop_claims:
            only_sysid = bool(other) and all(o[0] == "arg" and start.local_ty(o[1]).endswith("SystemCommand") for o in other)
            param_tys = [start.local_ty(i) for i in range(2, start.arg_count + 1)]
            ctx.check(not only_sysid, "C03.d", "%s::start:system-id-only" % tname, start.loc(cb_),
                      "claim predicate depends on %s" % lib.origin_str(other),
                      "pending metadata is claimed by first match on the system id alone (parameters %s): two pending entries of one "
                      "system cannot be told apart, so a replayed run can receive another command's metadata" % param_tys)
        if not search and not loop_claims:
            ctx.fail("C03.d", "%s::start:anchor-lost:claim-search" % tname, "%s:%d" % (start.file, start.line), "no first-match search on the pending list")
        for b, t, n in search:
            inputs = set()
            for o in origins(start, t["args"][1]):
                if o[0] == "agg":
                    st = start.blocks[o[1]]["stmts"][o[2]]
                    for cap in st["rv"]["agg"]["ops"]:
                        for oo in origins(start, cap):
                            inputs.add(oo)
                    # polarity: the predicate selects an entry only where a comparison with the captured value compared EQUAL
                    pcb = prog.body(st["rv"]["agg"].get("closure")) if st["rv"]["agg"]["kind"] == "closure" else None
                    if pcb is not None:
                        reqs = lib.true_return_requirements(pcb)
                        okp = bool(reqs) and all(any(v for v in r.values()) for r in reqs)
                        ctx.check(okp, "C03.e", "%s::start:claims-the-entry-of-its-own-system" % tname, start.loc(b),
                                  "the claim predicate is true only where the entry's system compared equal to the starting reactor",
                                  "the claim predicate can select an entry whose system did NOT compare equal to the starting reactor (a run would be handed another system's metadata)")
            param_tys = [start.local_ty(i) for i in range(2, start.arg_count + 1)]
            only_sysid = all(o[0] == "arg" and start.local_ty(o[1]).endswith("SystemCommand") for o in inputs) and bool(inputs)
            ctx.check(not only_sysid, "C03.d", "%s::start:system-id-only" % tname, start.loc(b),
                      "claim predicate depends on %s" % lib.origin_str(inputs),
                      "pending metadata is claimed by first match on the system id alone (parameters %s): two pending entries of one "
                      "system cannot be told apart, so a replayed run can receive another command's metadata" % param_tys)
        # C03.e shared with C12.a
        c12.container_ops(ctx, "C03.e", start, ty, pending_field(prog, ty, prep) or "?",
                          {"first-match-search", "order-preserving-remove", "lookup"}, ["first-match-search"], "%s::start" % tname)

    # ---- C03.h the trackers' state is written only by their own prepare / start / end (who-writes table) ----
    import writers
    nwr = writers.check(ctx, "C03.h", ["EventAccessTracker", "EntityReactionAccessTracker", "SystemEventAccessTracker", "DespawnAccessTracker"])
    ctx.notes.append("who-writes table: %d tracker fields with pinned writers checked" % nwr)
    # ---- C03.c reader gating ----
    readers = reader_types(prog, trackers)
    ctx.floor("C03.c", len(readers), 8, "reader types holding a tracker")
    # who-reads table (rules/readers.json): a reader type reads the trackers it read on the pinned tree. A reader that starts
    # to consult another tracker sees metadata that was prepared for another kind of reader (e.g. the entity-reaction tracker
    # is prepared with a placeholder type id for entity events), which no gating rule below can vouch for.
    import json as _json
    import os as _os
    try:
        with open(_os.path.join(_os.path.dirname(_os.path.abspath(__file__)), "readers.json")) as fh:
            pinned_readers = _json.load(fh)
    except OSError:
        pinned_readers = {}
        ctx.fail("C03.c", "anchor-lost:readers.json", "", "pinned reader/tracker table missing")
    tshort = {t.split("::")[-1] for t in trackers}
    for rty, tys in sorted(readers.items()):
        rname = rty.split("::")[-1]
        if rname not in pinned_readers or rname == "FetchState":      # FetchState: generated by derive(SystemParam), one per reader
            continue
        extra = sorted({t.split("::")[-1] for t in tys} - set(pinned_readers[rname]))
        # a renamed tracker: a pinned name that no tracker type carries any more frees one slot
        gone = [p_ for p_ in pinned_readers[rname] if p_ not in tshort]
        extra = extra[len(gone):]
        adt_ = prog.adts.get(rty) or {}
        ctx.check(not extra, "C03.c", "%s:reads-only-its-pinned-trackers" % rname, "%s:%s" % (adt_.get("file", ""), adt_.get("line", "")),
                  "%s holds %s" % (rname, sorted(t.split("::")[-1] for t in tys)),
                  "%s now also reads %s (pinned: %s): it would see metadata prepared for another kind of reader" % (rname, extra, pinned_readers[rname]))
    n_methods = 0
    for rty, tys in sorted(readers.items()):
        rname = rty.split("::")[-1]
        methods = A.methods_of(prog, rname)
        gates = {}
        for m in methods:
            g = gate_info(prog, m, trackers)
            if g is not None:
                gates[m.path] = g
        for m in methods:
            ctx.touch(m, calls=len(list(m.iter_calls())))
            accs = []
            for b, t, cb in lib.local_call_bodies(prog, m):
                sp = lib.impl_self_path(cb)
                if sp in trackers and cb.raw.get("name") not in ("is_reacting",) and not cb.raw.get("impl_trait"):
                    accs.append((b, t, cb, sp))
            # direct reads of tracker data fields (an accessor inlined into the reader, or a field made visible): only
            # where the tracker's flag was read true
            mk = "%s::%s" % (rname, m.raw.get("name"))
            for sp_ in tys:
                fl_ = tracker_flags.get(sp_)
                if not fl_:
                    continue
                heads_f = field_true_heads(m, sp_, fl_[0], any_base=True)
                for b, i, st in m.iter_stmts():
                    if st["k"] != "assign":
                        continue
                    rv = st["rv"]
                    p_ = op_place(rv["use"]) if "use" in rv else rv.get("ref")
                    if p_ is None or not p_["p"]:
                        continue
                    ff = lib.field_of(p_)
                    if not ff or ff[0] != sp_ or ff[1] == fl_[0] or ff[1] not in set(accessor_fields.get(sp_, {}).values()):
                        continue
                    ctx.check(any(m.dominates(h_, b) for h_ in heads_f), "C03.c", "%s:%s-read-gated-by-flag" % (mk, ff[1]), m.loc(b, i),
                              "tracker field %s read only where %s was read true" % (ff[1], fl_[0]),
                              "%s reads the tracker field %s directly on a path where the flag %s was not checked" % (mk, ff[1], fl_[0]))
            if not accs:
                continue
            n_methods += 1
            # heads: true arms of is_reacting() on the same tracker, or return targets of gate-function calls
            heads = {}
            for b, t, cb in lib.local_call_bodies(prog, m):
                sp = lib.impl_self_path(cb)
                if sp in trackers and cb.raw.get("name") == "is_reacting":
                    for (sb, tt, ft) in lib.bool_arms(m, b):
                        heads.setdefault(sp, []).append(tt)
                elif cb.path in gates and cb.path != m.path:
                    for sp2 in gates[cb.path]:
                        heads.setdefault(sp2, []).append(lib.call_target(m, b))
            for b, t, cb, sp in accs:
                fld = accessor_fields.get(sp, {}).get(cb.raw.get("name"))
                ctx.check(fld is not None, "C03.c", "%s:%s-is-a-plain-getter" % (mk, cb.raw.get("name")), m.loc(b),
                          "tracker.%s() returns the field %s that start() fills from the claimed entry" % (cb.raw.get("name"), fld),
                          "tracker.%s() is not a plain getter of a field filled by start() (what the reader sees is not the claimed metadata)" % cb.raw.get("name"))
            for b, t, cb, sp in accs:
                if cb.raw.get("name") in gated_accessors.get(sp, {}):
                    ctx.ok("C03.c", "%s:%s-gated-by-is_reacting" % (mk, cb.raw.get("name")), m.loc(b),
                           "tracker.%s() itself returns the field only where the flag is true (gated accessor)" % cb.raw.get("name"))
                    continue
                ctx.check(lib.dominated_by_any(m, b, heads.get(sp, [])), "C03.c", "%s:%s-gated-by-is_reacting" % (mk, cb.raw.get("name")),
                          m.loc(b), "tracker.%s() only on the is_reacting()==true arm" % cb.raw.get("name"),
                          "%s reads tracker.%s() on a path where is_reacting() was not checked true" % (mk, cb.raw.get("name")))
            if rname in READER_VARIANT:
                typed_reader(ctx, prog, m, mk, accs, READER_VARIANT[rname], accessor_fields)
            if rname == "EntityLocal" and m.raw.get("name") != "check":
                chk = [b for b, t, cb in lib.local_call_bodies(prog, m) if cb.raw.get("name") == "check" and lib.impl_self_path(cb) == rty]
                # (the guard inlined into the accessor: reads sit on the arm where the systems matched, or are the comparison's operand)
                heads_m, operands_m = _system_match_heads(prog, m) if not chk else ([], set())
                for b, t, cb, sp in accs:
                    ctx.check(any(m.dominates(lib.call_target(m, c), b) for c in chk) or b in operands_m or (bool(heads_m) and lib.dominated_by_any(m, b, heads_m)),
                              "C03.c", "%s:%s-after-check" % (mk, cb.raw.get("name")),
                              m.loc(b), "accessor after check()", "EntityLocal reads the tracker without calling check() first")
        if rname == "EntityLocal":
            entity_local_check(ctx, prog, rty, trackers)
        # event readers: the data entity given to the query is the tracker's
        for m in methods:
            for b, t, fr in m.iter_calls():
                if fr and lib.tail(mir.fn_name(fr), 2) in ("Query::get", "Query::get_mut") and len(t["args"]) > 1:
                    os_ = origins(m, t["args"][1])
                    src_ok = bool(os_)
                    # `tracker.x().ok_or(..)?`: the payload of a variant-preserving adapter is the payload of its receiver
                    for _ in range(3):
                        nxt = set()
                        for o in os_:
                            cfr_ = op_fn(m.blocks[o[1]]["term"]["func"]) if o[0] == "call" else None
                            if cfr_ is not None and lib.tail(mir.fn_name(cfr_), 2) in lib.VARIANT_PRESERVING and m.blocks[o[1]]["term"]["args"]:
                                nxt |= set(origins(m, m.blocks[o[1]]["term"]["args"][0]))
                            else:
                                nxt.add(o)
                        if nxt == set(os_):
                            break
                        os_ = nxt
                    for o in os_:
                        acc_b = prog.resolve_local(op_fn(m.blocks[o[1]]["term"]["func"])) if o[0] == "call" else None
                        # the key is the Entity a tracker accessor returns (not e.g. the system id dereferenced)
                        if acc_b is None or lib.impl_self_path(acc_b) not in trackers \
                                or not (acc_b.local_ty(0).endswith("entity::Entity") or acc_b.local_ty(0) == "core::option::Option<bevy_ecs::entity::Entity>"):
                            src_ok = False
                    ctx.check(src_ok, "C03.c", "%s::%s:query-keyed-by-tracker-entity" % (rname, m.raw.get("name")), m.loc(b),
                              "payload looked up at the entity the tracker reports",
                              "reader looks its payload up at an entity that does not come from the tracker: %s" % lib.origin_str(os_))
        # payload component type carries the reader's own T
        adt = prog.adts.get(rty)
        if adt:
            for f in adt["variants"][0]["fields"]:
                mm = re.search(r"(\w+EventData)<(\w+)>", f["ty"])
                if mm:
                    ctx.check(mm.group(2) == "T", "C03.c", "%s:payload-type-is-own-T" % rname, "%s:%d" % (adt["file"], adt["line"]),
                              "%s queries %s<T>" % (rname, mm.group(1)), "%s queries %s<%s>, not its own T" % (rname, mm.group(1), mm.group(2)))
    ctx.floor("C03.c", n_methods, 10, "reader methods that touch a tracker accessor")
    # ---- C03.j readers that share a tracker are told apart by what they query: the tracker says *that* a run of this kind of
    # command reads *some* stored payload at an entity, not which kind stored it. Two reader types gated by the same tracker must
    # query different storage components, or each must examine a field of the shared storage other than the payload ----
    storage_of = {}
    own_methods = {}
    for b_ in prog.bodies:
        if b_.kind == "assoc_fn" and not b_.raw.get("impl_trait"):
            own_methods.setdefault(lib.impl_self_path(b_), []).append(b_)
    for rty in readers:
        adt = prog.adts.get(rty)
        if not adt or not own_methods.get(rty):       # (the derive's `FetchState` twins have no methods: nothing reads through them)
            continue
        for f in adt["variants"][0]["fields"]:
            if "Query<" not in f["ty"]:
                continue
            for cand in prog.adts:
                if cand != rty and re.search(r"(?<![\w:])%s(?![\w])" % re.escape(cand), f["ty"]):
                    storage_of.setdefault(rty, set()).add(cand)
    n_pairs = 0
    rl = sorted(storage_of)
    for i_, r1 in enumerate(rl):
        for r2 in rl[i_ + 1:]:
            if not (set(readers[r1]) & set(readers[r2])):
                continue
            n_pairs += 1
            shared = storage_of[r1] & storage_of[r2]
            n1, n2 = r1.split("::")[-1], r2.split("::")[-1]
            if not shared:
                ctx.ok("C03.j", "%s/%s:storage-kind-exclusive" % (n1, n2), "", "distinct storage components: %s vs %s" % (
                    sorted(x.split("::")[-1] for x in storage_of[r1]), sorted(x.split("::")[-1] for x in storage_of[r2])))
                continue
            for st_adt in sorted(shared):
                sadt = prog.adts[st_adt]
                # (a bare capitalised identifier is a type parameter: the payload)
                tag_fields = {f["name"] for f in sadt["variants"][0]["fields"] if not re.fullmatch(r"[A-Z]\w*", f["ty"])}
                for rty in (r1, r2):
                    rname = rty.split("::")[-1]
                    seen_b, todo, examined = set(), list(own_methods.get(rty, [])), False
                    depth_of = {m.path: 0 for m in todo}
                    while todo:
                        m = todo.pop()
                        if m.path in seen_b:
                            continue
                        seen_b.add(m.path)
                        for c_ in prog.closures_of(m):
                            if c_.path not in depth_of:
                                depth_of[c_.path] = depth_of[m.path]
                                todo.append(c_)
                        for bb_, i2_, st_ in m.iter_stmts():
                            for (a_, f_) in _fields_mentioned(st_):
                                if a_ == st_adt and f_ in tag_fields:
                                    examined = True
                        for bb_, t_, fr_ in m.iter_calls():
                            cal = prog.resolve_local(fr_) if fr_ is not None else None
                            if cal is not None and cal.path not in depth_of and depth_of[m.path] < 3 \
                                    and (lib.impl_self_path(cal) == st_adt or cal.kind == "fn" or lib.impl_self_path(cal) == rty):
                                depth_of[cal.path] = depth_of[m.path] + 1
                                todo.append(cal)
                    ctx.check(examined, "C03.j", "%s:tells-shared-storage-%s-apart" % (rname, st_adt.split("::")[-1]), "%s:%d" % (prog.adts[rty]["file"], prog.adts[rty]["line"]),
                              "the reader examines a tag field of the storage it shares with %s" % (n2 if rty == r1 else n1),
                              "%s reads %s, which %s reads too (same tracker), without examining any field of it but the payload: it reports the other kind's data as its own"
                              % (rname, st_adt.split("::")[-1], n2 if rty == r1 else n1))
    ctx.floor("C03.j", n_pairs, 1, "pairs of reader types that share a tracker and query stored payloads")

    # ---- C03.g a run postponed by recursion is replayed with its own setup and cleanup (shared with C02.c) ----
    import c02 as _c02
    import core as _core3
    ngg = _core3.adopt(ctx, _c02, lambda o: o["rule"] == "C02.c" and "::replay:" in o["key"], "C03.g")
    # every invocation is disposed of exactly once, by a run or by the abort helper (setup then cleanup): both consume the
    # entry prepare() queued; an invocation dropped any other way leaves its entry to be claimed by a later run
    ngg += _core3.adopt(ctx, _c02, lambda o: o["rule"] == "C02.a" and ("dispositions=" in o["key"] or "single-disposition" in o["key"]), "C03.g")
    import c05 as _c05
    ngg += _core3.adopt(ctx, _c05, lambda o: o["rule"] == "C05.d" and "buffered-cleanup-only-through-abort-helper" in o["key"], "C03.g")
    ctx.floor("C03.g", ngg, 5, "shared replay obligations (C02.c)")
    # ---- C03.f the flags are cleared before anything the run queued can run (shared with C04.a / C04.b) ----
    # ('every reader for another kind reports nothing' and 'a manual run sees nothing' for commands queued by a reacting run)
    import c04
    import core as _core
    nf = _core.adopt(ctx, c04, lambda o: o["rule"] in ("C04.a", "C04.b", "C04.g"), "C03.f")
    ctx.floor("C03.f", nf, 12, "shared cleanup-ordering obligations (C04.a/b)")
    # ---- C03.i the data a run reads is still there when it runs: the payload's reader count is the number of commands queued
    # for it (a count taken over fewer listeners than are queued releases the payload before its last reader ran, which then
    # reads nothing; shared with C05.a / C05.b) ----
    ni = _core.adopt(ctx, _c05, lambda o: o["rule"] in ("C05.a", "C05.b"), "C03.i")
    ctx.floor("C03.i", ni, 4, "shared reader-count obligations (C05.a/b)")
    ctx.sample({"trackers": sorted(t.split("::")[-1] for t in trackers), "readers": sorted(r.split("::")[-1] for r in readers)})


def _fields_mentioned(x):
    """(adt, field name) of every field projection in a statement"""
    out = []
    if isinstance(x, dict):
        if "f" in x and "adt" in x and "name" in x:
            out.append((x["adt"], x["name"]))
        for v in x.values():
            out.extend(_fields_mentioned(v))
    elif isinstance(x, list):
        for v in x:
            out.extend(_fields_mentioned(v))
    return out


def pending_field(prog, ty, prep):
    fs = set()
    for b, t, fr in prep.iter_calls():
        if fr is None or not t["args"]:
            continue
        r = lib.receiver_chain(prep, t["args"][0])
        if r and r[0][0] == ty:
            fs.add(r[0][1])
    return fs.pop() if len(fs) == 1 else None


def self_field_path(place):
    """names of the crate-ADT field projections of a place rooted at `self` (`(*_1).a.b` -> ('a', 'b'))"""
    if place["l"] != 1:
        return None
    return tuple(e.get("name") for e in place["p"] if isinstance(e, dict) and "f" in e and lib.is_crate_adt(e.get("adt")))


def returned_field_path(m):
    """field path (through nested crate records) that a simple getter returns, else None"""
    paths = set()
    for b, i, st in m.iter_stmts():
        if st["k"] == "assign" and st["place"]["l"] == 0 and not st["place"]["p"]:
            rv = st["rv"]
            p = op_place(rv["use"]) if "use" in rv else rv.get("ref")
            if p is None or p["l"] != 1:
                return None
            fp = self_field_path(p)
            if not fp:
                return None
            paths.add(fp)
    return paths.pop() if len(paths) == 1 else None


def field_true_heads(m, ty, flag, any_base=False):
    """blocks entered only where `self.<flag>` (a bool field) was read true (any_base: through any reference to a `ty`)"""
    heads = []
    for b in sorted(m.reachable):
        t = m.blocks[b]["term"]
        if t["k"] != "switch":
            continue
        p = op_place(t["op"])
        neg = False
        ok = False
        seen = set()
        while p is not None and not ok:
            if p["p"]:
                ok = (p["l"] == 1 or any_base) and lib.field_of(p) == (ty, flag)
                break
            if p["l"] in seen:
                break
            seen.add(p["l"])
            ds = [d for d in m.defs.get(p["l"], []) if d[0] in ("stmt", "call")]
            if len(ds) != 1 or ds[0][0] != "stmt":
                break
            rv = ds[0][3]
            if "un" in rv and rv["un"]["op"] == "Not":
                neg = not neg
                p = op_place(rv["un"]["x"])
            elif "use" in rv:
                p = op_place(rv["use"])
            else:
                break
        if not ok:
            continue
        tg = {v: bb for v, bb in t["targets"]}
        if 0 in tg:
            false_t, true_t = tg[0], t["otherwise"]
        elif 1 in tg:
            true_t, false_t = tg[1], t["otherwise"]
        else:
            continue
        heads.append(false_t if neg else true_t)
    return heads


def gated_field(m, ty, flag):
    """field f when the method returns Option: `Some(self.f)` only on blocks dominated by a flag-true head and `None`
    otherwise (a gated accessor), else None"""
    if not m.local_ty(0).startswith("core::option::Option<"):
        return None
    calls_ = [(b, t, fr) for b, t, fr in m.iter_calls()]
    if len(calls_) == 1 and calls_[0][2] is not None and lib.tail(mir.fn_name(calls_[0][2]), 2) == "bool::then_some" and len(calls_[0][1]["args"]) == 2:
        # `self.<flag>.then_some(self.<field>)`: Some(field) exactly where the flag is true
        b, t, fr = calls_[0]
        fo = origins(m, t["args"][0])
        vo = origins(m, t["args"][1])
        ret_ok = t["dest"]["l"] == 0 or all(o[0] == "call" and o[1] == b for o in origins(m, {"copy": {"l": 0, "p": []}}))
        if ret_ok and fo and all(o[0] == "arg" and o[1] == 1 and len(o) >= 3 and o[-1].lstrip(".") == flag for o in fo) \
                and vo and all(o[0] == "arg" and o[1] == 1 and len(o) >= 3 for o in vo) and len({o[2] for o in vo}) == 1:
            return next(iter(vo))[2].lstrip(".")
        return None
    if calls_:
        return None
    heads = field_true_heads(m, ty, flag)
    fields = set()
    n_some = 0
    for b, i, st in m.iter_stmts():
        if st["k"] == "assign" and st["place"]["l"] == 0 and not st["place"]["p"]:
            rv = st["rv"]
            if "agg" not in rv or rv["agg"].get("adt") != "core::option::Option":
                return None
            if rv["agg"].get("vname") == "None":
                continue
            if rv["agg"].get("vname") != "Some" or not any(m.dominates(h, b) for h in heads):
                return None
            n_some += 1
            for o in origins(m, rv["agg"]["ops"][0]):
                if o[0] == "arg" and o[1] == 1 and len(o) >= 3:
                    fields.add(o[2].lstrip("."))
                else:
                    return None
    return fields.pop() if len(fields) == 1 and n_some else None


def agg_variant(body, rv):
    """variant name of the enum value an rvalue stores (a unit-variant aggregate, directly or through temporaries)"""
    if "agg" in rv:
        return rv["agg"].get("vname")
    if "use" in rv:
        os_ = origins(body, rv["use"])
        vs = set()
        for o in os_:
            if o[0] != "agg":
                return None
            vs.add(body.blocks[o[1]]["stmts"][o[2]]["rv"]["agg"].get("vname"))
        return vs.pop() if len(vs) == 1 else None
    return None


def enum_flag(prog, m, ty):
    """(field, set of variant names mapped to true) when the bool method is `match self.<field> { V1 => true, V2 => false }`"""
    if m.local_ty(0) != "bool" or any(True for _ in m.iter_calls()):
        return None
    for (sb, place, targets, otherwise) in lib.discr_switches(m):
        f = lib.field_of(place)
        if place["l"] != 1 or not f or f[0] != ty:
            continue
        res = lib.enum_arms(m, prog, sb)
        if not res:
            continue
        arms, ow, adt = res
        true_v, false_v = set(), set()
        for vname, tb in arms.items():
            vals = {lib.const_val(st["rv"]["use"]) for b, i, st in m.iter_stmts() if st["k"] == "assign" and st["place"]["l"] == 0
                    and not st["place"]["p"] and "use" in st["rv"] and m.dominates(tb, b)}
            if vals == {1}:
                true_v.add(vname)
            elif vals == {0}:
                false_v.add(vname)
            else:
                return None
        if true_v and false_v and (ow is None or m.is_unreachable_block(ow)):
            return f[1], true_v
    return None


def option_flag(m):
    """field f when the method returns `Option::is_some(&self.f)` on its only path, else None"""
    calls = [(b, t, fr) for b, t, fr in m.iter_calls()]
    if len(calls) != 1 or calls[0][2] is None or lib.tail(mir.fn_name(calls[0][2]), 2) != "Option::is_some":
        return None
    b, t, fr = calls[0]
    if t["dest"]["l"] != 0 and not any(st["k"] == "assign" and st["place"]["l"] == 0 and "use" in st["rv"] and
                                       (op_place(st["rv"]["use"]) or {}).get("l") == t["dest"]["l"] for _, _, st in m.iter_stmts()):
        return None
    chains = lib.receiver_chains(m, t["args"][0])
    fs = {f[1] for f, ch in chains if not ch}
    return fs.pop() if len(fs) == 1 else None


def writes_some(body, rv):
    """the assigned value is Option::Some(..) (directly or through a temporary)"""
    if "agg" in rv:
        return rv["agg"].get("vname") == "Some"
    if "use" in rv:
        os_ = origins(body, rv["use"])
        return bool(os_) and all(o[0] == "agg" and body.blocks[o[1]]["stmts"][o[2]]["rv"]["agg"].get("vname") == "Some" for o in os_)
    return False


def returned_field(m):
    """name of the self field whose value the method returns on every path (simple getters)"""
    fields = set()
    for b, i, st in m.iter_stmts():
        if st["k"] == "assign" and st["place"]["l"] == 0 and not st["place"]["p"]:
            rv = st["rv"]
            p = op_place(rv["use"]) if "use" in rv else rv.get("ref")
            if p is None:
                return None
            fs = lib.field_of(p)
            if p["l"] == 1 and fs:
                fields.add(fs[1])
            else:
                # follow one local
                os_ = origins(m, rv["use"]) if "use" in rv else set()
                for o in os_:
                    if o[0] == "arg" and o[1] == 1 and len(o) >= 3:
                        fields.add(o[2].lstrip("."))
                    else:
                        return None
    if len(fields) == 1 and not any(True for _ in m.iter_calls()):
        return fields.pop()
    return None


def reader_types(prog, trackers):
    """role: ADTs of the crate with a field of type Res<.., tracker>; {adt path: [tracker paths]}"""
    out = {}
    for p, adt in prog.adts.items():
        for v in adt["variants"]:
            for f in v["fields"]:
                for ty in trackers:
                    if re.search(r"Res(Mut)?<'\w+, %s>" % re.escape(ty), f["ty"]):
                        out.setdefault(p, []).append(ty)
    return out


def gate_info(prog, m, trackers):
    """trackers T such that every normally returning path of m passed is_reacting()==true of T"""
    out = []
    for b, t, cb in lib.local_call_bodies(prog, m):
        sp = lib.impl_self_path(cb)
        if sp in trackers and cb.raw.get("name") == "is_reacting":
            for (sb, tt, ft) in lib.bool_arms(m, b):
                rets = m.return_blocks()
                if rets and all(m.dominates(tt, r) for r in rets):
                    out.append(sp)
    return out or None


def typed_reader(ctx, prog, m, mk, accs, variant, accessor_fields):
    """source() only on the reader's own variant arm and after an equal TypeId comparison against TypeId::of::<T>()"""
    src_calls = [(b, t, cb, sp) for (b, t, cb, sp) in accs if cb.raw.get("name") not in ("reaction_type", "system")]
    rt_calls = [(b, t, cb, sp) for (b, t, cb, sp) in accs if cb.raw.get("name") == "reaction_type"]
    if not src_calls:
        return
    # variant arm
    arm_heads = []
    payload_locals = set()
    for (rb, t, cb, sp) in rt_calls:
        dest = t["dest"]["l"]
        for (sb, place, targets, otherwise) in lib.discr_switches(m):
            if place["l"] != dest:
                # (the value handed on by whole-value moves - a helper's parameter after inlining - is still the accessor's result)
                os_ = origins(m, {"copy": {"l": place["l"], "p": []}})
                if not os_ or not all(o[0] == "call" and o[1] == rb and len(o) == 2 for o in os_):
                    continue
            res = lib.enum_arms(m, prog, sb)
            if not res:
                continue
            arms, ow, adt = res
            if variant in arms:
                arm_heads.append(arms[variant])
            # a two-way `let ... else` lists only the failure side: handled by enum_arms via names of listed values
            elif len(arms) >= 1:
                # switch lists other variants explicitly and own variant falls in otherwise
                if all(v != variant for v in arms):
                    pass
    # the whole-value form: `reaction_type == EntityReactionType::<Variant>(own type id)` through the *derived* PartialEq of
    # the kind enum (equal discriminant and equal payload) - the equal arm is both the variant arm and the TypeId arm
    whole_heads = []
    derived_eq = any(im.get("derived") and (im.get("trait") or "").endswith("cmp::PartialEq") and (im.get("self_adt") or "").endswith("::EntityReactionType")
                     for im in prog.impls)
    # the trackers' fields that hold the kind of the running reaction (by type)
    kind_fields = set()
    for ty_ in set(accessor_fields) | {p_ for p_ in prog.adts if p_.endswith("AccessTracker")}:
        try:
            for f_ in prog.adts[ty_]["variants"][0]["fields"]:
                if f_["ty"].endswith("::EntityReactionType"):
                    kind_fields.add(f_["name"])
        except (KeyError, IndexError):
            pass
    if derived_eq:
        for b, t, fr in m.iter_calls():
            if fr is None or lib.tail(mir.fn_name(fr), 1) not in ("eq", "ne") or len(t["args"]) < 2:
                continue
            if not any(a.endswith("::EntityReactionType") for a in fr.get("args", [])):
                continue
            sides = [origins(m, t["args"][0]), origins(m, t["args"][1])]
            def _is_current(os_):
                # the tracker's own record of the running reaction: its accessor, or (the accessor inlined) its field
                return bool(os_) and all((o[0] == "call" and o[1] in [x[0] for x in rt_calls]) or
                                         (o[0] == "arg" and o[1] == 1 and len(o) >= 3 and isinstance(o[-1], str) and o[-1].lstrip(".") in kind_fields)
                                         for o in os_)
            def _is_own_kind(os_):
                if not os_:
                    return False
                for o in os_:
                    if o[0] != "agg" or len(o) != 3:
                        return False
                    ag = m.blocks[o[1]]["stmts"][o[2]]["rv"]["agg"]
                    if not (ag.get("adt", "").endswith("::EntityReactionType") and ag.get("vname") == variant and len(ag["ops"]) == 1):
                        return False
                    own = False
                    for o2 in origins(m, ag["ops"][0]):
                        # the reader's own id record read directly (`self.component_id.id`, the getter inlined away): a field
                        # that every construction site of its type fills with TypeId::of::<T>()
                        if o2[0] == "arg" and o2[1] == 1 and len(o2) >= 4:
                            own = _own_type_id_field(ctx, prog, m, o2)
                            if own:
                                continue
                            break
                        if o2[0] == "call":
                            fr2 = op_fn(m.blocks[o2[1]]["term"]["func"])
                            cb2 = prog.resolve_local(fr2) if fr2 else None
                            if (cb2 is not None and own_type_id_getter(ctx, prog, cb2)) or \
                                    (fr2 and lib.tail(mir.fn_name(fr2), 2) == "TypeId::of" and fr2.get("args") == ["T"]):
                                own = True
                                continue
                        own = False
                        break
                    if not own:
                        return False
                return True
            if (_is_current(sides[0]) and _is_own_kind(sides[1])) or (_is_current(sides[1]) and _is_own_kind(sides[0])):
                for (sb, tt, ft) in lib.bool_arms(m, b):
                    whole_heads.append(tt if lib.tail(mir.fn_name(fr), 1) == "eq" else ft)
    arm_heads = arm_heads + whole_heads
    for b, t, cb, sp in src_calls:
        ctx.check(lib.dominated_by_any(m, b, arm_heads), "C03.c", "%s:own-variant-arm" % mk, m.loc(b),
                  "source() only on the %s arm of reaction_type()" % variant,
                  "%s returns the reaction source without being on the %s arm of the reaction type" % (mk, variant))
    # TypeId equality
    eq_heads = []
    for b, t, fr in m.iter_calls():
        if fr is None or lib.tail(mir.fn_name(fr), 1) not in ("eq", "ne") or len(t["args"]) < 2:
            continue
        if not any("TypeId" in a for a in fr.get("args", [])):
            continue
        o0, o1 = origins(m, t["args"][0]), origins(m, t["args"][1])
        both = o0 | o1
        from_payload = any(o[0] == "call" and o[1] in [x[0] for x in rt_calls] and ("@" + variant) in o for o in both)
        own_id = False
        for o in both:
            if o[0] == "call" and o[1] not in [x[0] for x in rt_calls]:
                fr2 = op_fn(m.blocks[o[1]]["term"]["func"])
                cb2 = prog.resolve_local(fr2) if fr2 else None
                if cb2 is not None and own_type_id_getter(ctx, prog, cb2):
                    own_id = True
                if fr2 and lib.tail(mir.fn_name(fr2), 2) == "TypeId::of" and fr2.get("args") == ["T"]:
                    own_id = True
        if from_payload and own_id:
            for (sb, tt, ft) in lib.bool_arms(m, b):
                eq_heads.append(tt if lib.tail(mir.fn_name(fr), 1) == "eq" else ft)
    eq_heads = eq_heads + whole_heads
    for b, t, cb, sp in src_calls:
        ctx.check(lib.dominated_by_any(m, b, eq_heads), "C03.c", "%s:own-type-id" % mk, m.loc(b),
                  "source() only after the reaction's TypeId compared equal to TypeId::of::<T>()",
                  "%s returns the reaction source without an equal TypeId comparison against its own T" % mk)


_getter_cache = {}


def _own_type_id_field(ctx, prog, m, o):
    """origin ('arg', 1, '.<reader field>', '.<id field>') where the reader field's type is a crate record whose <id field> is
    filled with TypeId::of::<T>() at every construction site"""
    rdr = prog.adts.get(lib.impl_self_path(m))
    if rdr is None:
        return False
    f1, f2 = o[2].lstrip("."), o[3].lstrip(".")
    fty = next((f_["ty"] for f_ in rdr["variants"][0]["fields"] if f_["name"] == f1), None)
    if fty is None:
        return False
    sp = re.sub(r"<.*$", "", fty)
    if sp not in prog.adts:
        # wrapped in a system parameter (`Local<'s, ReactComponentId<T>>`): the one crate record named inside
        inner = [p_ for p_ in prog.adts if re.search(r"(?<![\w:])%s(?![\w])" % re.escape(p_), fty)]
        if len(inner) != 1:
            return False
        sp = inner[0]
    key = (sp, f2)
    if key in _getter_cache:
        return _getter_cache[key]
    sites = []
    for body in prog.bodies:
        for b, i, st in body.iter_stmts():
            if st["k"] == "assign" and "agg" in st["rv"] and st["rv"]["agg"].get("adt") == sp:
                sites.append((body, st["rv"]["agg"]))
    good = bool(sites)
    for body, agg in sites:
        idx = agg["fields"].index(f2) if f2 in agg.get("fields", []) else None
        if idx is None:
            good = False
            continue
        for oo in origins(body, agg["ops"][idx]):
            fr = op_fn(body.blocks[oo[1]]["term"]["func"]) if oo[0] == "call" else None
            if not (fr and lib.tail(mir.fn_name(fr), 2) == "TypeId::of" and fr.get("args") == ["T"]):
                good = False
    _getter_cache[key] = good
    return good


def own_type_id_getter(ctx, prog, cb):
    """cb is `ReactComponentId<T>::id`-like: returns a field that the type's only constructor fills with TypeId::of::<T>()"""
    if cb.path in _getter_cache:
        return _getter_cache[cb.path]
    ok = False
    f = returned_field(cb)
    sp = lib.impl_self_path(cb)
    if f and sp:
        # construction sites of the ADT in the crate
        sites = []
        for body in prog.bodies:
            for b, i, st in body.iter_stmts():
                if st["k"] == "assign" and "agg" in st["rv"] and st["rv"]["agg"].get("adt") == sp:
                    sites.append((body, b, i, st["rv"]["agg"]))
        good = bool(sites)
        for body, b, i, agg in sites:
            idx = agg["fields"].index(f) if f in agg["fields"] else None
            if idx is None:
                good = False
                continue
            os_ = origins(body, agg["ops"][idx])
            for o in os_:
                fr = op_fn(body.blocks[o[1]]["term"]["func"]) if o[0] == "call" else None
                if not (fr and lib.tail(mir.fn_name(fr), 2) == "TypeId::of" and fr.get("args") == ["T"]):
                    good = False
        ok = good
        ctx.check(ok, "C03.c", "%s:filled-with-TypeId-of-own-T" % lib.fkey(cb), "%s:%d" % (cb.file, cb.line),
                  "%s is filled with TypeId::of::<T>() at its %d construction site(s)" % (f, len(sites)),
                  "the type id returned by %s is not TypeId::of::<T>() of its own parameter at every construction site" % cb.path)
    _getter_cache[cb.path] = ok
    return ok


def _system_match_heads(prog, chk):
    """(heads, comparison operand call blocks): the arms on which `tracker.system() == reactor.system()` held (getters by role)"""
    heads = []
    operands = set()
    for b, t, fr in chk.iter_calls():
        if fr is None or lib.tail(mir.fn_name(fr), 1) not in ("eq", "ne") or len(t["args"]) < 2:
            continue
        names = set()
        ops_ = set()
        for a in t["args"][:2]:
            for o in origins(chk, a):
                if o[0] == "call":
                    fr2 = op_fn(chk.blocks[o[1]]["term"]["func"])
                    cb2 = prog.resolve_local(fr2) if fr2 else None
                    if cb2 is not None:
                        ops_.add(o[1])
                        names.add((lib.impl_self_name(cb2), cb2.raw.get("name")))
                        # by role (private getters may be renamed): the tracker's getter of the running system id, the
                        # reactor handle's getter of its own system id
                        if lib.impl_self_name(cb2) == "EntityReactionAccessTracker" and cb2.arg_count == 1 and cb2.local_ty(0).endswith("::SystemCommand"):
                            names.add(("EntityReactionAccessTracker", "system"))
                        if lib.impl_self_name(cb2) == "EntityReactor" and cb2.arg_count == 1 and cb2.local_ty(0).startswith("core::option::Option<") \
                                and "SystemCommand" in cb2.local_ty(0):
                            names.add(("EntityReactor", "system"))
        if ("EntityReactionAccessTracker", "system") in names and ("EntityReactor", "system") in names:
            operands |= ops_
            for (sb, tt, ft) in lib.bool_arms(chk, b):
                heads.append(tt if lib.tail(mir.fn_name(fr), 1) == "eq" else ft)
    return heads, operands


def entity_local_check(ctx, prog, rty, trackers):
    try:
        chks = [A.method(prog, "EntityLocal", "check")]
    except mir.AnchorLost as e:
        # the guard may have been folded into the accessors (or into a value-returning helper that the view inlined there):
        # every method of EntityLocal that reads the tracker is then its own guard
        chks = [m for m in prog.bodies if m.kind == "assoc_fn" and not m.raw.get("impl_trait") and lib.impl_self_path(m) == rty
                and any(lib.impl_self_path(cb) in trackers and cb.raw.get("name") != "is_reacting" for b, t, cb in lib.local_call_bodies(prog, m))]
        if not chks:
            ctx.fail("C03.c", "anchor-lost:EntityLocal::check", "", str(e))
            return
    g_all, sys_all = True, True
    for chk in chks:
        ctx.touch(chk)
        g_all = g_all and bool(gate_info(prog, chk, trackers))
        heads, _ = _system_match_heads(prog, chk)
        rets = chk.return_blocks()
        sys_all = sys_all and bool(heads) and bool(rets) and all(lib.dominated_by_any(chk, r, heads) for r in rets)
    chk = chks[0]
    ctx.check(g_all, "C03.c", "EntityLocal::check:passes-is_reacting", "%s:%d" % (chk.file, chk.line),
              "every returning path of check() passed is_reacting()==true", "check() can return without is_reacting() being true")
    ctx.check(sys_all, "C03.c",
              "EntityLocal::check:reacting-system-is-this-reactor", "%s:%d" % (chk.file, chk.line),
              "check() returns only when tracker.system() == reactor.system()",
              "check() can return without the reacting system being this reactor's system")

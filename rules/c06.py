"""C06 - Revocation is complete, immediate and local (DESIGN.md section 4, C06)."""
import mir
from mir import op_fn, op_place, origins
import lib
import loops as LP
import tables as T
import anchors as A
import core

EXPLANATION = (
    "revoke_reactor's match on ReactorType is exhaustive and each arm reaches the table / sub-list / reaction variant that "
    "the same kind's register() writes (shared kind graph of C01). In every type-wide revoke function the index given to "
    "the order-preserving Vec::remove is the enumerate index of the element whose sys_command() compared equal to the "
    "reactor id parameter, the loop is left right after the removal, and nothing else in the list is written. "
    "EntityReactors::remove's predicate returns true only where both the reaction type and the system id compared equal. "
    "No deferral (Commands::queue / syscall) is reachable from revoke_reactor, every lookup on the revoke path is fallible "
    "with a non-panicking failure arm, and world reactors build their revoke token from the same system id and trigger "
    "bundle they register with.")

NOT_DECIDED = [
    "'starting with the very next trigger application' (command order, Bevy, trusted)",
    "multiplicity when the same trigger was registered twice for one reactor (the statement does not fix it)",
]


def equal_arm(body, call_block, fr):
    arms = lib.bool_arms(body, call_block)
    if not arms:
        return None
    sb, tt, ft = arms[0]
    return ft if lib.tail(mir.fn_name(fr), 1) == "ne" else tt


def check(ctx):
    ctx.explanation = EXPLANATION
    ctx.not_decided = NOT_DECIDED
    prog = ctx.prog
    # ---- C06.a shared with C01.a ----
    import c01
    n = core.reuse(ctx, c01, ["C01.a"], "C06.a")
    ctx.floor("C06.a", n, 40, "shared kind-graph obligations")
    rr = ctx.body_or_fail("C06.c", lambda n: n.endswith("react_commands::revoke_reactor"), "revoke_reactor")
    if rr is None:
        return
    # every entry of the token is dispatched: inside the loop over the token's entries no path reaches the next iteration
    # (or leaves the loop) without passing the match on the entry's kind (a `continue` / early-out in front of the match
    # leaves that entry's registration in place)
    tok_loops = [L for L in LP.find_loops(rr) if L.driver is not None]
    disp = []
    for (sb, place, tg, ow) in lib.discr_switches(rr):
        res = lib.enum_arms(rr, prog, sb)
        if res and res[2].endswith("::ReactorType"):
            disp.append((sb, place))
    okd = False
    wpath = None
    for L in tok_loops:
        inside = [sb for sb, _ in disp if sb in L.blocks]
        if not inside:
            continue
        okd = True
        # paths from the Some-arm back to the header, or out of the loop, that avoid every dispatch switch
        seen = set()
        st = [(L.some_t, [L.some_t])]
        while st and wpath is None:
            x, p = st.pop()
            if x in seen or x in inside:
                continue
            seen.add(x)
            for s_ in rr.succ[x]:
                if s_ == L.header or (s_ not in L.blocks and rr.can_reach_return(s_)):
                    wpath = p + [s_]
                    break
                if s_ in L.blocks:
                    st.append((s_, p + [s_]))
        break
    # ... and the loop is left only when the token is exhausted (a `return` inherited from an inlined helper, where it meant
    # "skip this entry", abandons the rest of the token)
    for L in tok_loops:
        if any(sb in L.blocks for sb, _ in disp):
            ctx.check(not L.exits, "C06.a", "revoke_reactor:token-loop-has-no-early-exit", rr.loc(L.header),
                      "the loop over the token's entries ends only when the entries are exhausted",
                      "the loop over the token's entries can be left early (%s): the remaining entries of the token are not revoked"
                      % [rr.loc(x) for x, s_ in L.exits][:2])
            break
    ctx.check(okd and wpath is None, "C06.a", "revoke_reactor:every-token-entry-dispatched", "%s:%d" % (rr.file, rr.line),
              "every iteration over the token's entries reaches the match on the entry's kind",
              "an entry of the revoke token can be skipped before the match on its kind (its registration stays in place)" if okd
              else "no loop over the token's entries with a match on the entry kind found in revoke_reactor",
              lib.render_path(rr, wpath) if wpath else None)
    # the revoke path: functions reachable from revoke_reactor
    path_fns = prog.reachable_bodies([rr], depth=4)
    for f in path_fns:
        ctx.touch(f, calls=len(list(f.iter_calls())))
    # ---- C06.b remove the matching entry only (type-wide) ----
    revokes = [f for f in path_fns if lib.impl_self_name(f) == "ReactCache" and f.kind == "assoc_fn"]
    ctx.floor("C06.b", len(revokes), 5, "type-wide revoke functions")
    for f in revokes:
        fk = lib.fkey(f)
        idp = f.arg_count            # reactor id is the last parameter
        removes = [(b, t, fr) for b, t, fr in f.iter_calls() if fr and lib.tail(mir.fn_name(fr), 2) in
                   ("Vec::remove", "Vec::swap_remove", "Vec::retain", "Vec::drain", "Vec::clear", "Vec::pop", "Vec::truncate", "SmallVec::remove")]
        if not ctx.check(len(removes) == 1, "C06.b", "%s:one-removal-site" % fk, "%s:%d" % (f.file, f.line), "one list removal",
                         "%d list-removal sites (must remove exactly the matching entry)" % len(removes)):
            continue
        rb, rt_, rfr = removes[0]
        ctx.check(T.classify(mir.fn_name(rfr)) == "order-preserving-remove" and lib.tail(mir.fn_name(rfr), 1) == "remove", "C06.b",
                  "%s:removes-by-index-in-order" % fk, f.loc(rb), "Vec::remove(index)", "the entry is removed with %s" % mir.fn_name(rfr))
        Ls = [L for L in LP.find_loops(f) if L.driver is not None and rb in f.reach_from(L.some_t) and f.dominates(L.some_t, rb)]
        # the search for the reactor's entry is reached on every path on which the table has an entry for the key: the only
        # licensed early return is the failed lookup of the key - a guard on secondary state (a per-reactor count, an index, a
        # flag that some other site keeps up to date) can skip a registration that is still in the list
        heads_ = [L_.header for L_ in Ls] + [b_ for b_, t_, fr_ in f.iter_calls() if fr_ and T.classify(mir.fn_name(fr_)) == "first-match-search"]
        fails_ = []
        for b_, t_, fr_ in f.iter_calls():
            if fr_ and lib.tail(mir.fn_name(fr_), 2) in ("HashMap::get_mut", "HashMap::get", "HashMap::remove"):
                fails_ += [fail_t for (sb_, ok_t, fail_t) in lib.result_arms(f, b_)]
        # (the lookup's result may travel in a tuple before it is matched: `let (id, entry) = match kind { .. => (id, map.get_mut(&id)) }`)
        lk_ = {b_ for b_, t_, fr_ in f.iter_calls() if fr_ and lib.tail(mir.fn_name(fr_), 2) in ("HashMap::get_mut", "HashMap::get", "HashMap::remove")}
        for (sb_, pl_, tg_, ow_) in lib.discr_switches(f):
            if lib.place_type(f, pl_).startswith("core::option::Option<"):
                os_ = origins(f, {"copy": pl_})
                if os_ and all(o_[0] == "call" and o_[1] in lk_ for o_ in os_):
                    if 0 in tg_:
                        fails_.append(tg_[0])
                    elif 1 in tg_ and ow_ is not None:       # `let Some(x) = .. else`: the None side is the fall-through
                        fails_.append(ow_)
        wsk = lib.path_to_return_avoiding(f, [0], set(heads_) | set(fails_)) if heads_ else [0]
        ctx.check(wsk is None, "C06.b", "%s:search-reached-unless-key-absent" % fk, "%s:%d" % (f.file, f.line),
                  "every returning path passes the search of the list or the failed lookup of the key",
                  "a path returns before the list is searched although the table may hold an entry for the key (a guard on "
                  "secondary state can skip a live registration)", lib.render_path(f, wsk) if wsk and heads_ else None)
        if not Ls and position_idiom(ctx, prog, f, fk, rb, rt_, idp):
            continue
        if not ctx.check(len(Ls) == 1, "C06.b", "%s:removal-inside-search-loop" % fk, f.loc(rb), "", "the removal is not inside one search loop (nor the position()+remove idiom)"):
            continue
        L = Ls[0]
        # index = enumerate index of the current element
        idx_ok = all(o[0] == "call" and o[1] == L.driver and o[-1] == ".0" and ".1" not in o[-1:] for o in origins(f, rt_["args"][1])) and origins(f, rt_["args"][1])
        chain = []
        r = lib.receiver_chain(f, f.blocks[L.driver]["term"]["args"][0])
        chain = [lib.tail(x, 1) for x in r[1]] if r else []
        ctx.check(bool(idx_ok) and "enumerate" in chain, "C06.b", "%s:index-of-current-element" % fk, f.loc(rb),
                  "removal index is the enumerate() index of the element just compared",
                  "the index passed to remove is not the enumerate index of the compared element: %s" % lib.origin_str(origins(f, rt_["args"][1])))
        # same list iterated and removed from
        src_it = LP.coll_source(f, f.blocks[L.driver]["term"]["args"][0])
        src_rm = LP.coll_source(f, rt_["args"][0])
        root_rm = lib.access_path(f, rt_["args"][0])[:1]
        root_it = lib.access_path(f, f.blocks[L.driver]["term"]["args"][0])[:1]
        ctx.check((src_it is not None and src_it == src_rm) or (root_rm == root_it and root_rm and root_rm[0][0] in ("phi", "arg", "call")),
                  "C06.b", "%s:removes-from-iterated-list" % fk, f.loc(rb), "removes from the list it searched", "removes from a different list than the one searched: %s vs %s" % (src_it, src_rm))
        # dominated by the equal arm of sys_command(element) vs reactor_id
        eq_heads = []
        for b, t, fr in f.iter_calls():
            if fr and lib.tail(mir.fn_name(fr), 1) in ("eq", "ne") and b in L.blocks and len(t["args"]) >= 2:
                both = origins(f, t["args"][0]) | origins(f, t["args"][1])
                has_id = any(o[0] == "arg" and o[1] == idp for o in both)
                has_el = False
                for o in both:
                    if o[0] == "call":
                        t3 = f.blocks[o[1]]["term"]
                        fr3 = op_fn(t3["func"])
                        if fr3 and lib.tail(mir.fn_name(fr3), 2) == "ReactorHandle::sys_command" and lib.originates_from_call(f, t3["args"][0], L.driver):
                            has_el = True
                if has_id and has_el:
                    ea = equal_arm(f, b, fr)
                    if ea is not None:
                        eq_heads.append(ea)
        ctx.check(lib.dominated_by_any(f, rb, eq_heads), "C06.b", "%s:removes-only-matching-entry" % fk, f.loc(rb),
                  "removal is on the equal arm of element.sys_command() vs the reactor id",
                  "the removal is not guarded by element.sys_command() == reactor id (another reactor's entry could be removed)")
        # loop is left after the removal
        back = lib.path_between_avoiding(f, [lib.call_target(f, rb)], [L.header], [])
        ctx.check(back is None, "C06.b", "%s:stops-after-removal" % fk, f.loc(rb), "loop is left right after the removal",
                  "the search continues after the removal with shifted indices")
        # no other write to the list
    # the entity-scoped arms: whatever revoke_reactor calls with an EntityReactionType for an entity-specific kind removes
    # the entry from that entity's EntityReactors (found arm of the lookup), with its own reaction type and reactor id
    n_ent = 0
    for f in path_fns:
        tys = [f.local_ty(i) for i in range(1, f.arg_count + 1)]
        if not (any(t.endswith("entity::Entity") for t in tys) and any(t.endswith("::EntityReactionType") for t in tys)
                and any("Query<" in t and "EntityReactors" in t for t in tys) and any(t.endswith("::SystemCommand") for t in tys)):
            continue
        n_ent += 1
        ctx.touch(f)
        ent_i = [i + 1 for i, t in enumerate(tys) if t.endswith("entity::Entity")][0]
        rty_i = [i + 1 for i, t in enumerate(tys) if t.endswith("::EntityReactionType")][0]
        id_i = [i + 1 for i, t in enumerate(tys) if t.endswith("::SystemCommand")][0]
        gets = [b for b, t, fr in f.iter_calls() if fr and lib.tail(mir.fn_name(fr), 2) in ("Query::get_mut", "Query::get") and len(t["args"]) > 1
                and lib.originates_from_arg(f, t["args"][1], ent_i)]
        rms = [(b, t) for b, t, fr in f.iter_calls() if fr and (prog.resolve_local(fr) is not None) and lib.impl_self_name(prog.resolve_local(fr)) == "EntityReactors"
               and len(t["args"]) == 3 and lib.originates_from_arg(f, t["args"][1], rty_i) and lib.originates_from_arg(f, t["args"][2], id_i)]
        ok = bool(gets) and bool(rms)
        if ok:
            oks = [ok_t for g in gets for (sb, ok_t, fail_t) in lib.result_arms(f, g)]
            w = lib.path_to_return_avoiding(f, oks, [b for b, t in rms]) if oks else [0]
            ok = w is None
        ctx.check(ok, "C06.b", "%s:removes-from-the-entity's-reactors" % lib.fkey(f), "%s:%d" % (f.file, f.line),
                  "on the found arm the entity's EntityReactors::remove is called with the given reaction type and reactor id",
                  "%s does not remove (reaction type, reactor id) from the looked-up entity's reactors on every found path" % lib.fkey(f))
    ctx.floor("C06.b", n_ent, 1, "entity-scoped revoke helper")
    # EntityReactors::remove
    try:
        er = A.method(prog, "EntityReactors", "remove")
        ctx.touch(er)
        cls = prog.closures_of(er)
        ok = False
        for c in cls:
            ctx.touch(c)
            reqs = lib.true_return_requirements(c)
            if not reqs:
                continue
            rt_cmp, id_cmp = set(), set()
            for (b, t, fr, is_eq) in lib.comparison_calls(c):
                args = fr.get("args", [])
                both = origins(c, t["args"][0]) | origins(c, t["args"][1])
                from_env = any(o[0] == "arg" and o[1] == 1 for o in both)
                if any(a.endswith("EntityReactionType") for a in args) and from_env and any(o[0] == "arg" and o[1] == 2 for o in both):
                    rt_cmp.add(b)
                if any(a.endswith("SystemCommand") for a in args) and from_env:
                    id_cmp.add(b)
            ok = all(any(r.get(b) is True for b in rt_cmp) and any(r.get(b) is True for b in id_cmp) for r in reqs)
        if not ok and not cls:
            # loop form: an index scan over the list with in-place order-preserving removal; the removal is reached only
            # where the element at the position compared equal on both the reaction type and the system id
            def is_list(op):
                return any(f[1] == A.entity_reactors_field(prog) for f, ch in lib.receiver_chains(er, op))
            for sc in lib.index_scans(er, is_list):
                rt_h, id_h = [], []
                for (b, t, fr, is_eq) in lib.comparison_calls(er):
                    if b not in sc["region"]:
                        continue
                    args = fr.get("args", [])
                    both = origins(er, t["args"][0]) | origins(er, t["args"][1])
                    def _elem(o, depth=0):
                        if o[0] != "call":
                            return False
                        if o[1] == sc["index_block"]:
                            return True
                        a_ = er.blocks[o[1]]["term"].get("args") or []
                        return depth < 2 and bool(a_) and any(_elem(o2, depth + 1) for o2 in origins(er, a_[0]))
                    from_elem = any(_elem(o) for o in both)
                    heads = [(tt if is_eq else ft) for (sb, tt, ft) in lib.bool_arms(er, b)]
                    if any(a.endswith("EntityReactionType") for a in args) and from_elem and any(o[0] == "arg" and o[1] == 2 for o in both):
                        rt_h += heads
                    if any(a.endswith("SystemCommand") for a in args) and from_elem and any(o[0] == "arg" and o[1] == 3 for o in both):
                        id_h += heads
                ok = sc["well_formed"] and any(er.dominates(h_, sc["remove_block"]) for h_ in rt_h) \
                    and any(er.dominates(h_, sc["remove_block"]) for h_ in id_h)
        ctx.check(ok, "C06.b", "EntityReactors::remove:predicate-needs-type-and-id", "%s:%d" % (er.file, er.line),
                  "entry is removed only where reaction type and system id both compared equal",
                  "EntityReactors::remove's predicate does not require both the reaction type and the system id to match")
        ops = lib.field_method_calls(er, "EntityReactors", A.entity_reactors_field(prog))
        def _reads_only(n):
            cb_ = prog.by_path.get(n) or next((x for x in prog.bodies if mir.strip_generics(x.path) == mir.strip_generics(n)), None)
            return cb_ is not None and cb_.arg_count >= 1 and cb_.local_ty(1).startswith("&") and not cb_.local_ty(1).startswith("&mut")
        ctx.check(all(T.classify(n) in ("order-preserving-remove", "lookup") or _reads_only(n) for _, _, n, _ in ops) and bool(ops), "C06.b",
                  "EntityReactors::remove:order-preserving", "%s:%d" % (er.file, er.line), "drain_filter keeps the other entries in order",
                  "EntityReactors::remove uses %s" % [n for _, _, n, _ in ops])
    except mir.AnchorLost as e:
        ctx.fail("C06.b", "anchor-lost:EntityReactors::remove", "", str(e))

    # ---- C06.g the reactor tables are edited only by registration, revocation and despawn scheduling (who-writes table) ----
    import writers
    nwr = writers.check(ctx, "C06.g", ["ReactCache", "ComponentReactors", "EntityReactors"])
    ctx.notes.append("who-writes table: %d reactor-table fields with pinned writers checked" % nwr)
    # ---- C06.f a table entry is deleted only when every list in it is empty ----
    entry_removal_guarded(ctx, prog, path_fns)

    # ---- C06.c immediate: no deferral reachable from revoke_reactor ----
    bad = []
    for f in path_fns:
        for b, t, fr in f.iter_calls():
            if fr and (lib.tail(mir.fn_name(fr), 2) in ("Commands::queue", "World::commands", "Commands::spawn", "Commands::entity", "Commands::get_entity")
                       or lib.tail(mir.fn_name(fr), 1) in ("syscall", "syscall_with_validation", "syscall_once")):
                bad.append((f, b, mir.fn_name(fr)))
    ctx.check(not bad, "C06.c", "revoke_reactor:no-deferral", "%s:%d" % (rr.file, rr.line),
              "tables are edited directly: no Commands::queue / syscall reachable (%d functions, depth 4)" % len(path_fns),
              "the revoke path defers work: %s" % [(lib.fkey(f), f.loc(b), n) for f, b, n in bad])
    # revoke_reactor iterates the whole token
    for L in LP.find_loops(rr):
        ctx.check(L.driver is not None and not L.exits, "C06.c", "revoke_reactor:visits-every-token-entry", rr.loc(L.header),
                  "token loop has no early exit", "the loop over the token's reactor types can be left early")
    ctx.floor("C06.c", len(LP.find_loops(rr)), 1, "loop over token entries")
    # World::react applies what its callback queued before returning: `world.react(|rc| rc.revoke(token))` (used by one-off
    # reactors and by user code) is complete when it returns
    wr = [b for b in prog.bodies if b.kind == "assoc_fn" and b.raw.get("name") == "react" and lib.impl_self_name(b) == "World"]
    for m in wr:
        ctx.touch(m)
        cbs = [b for b, t, fr in m.iter_calls() if fr and lib.tail(mir.fn_name(fr), 1) in ("call_once", "call_mut", "call")]
        fl = [b for b, t, fr in m.iter_calls() if fr and lib.tail(mir.fn_name(fr), 2) in ("World::flush", "World::flush_commands")]
        w = lib.path_to_return_avoiding(m, [lib.call_target(m, c) for c in cbs], fl) if cbs else [0]
        ctx.check(bool(cbs) and w is None, "C06.c", "World::react:flushes-before-returning", "%s:%d" % (m.file, m.line),
                  "every path from the callback to return passes World::flush", "World::react can return without applying the commands its callback queued (a revocation issued through it is not immediate)")
    ctx.floor("C06.c", len(wr), 1, "World::react")
    # every function that schedules revoke_reactor does so on every path: a revocation request is never dropped at call
    # time (in particular it is not gated on the reactor's own entity: a one-off reactor despawns itself and THEN revokes)
    uses = [(body, b) for body, b, i, fr in prog.fn_value_uses(lambda n: n.endswith("react_commands::revoke_reactor")) if i is None]
    ctx.floor("C06.c", len(uses), 1, "sites scheduling revoke_reactor")
    for body, b in uses:
        w = lib.path_to_return_avoiding(body, [0], [b])
        ctx.check(w is None, "C06.c", "%s:revocation-scheduled-on-every-path" % lib.fkey(body), body.loc(b),
                  "every path of %s schedules revoke_reactor with the token" % lib.fkey(body),
                  "%s can return without scheduling the revocation (a revoke request is silently dropped)" % lib.fkey(body),
                  lib.render_path(body, w) if w else None)
        tok_ok = any(lib.originates_from_arg(body, a, n) for a in body.blocks[b]["term"]["args"] for n in range(1, body.arg_count + 1)
                     if "RevokeToken" in body.local_ty(n))
        ctx.check(tok_ok, "C06.c", "%s:schedules-own-token" % lib.fkey(body), body.loc(b), "the scheduled revocation carries the caller's token",
                  "the scheduled revocation does not carry the token passed to %s" % lib.fkey(body))

    # ---- C06.d idempotent / dead tolerant ----
    for f in path_fns:
        fk = lib.fkey(f)
        for b, t, fr in f.iter_calls():
            if fr is None:
                continue
            n2 = lib.tail(mir.fn_name(fr), 2)
            if n2 in T.PANICKING_LOOKUPS or n2 in T.UNWRAPS:
                ctx.fail("C06.d", "%s:%s" % (fk, n2), f.loc(b), "panicking lookup on the revoke path (revoking a dead reactor or twice must change nothing)")
        # a panic *behind* a removal (an assertion about what was just removed) is not on the path of a revoke that finds
        # nothing: revoking twice / a dead reactor never reaches a removal
        rem_blocks = [b for b, t, fr in f.iter_calls() if fr and lib.tail(mir.fn_name(fr), 2) in
                      ("Vec::remove", "SmallVec::remove", "HashMap::remove", "VecDeque::remove")]
        # `debug_assert!(list.is_empty())` on the arm where the same list was just found empty: implied, cannot fail
        implied = set()
        def _src(body, t3):
            s_ = LP.coll_source(body, t3["args"][0])
            return repr(s_) if s_ else None
        heads_e = emptiness_heads(f, _src)
        for cb_, t_, fr_ in f.iter_calls():
            if fr_ and lib.tail(mir.fn_name(fr_), 1) == "is_empty" and t_["args"]:
                tag_ = _src(f, t_)
                if tag_ is None or not any(tg == tag_ and f.dominates(h_, cb_) for (h_, tg) in heads_e):
                    continue
                for (sb_, tt_, ft_) in lib.bool_arms(f, cb_):
                    implied |= {d_ for d_ in f.diverging_blocks() if f.dominates(ft_, d_)}
        # `debug_assert!(self.validate())`: an assertion of a state invariant computed by a read-only crate predicate from the
        # cache alone (no knowledge of the reactor being revoked): it cannot tell a first revoke from a second one
        for cb_, t_, fr_ in f.iter_calls():
            pb_ = prog.resolve_local(fr_) if fr_ else None
            if pb_ is None or pb_.local_ty(0) != "bool" or pb_.arg_count != 1 or not pb_.local_ty(1).startswith("&") or pb_.local_ty(1).startswith("&mut"):
                continue
            if not all(o[0] == "arg" and o[1] == 1 and len(o) == 2 for o in origins(f, t_["args"][0])):
                continue
            for (sb_, tt_, ft_) in lib.bool_arms(f, cb_):
                implied |= {d_ for d_ in f.diverging_blocks() if f.dominates(ft_, d_) and "assert" in (f.blocks[d_]["term"].get("exp") or "")}
        for b in f.diverging_blocks():
            if b in implied:
                ctx.ok("C06.d", "%s:no-panic-arm" % fk, f.loc(b), "assertion implied by the dominating emptiness test of the same list, or of a read-only state invariant")
                continue
            if any(rb != b and f.dominates(rb, b) for rb in rem_blocks):
                ctx.ok("C06.d", "%s:no-panic-arm" % fk, f.loc(b), "assertion behind a removal: not reachable by a revoke that finds nothing")
                continue
            t = f.blocks[b]["term"]
            exp = t.get("exp") or ""
            # allowed: unreachable!() on the Event arm of revoke_component_reactor, provided no caller passes Event
            ok = "unreachable" in exp or any("unreachable" in (st.get("exp") or "") for st in f.blocks[b]["stmts"])
            if ok:
                ok = event_arm_never_called(prog, f)
            ctx.check(ok, "C06.d", "%s:no-panic-arm" % fk, f.loc(b), "only an unreachable!() arm that no caller can select",
                      "a panicking path exists on the revoke path")
    ctx.ok("C06.d", "revoke-path:fallible-lookups", "", "%d functions scanned" % len(path_fns))

    # ---- C06.e world reactors revoke what they registered ----
    n_wr = 0
    def _res_field(res_name, dflt):
        # the field of the reactor's resource that holds its system id (by type: private fields may be renamed)
        try:
            ad_ = prog.adt_by_name(res_name)
            fs_ = [f["name"] for f in ad_["variants"][0]["fields"] if f["ty"].endswith("::SystemCommand")]
            return fs_[0] if len(fs_) == 1 else dflt
        except (mir.AnchorLost, KeyError, IndexError):
            return dflt
    for tyname, resfield in (("Reactor", _res_field("WorldReactorRes", "sys_command")), ("EntityReactor", _res_field("EntityWorldReactorRes", "sys_command"))):
        for m in A.methods_of(prog, tyname):
            nm = m.raw.get("name")
            uses = []
            for b, t, fr in m.iter_calls():
                if fr is None:
                    continue
                n2 = lib.tail(mir.fn_name(fr), 2)
                if n2 == "ReactCommands::with":
                    uses.append((b, t["args"][2], "with"))
                elif n2 == "RevokeToken::new_from":
                    uses.append((b, t["args"][0], "new_from"))
            if not uses:
                continue
            ctx.touch(m)
            n_wr += 1
            for b, op, what in uses:
                ok = all(o[0] == "arg" and o[1] == 1 and o[-1] == "." + resfield for o in origins(m, op)) and origins(m, op)
                if not ok:
                    # through Option<Res<..>> deref chains: accept an access path that ends in the resource field
                    steps = lib.access_path(m, op)
                    ok = bool(steps) and steps[0] == ("arg", 1) and lib.path_fields(steps)[-1:] and lib.path_fields(steps)[-1][1] == resfield
                ctx.check(bool(ok), "C06.e", "%s::%s:uses-the-reactor-resource-id" % (tyname, nm), m.loc(b),
                          "%s gets the system id held by the reactor's resource" % what,
                          "%s::%s passes a system id to %s that does not come from the reactor's resource" % (tyname, nm, what))
            if nm == "remove":
                nf = [b for b, o, w in uses if w == "new_from"]
                rv = [(b, t) for b, t, fr in m.iter_calls() if fr and lib.tail(mir.fn_name(fr), 2) == "ReactCommands::revoke"]
                ok = bool(nf) and bool(rv)
                for b, t in rv:
                    tok = origins(m, t["args"][1])
                    ok = ok and all(o[0] == "call" and o[1] in nf for o in tok)
                for b in nf:
                    ok = ok and all(o[0] == "arg" and o[1] == 3 for o in origins(m, m.blocks[b]["term"]["args"][1]))
                ctx.check(ok, "C06.e", "%s::remove:revokes-token-of-given-triggers" % tyname, "%s:%d" % (m.file, m.line),
                          "revoke(RevokeToken::new_from(id, triggers)) with the caller's triggers",
                          "%s::remove does not revoke the token built from its own id and the given triggers" % tyname)
    ctx.floor("C06.e", n_wr, 5, "world-reactor methods that register or revoke")
    try:
        nf = A.method(prog, "RevokeToken", "new_from")
        ctx.touch(nf)
        grt = [b for b, t, fr in nf.iter_calls() if fr and lib.tail(mir.fn_name(fr), 1) == "get_reactor_types" and lib.originates_from_arg(nf, t["args"][0], 2)]
        ids = [st for b, i, st in nf.iter_stmts() if st["k"] == "assign" and "agg" in st["rv"] and st["rv"]["agg"].get("adt", "").endswith("::RevokeToken")]
        ok = bool(grt) and len(ids) == 1
        if ok:
            ag = ids[0]["rv"]["agg"]
            ok = lib.originates_from_arg(nf, ag["ops"][ag["fields"].index("id")], 1)
        ctx.check(ok, "C06.e", "RevokeToken::new_from:built-from-bundle-reactor-types", "%s:%d" % (nf.file, nf.line),
                  "token = (get_reactor_types(triggers), sys_command)", "RevokeToken::new_from does not take its reactor types from the bundle or its id from the parameter")
        # the token lists exactly what the bundle reports: nothing may edit the collected list on its way into the token
        # (registration pushes one handle per bundle member and each revoke_* removes one per token entry)
        grt_b = [b for b, t, fr in nf.iter_calls() if fr and lib.tail(mir.fn_name(fr), 1) == "get_reactor_types"]
        edits = []
        READ_ONLY = ("as_slice", "deref", "len", "iter", "into", "from", "as_ref", "borrow", "is_empty", "clone", "to_vec", "into_vec", "into_boxed_slice")
        for b, t, fr in nf.iter_calls():
            if fr is None or b in grt_b or not t["args"]:
                continue
            if any(lib.originates_from_call(nf, a, g0) for a in t["args"][:1] for g0 in grt_b):
                if lib.tail(mir.fn_name(fr), 1) not in READ_ONLY:
                    edits.append((nf.loc(b), mir.fn_name(fr)))
        ctx.check(bool(grt_b) and not edits, "C06.e", "RevokeToken::new_from:token-lists-every-bundle-member", "%s:%d" % (nf.file, nf.line),
                  "the collected reactor types reach the token unedited", "the list of reactor types is edited before it goes into the token (%s): registration still stores one handle per bundle member, so some are never revoked" % edits)
        g = A.free_fn(prog, "get_reactor_types")
        ctx.touch(g)
        okg = False
        for c in prog.closures_of(g):
            ps = [b for b, t, fr in c.iter_calls() if fr and lib.tail(mir.fn_name(fr), 1) == "push" and lib.originates_from_arg(c, t["args"][1], 2)]
            cnt, _, _ = lib.event_counts(c, ps)
            others = [mir.fn_name(fr) for b, t, fr in c.iter_calls() if fr and b not in ps and lib.tail(mir.fn_name(fr), 1) not in ("deref_mut", "deref")]
            if cnt == {1} and not others:
                okg = True
        gedits = [mir.fn_name(fr) for b, t, fr in g.iter_calls() if fr and lib.tail(mir.fn_name(fr), 1) in ("dedup", "dedup_by", "dedup_by_key", "retain", "truncate", "pop", "remove", "swap_remove", "sort", "clear", "drain")]
        ctx.check(okg and not gedits, "C06.e", "get_reactor_types:one-entry-per-bundle-member", "%s:%d" % (g.file, g.line),
                  "the collector pushes every reported reactor type exactly once and nothing edits the list", "get_reactor_types does not record exactly one entry per bundle member (%s)" % gedits)
        ctx.check(bool(g.calls_named(lambda n: lib.tail(n, 1) == "collect_reactor_types")), "C06.e", "get_reactor_types:collects-from-bundle",
                  "%s:%d" % (g.file, g.line), "", "get_reactor_types does not traverse the bundle")
        w = A.method(prog, "ReactCommands", "with")
        ctx.touch(w)
        reg = [t for b, t, fr in w.iter_calls() if fr and lib.tail(mir.fn_name(fr), 1) == "syscall_with_validation"]
        # the token may be built inside a closure of `with` (`matches!(mode, Revokable).then(|| RevokeToken::new_from(..))`)
        tok = [(bd, t) for bd in [w] + prog.closures_of(w) for b, t, fr in bd.iter_calls() if fr and lib.tail(mir.fn_name(fr), 2) == "RevokeToken::new_from"]
        ok = len(reg) == 1 and len(tok) == 1
        if ok:
            agg = None
            for o in origins(w, reg[0]["args"][1]):
                if o[0] == "agg":
                    agg = w.blocks[o[1]]["stmts"][o[2]]["rv"]["agg"]
            tbd, tt_ = tok[0]

            def from_arg(op, n):
                os_ = origins(w, op) if tbd is w else lib.root_origins(prog, w, tbd, op)
                return bool(os_) and all(o[0] == "arg" and o[1] == n for o in os_)
            ok = agg is not None and lib.originates_from_arg(w, agg["ops"][0], 2) and lib.originates_from_arg(w, agg["ops"][1], 3) \
                and from_arg(tt_["args"][0], 3) and from_arg(tt_["args"][1], 2)
        ctx.check(ok, "C06.e", "ReactCommands::with:token-matches-registration", "%s:%d" % (w.file, w.line),
                  "the token returned names the same system and triggers that were registered",
                  "ReactCommands::with registers and tokenises different (system, triggers) pairs")
    except mir.AnchorLost as e:
        ctx.fail("C06.e", "anchor-lost", "", str(e))


def event_arm_never_called(prog, f):
    """callers of f (revoke_component_reactor) only pass Insertion / Mutation / Removal reaction types"""
    callers = prog.callers_of(lambda n: n == f.path)
    if not callers:
        return False
    for (body, b, t, fr) in callers:
        for a in t["args"]:
            for o in origins(body, a):
                if o[0] == "agg":
                    ag = body.blocks[o[1]]["stmts"][o[2]]["rv"]["agg"]
                    if ag["kind"] == "adt" and ag["adt"].endswith("::EntityReactionType") and ag["vname"] == "Event":
                        return False
    return True


EMPTY_TESTS = ("is_empty", "len")


def holder_fields_of(prog, adt_path):
    adt = prog.adts.get(adt_path)
    if not adt:
        return []
    return [f["name"] for v in adt["variants"] for f in v["fields"] if "ReactorHandle" in f["ty"] or "AutoDespawnSignal" in f["ty"]]


def emptiness_heads(body, receiver_is):
    """[(head block, field-or-None)] entered when an emptiness test on a list accepted by receiver_is(term) found it EMPTY"""
    heads = []
    for b, t, fr in body.iter_calls():
        if fr is None or not t["args"]:
            continue
        n1 = lib.tail(mir.fn_name(fr), 1)
        if n1 not in EMPTY_TESTS:
            continue
        tag = receiver_is(body, t)
        if tag is None:
            continue
        if n1 == "is_empty":
            for (sb, tt, ft) in lib.bool_arms(body, b):
                heads.append((tt, tag))
        else:
            # len() compared with 0
            for sb in sorted(body.reachable):
                info = mir.switch_on(body, sb)
                if not info or info["kind"] != "bin":
                    continue
                l, r = info["bin"]["l"], info["bin"]["r"]
                if lib.const_val(r) != 0 or not lib.originates_from_call(body, l, b):
                    continue
                tg = info["targets"]
                true_t = info["otherwise"] if 0 in tg else tg.get(1)
                false_t = tg.get(0) if 0 in tg else info["otherwise"]
                op = info["bin"]["op"]
                if op in ("Eq", "Le"):
                    heads.append((true_t, tag))
                elif op in ("Ne", "Gt"):
                    heads.append((false_t, tag))
    return heads


def all_empty_method(prog, m, holders):
    """m is an emptiness predicate of an entry type: it returns true only when every holder list is empty"""
    def recv(body, t):
        for (adt, name), ch in lib.receiver_chains(body, t["args"][0]):
            if name in holders:
                return name
        return None
    heads = emptiness_heads(m, recv)
    ok = True
    n_true = 0
    for b in sorted(m.reachable):
        blk = m.blocks[b]
        guaranteed = {tag for (h, tag) in heads if m.dominates(h, b)}
        for st in blk["stmts"]:
            if st["k"] == "assign" and st["place"]["l"] == 0 and not st["place"]["p"] and "use" in st["rv"]:
                v = lib.const_val(st["rv"]["use"])
                if v == 1:
                    n_true += 1
                    ok = ok and guaranteed >= set(holders)
                elif v is None:
                    ok = False
        t = blk["term"]
        if t["k"] == "call" and t["dest"]["l"] == 0 and not t["dest"]["p"]:
            fr = op_fn(t["func"])
            tag = recv(m, t) if fr and lib.tail(mir.fn_name(fr), 1) == "is_empty" else None
            n_true += 1
            ok = ok and tag is not None and (guaranteed | {tag}) >= set(holders)
    return ok and n_true > 0


def entry_removal_guarded(ctx, prog, path_fns):
    n = 0
    for f in path_fns:
        # every function on the revoke path (a helper outside `impl ReactCache` that deletes entries of a table passed to it
        # is read like the methods; what cannot be understood there fails on this view and is decided on the inlined one)
        fk = lib.fkey(f)
        for b, t, fr in f.iter_calls():
            if not (fr and lib.tail(mir.fn_name(fr), 2) == "HashMap::remove"):
                continue
            tbl = lib.receiver_chains(f, t["args"][0])
            tfield = tbl[0][0][1] if tbl else None
            vty = (fr.get("args") or ["", ""])[1] if len(fr.get("args") or []) > 1 else ""
            if "ReactorHandle" not in vty and not any(hf for hf in holder_fields_of(prog, vty)):
                continue
            n += 1
            entry_holders = holder_fields_of(prog, vty)
            if entry_holders:
                # multi-list entry: guarded by an all-empty predicate of the entry type, or by tests of every list
                heads = []
                for b2, t2, cb in lib.local_call_bodies(prog, f):
                    if lib.impl_self_path(cb) == vty and cb.local_ty(0) == "bool":
                        if all_empty_method(prog, cb, entry_holders):
                            for (sb, tt, ft) in lib.bool_arms(f, b2):
                                heads.append((tt, "*"))
                        ctx.touch(cb)
                def recv(body, t3):
                    for (adt, name), ch in lib.receiver_chains(body, t3["args"][0]):
                        if adt == vty and name in entry_holders:
                            return name
                    return None
                heads += emptiness_heads(f, recv)
                got = {tag for (h, tag) in heads if f.dominates(h, b)}
                ok = "*" in got or got >= set(entry_holders)
                ctx.check(ok, "C06.f", "%s:entry-deleted-only-when-all-lists-empty" % fk, f.loc(b),
                          "the %s entry is deleted only after every list in it (%s) was found empty" % (tfield, entry_holders),
                          "the %s entry is deleted although only %s of its lists %s were found empty: registrations in the other lists are lost" % (tfield, sorted(got), entry_holders))
            else:
                def recv1(body, t3):
                    src_rm = LP.coll_source(body, t3["args"][0])
                    return "list" if src_rm and src_rm[0] == "table" and src_rm[1] == tfield else None
                heads = emptiness_heads(f, recv1)
                ok = any(f.dominates(h, b) for (h, tag) in heads)
                ctx.check(ok, "C06.f", "%s:entry-deleted-only-when-list-empty" % fk, f.loc(b),
                          "the %s entry is deleted only after its list was found empty" % tfield,
                          "the %s entry is deleted without its list having been found empty: the other registrations under that key are lost" % tfield)
    # no floor: a revoke path that never deletes entries cannot lose registrations this way (the rule is conditional)
    ctx.ok("C06.f", "entry-deletions-enumerated", "", "%d map-entry deletion site(s) on the revoke path, each guarded" % n)


def position_idiom(ctx, prog, f, fk, rb, rt_, idp):
    """second accepted idiom: `if let Some(i) = list.iter().position(|h| h.sys_command() == id) { list.remove(i); }`"""
    os_ = origins(f, rt_["args"][1])
    if not os_ or not all(o[0] == "call" for o in os_):
        return False
    pb = {o[1] for o in os_}
    if len(pb) != 1:
        return False
    pb = pb.pop()
    pt = f.blocks[pb]["term"]
    pfr = op_fn(pt["func"])
    if not pfr or T.classify(mir.fn_name(pfr)) != "first-match-search" or lib.tail(mir.fn_name(pfr), 1) != "position":
        return False
    arms = lib.result_arms(f, pb)
    on_some = bool(arms) and f.dominates(arms[0][1], rb)
    ctx.check(on_some, "C06.b", "%s:removes-at-found-position" % fk, f.loc(rb), "remove(i) on the Some(i) arm of a first-match position()", "remove is not on the found arm of position()")
    # same list
    src_it = LP.coll_source(f, pt["args"][0])
    src_rm = LP.coll_source(f, rt_["args"][0])
    root_rm = lib.access_path(f, rt_["args"][0])[:1]
    root_it = lib.access_path(f, pt["args"][0])[:1]
    ctx.check((src_it is not None and src_it == src_rm) or (root_rm == root_it and root_rm and root_rm[0][0] in ("phi", "arg", "call")), "C06.b",
              "%s:removes-from-iterated-list" % fk, f.loc(rb), "removes from the list it searched", "removes from a different list than the one searched")
    # predicate: element.sys_command() == reactor id (captured)
    okp = False
    for o in origins(f, pt["args"][1]):
        if o[0] == "agg":
            ag = f.blocks[o[1]]["stmts"][o[2]]["rv"]["agg"]
            cb = prog.body(ag.get("closure")) if ag["kind"] == "closure" else None
            if cb is None:
                continue
            caps_id = any(lib.originates_from_arg(f, c, idp) for c in ag["ops"])
            for b, t, fr in cb.iter_calls():
                if fr and lib.tail(mir.fn_name(fr), 1) == "eq" and t["dest"]["l"] == 0:
                    both = origins(cb, t["args"][0]) | origins(cb, t["args"][1])
                    has_el = any(o2[0] == "call" and lib.tail(mir.fn_name(op_fn(cb.blocks[o2[1]]["term"]["func"])), 2) == "ReactorHandle::sys_command" for o2 in both if o2[0] == "call")
                    has_cap = any(o2[0] == "arg" and o2[1] == 1 for o2 in both)
                    okp = has_el and has_cap and caps_id
    ctx.check(okp, "C06.b", "%s:removes-only-matching-entry" % fk, f.loc(pb), "position predicate is element.sys_command() == reactor id",
              "the position predicate does not compare element.sys_command() with the reactor id")
    return True

"""C15 - One-off reactors run exactly once and then vanish (DESIGN.md section 4, C15).
Subject: ReactCommands::once and the closures it builds."""
import mir
from mir import op_fn, op_place, origins
import lib
import anchors as A
import c07
import core

EXPLANATION = (
    "In ReactCommands::once: the stored (outer) closure obtains the inner closure through Option::take on its captured "
    "Option and calls it only on the Some arm, at most once per path; every path of the inner closure, after the reactor "
    "ran, despawns (fallibly) the entity captured from the spawn_empty() of the same call and passes a clone of the token "
    "returned to the user to ReactCommands::revoke, with no return in between; the id in the SystemCommand registered, in "
    "the token, the entity the storage is try_inserted on and the entity despawned are one origin; the token and the "
    "registration are built from the same triggers value; the mode is the constant Revokable.")

NOT_DECIDED = ["'the first of its triggers to fire' (ordering; follows from C01/C02)"]


def clo_of(body, op):
    for o in origins(body, op):
        if o[0] == "agg" and len(o) == 3:
            ag = body.blocks[o[1]]["stmts"][o[2]]["rv"]["agg"]
            if ag["kind"] == "closure":
                return ag
            if ag["kind"] == "adt" and ag.get("vname") == "Some":
                return clo_of(body, ag["ops"][0])
    return None


def check(ctx):
    ctx.explanation = EXPLANATION
    ctx.not_decided = NOT_DECIDED
    prog = ctx.prog
    once = ctx.anchor("C15.anchor", lambda: A.method(prog, "ReactCommands", "once"), "ReactCommands::once")
    if once is None:
        return
    ctx.touch(once, calls=len(list(once.iter_calls())))
    # the stored closure: argument of SystemCommandCallback::with
    withc = [(b, t) for b, t, fr in once.iter_calls() if fr and lib.tail(mir.fn_name(fr), 2) == "SystemCommandCallback::with"]
    if not ctx.check(len(withc) == 1, "C15.anchor", "once:one-stored-callback", "%s:%d" % (once.file, once.line), "", "%d SystemCommandCallback::with calls" % len(withc)):
        return
    outer_ag = clo_of(once, withc[0][1]["args"][0])
    outer = prog.body(outer_ag["closure"]) if outer_ag else None
    if outer is None:
        ctx.fail("C15.anchor", "once:anchor-lost:outer-closure", once.loc(withc[0][0]), "stored closure not found")
        return
    ctx.touch(outer)
    # the captured Option<inner closure> (pinned shape); the body that runs the user's reactor is the inner closure when
    # there is one, else the stored closure itself (a one-off reactor may be written with any run-once guard)
    inner = None
    inner_ag = None
    for cap in outer_ag["ops"]:
        ag = clo_of(once, cap)
        if ag:
            inner = prog.body(ag["closure"])
            inner_ag = ag
    has_run = lambda bd: any(fr and lib.tail(mir.fn_name(fr), 1) == "run_with_cleanup" for _, _, fr in bd.iter_calls())
    if inner is not None and has_run(inner):
        ctx.touch(inner, calls=len(list(inner.iter_calls())))
    elif has_run(outer):
        inner = None
    else:
        ctx.fail("C15.anchor", "once:anchor-lost:reactor-run", once.loc(withc[0][0]), "no closure built by once() runs the reactor")
        return
    # ---- C15.g once(): every path that reserved the reactor's entity registers its triggers (which also hands the entity to
    # the garbage collector through the prepared handle) and stores the callback; an early-out after spawn_empty() leaks the
    # entity and, with an empty bundle, the reactor is not 'dropped without running' but never collected
    spawns = [b for b, t, fr in once.iter_calls() if fr and lib.tail(mir.fn_name(fr), 2) in ("Commands::spawn_empty", "Commands::spawn", "World::spawn_empty", "World::spawn")]
    regs = [b for b, t, fr in once.iter_calls() if fr and lib.tail(mir.fn_name(fr), 1) in ("syscall_with_validation", "syscall")
            and any(o[0] == "fnitem" and o[1].endswith("register_reactors") for a in t["args"] for o in origins(once, a))]
    if ctx.floor("C15.g", len(spawns), 1, "entity reservation in once()") and ctx.floor("C15.g", len(regs), 1, "register_reactors syscall in once()"):
        for what, blocks_ in (("registers-its-triggers", regs), ("stores-its-callback", [withc[0][0]])):
            w = lib.path_to_return_avoiding(once, [lib.call_target(once, spawns[0])], blocks_)
            ctx.check(w is None, "C15.g", "once:%s-on-every-path" % what, once.loc(spawns[0]),
                      "every path from spawn_empty() to return %s" % what.replace("-", " "),
                      "a path of once() returns after reserving the reactor entity without this step (%s): the entity is never collected" % what,
                      lib.render_path(once, w) if w else None)
    # ---- C15.a at most once ----
    takes = [b for b, t, fr in outer.iter_calls() if fr and lib.tail(mir.fn_name(fr), 2) == "Option::take"
             and all(o[0] == "arg" and o[1] == 1 for o in origins(outer, t["args"][0]))]
    if inner is not None:
        calls = [b for b, t, fr in outer.iter_calls() if fr and mir.fn_name(fr) == inner.path]
    else:
        calls = [b for b, t, fr in outer.iter_calls() if fr and lib.tail(mir.fn_name(fr), 1) == "run_with_cleanup"]
    ok = len(takes) == 1 and bool(calls)
    if ok:
        arms = lib.result_arms(outer, takes[0])
        ok = bool(arms) and all(outer.dominates(arms[0][1], c) for c in calls)
        if inner is not None:
            ok = ok and all(lib.originates_from_call(outer, outer.blocks[c]["term"]["args"][0], takes[0]) for c in calls)
        cnt, _, _ = lib.event_counts(outer, calls)
        ok = ok and cnt <= {0, 1}
    ctx.check(ok, "C15.a", "once::outer:runs-taken-closure-at-most-once", "%s:%d" % (outer.file, outer.line),
              "the reactor run is reached only through the Some arm of an Option::take on captured state, at most once per path",
              "the one-off reactor can run more than once: the stored callback does not consume a captured Option (Option::take) before running the reactor")
    if inner is None:
        inner, inner_ag = outer, outer_ag
    # no other way to run the reactor: the reactor value is captured only by the inner closure
    # ---- C15.b vanish ----
    runs = [b for b, t, fr in inner.iter_calls() if fr and lib.tail(mir.fn_name(fr), 1) == "run_with_cleanup"]
    if ctx.floor("C15.b", len(runs), 1, "reactor run inside the inner closure"):
        rb = runs[0]
        # despawn event: a despawn site in the inner closure (or a nested combinator closure) classified once-own-id
        sites = [s for s in c07.despawn_sites(prog) if s[0].path == inner.path or s[0].raw.get("parent") == inner.path]
        desp_blocks = []
        for (body, b, name, cls, detail) in sites:
            if body.path == inner.path:
                desp_blocks.append(b)
            else:
                # find the combinator call in inner that takes this closure
                for ib, it, ifr in inner.iter_calls():
                    ag = clo_of(inner, it["args"][-1]) if it["args"] else None
                    if ag and ag["closure"] == body.path:
                        desp_blocks.append(ib)
            ctx.check(cls == "once-reactor-own-id", "C15.b", "once::inner:despawns-own-entity", body.loc(b),
                      "despawns the entity captured from spawn_empty() of the same once() call", "the once closure despawns %s" % detail)
        # the entity may already be gone: the failure arm of its own lookup is the only excuse
        gone = []
        for ib, it, ifr in inner.iter_calls():
            if ifr and lib.tail(mir.fn_name(ifr), 2) in ("World::get_entity_mut", "World::get_entity") and len(it["args"]) > 1 \
                    and all(o[0] == "arg" and o[1] == 1 for o in origins(inner, it["args"][1])):
                for (sb, ok_t, fail_t) in lib.result_arms(inner, ib):
                    gone.append(fail_t)
        w = lib.path_to_return_avoiding(inner, [lib.call_target(inner, rb)], set(desp_blocks) | set(gone))
        ctx.check(bool(desp_blocks) and w is None, "C15.b", "once::inner:despawn-after-run-on-every-path", inner.loc(rb),
                  "every path from the run to return despawns the reactor entity", "a path of the once closure returns after the run without despawning its entity",
                  lib.render_path(inner, w) if w else None)
        # revoke event: world.react(closure{token}) whose closure calls ReactCommands::revoke(upvar)
        rev_blocks = []
        for ib, it, ifr in inner.iter_calls():
            if not it["args"]:
                continue
            ag = clo_of(inner, it["args"][-1])
            cb = prog.body(ag["closure"]) if ag else None
            if cb is None:
                continue
            for b2, t2, fr2 in cb.iter_calls():
                if fr2 and lib.tail(mir.fn_name(fr2), 2) == "ReactCommands::revoke" and all(o[0] == "arg" and o[1] == 1 for o in origins(cb, t2["args"][1])):
                    # the captured value is the inner closure's captured token
                    caps_ok = all(all(o[0] == "arg" and o[1] == 1 for o in origins(inner, c)) for c in ag["ops"])
                    if caps_ok:
                        rev_blocks.append(ib)
                        ctx.touch(cb)
        for b2, t2, fr2 in inner.iter_calls():
            if fr2 and lib.tail(mir.fn_name(fr2), 2) == "ReactCommands::revoke":
                rev_blocks.append(b2)
        w = lib.path_to_return_avoiding(inner, [lib.call_target(inner, rb)], rev_blocks)
        ctx.check(bool(rev_blocks) and w is None, "C15.b", "once::inner:revokes-own-token-on-every-path", inner.loc(rb),
                  "every path from the run to return revokes the captured token", "a path of the once closure returns after the run without revoking its triggers",
                  lib.render_path(inner, w) if w else None)
        for blocks, what in ((desp_blocks, "despawn"), (rev_blocks, "revoke")):
            ctx.check(all(inner.dominates(rb, b) or rb in inner.reach_from(0) and b in inner.reach_from(lib.call_target(inner, rb)) for b in blocks), "C15.b",
                      "once::inner:%s-after-run" % what, inner.loc(rb), "", "%s happens before the run" % what)
    _locality(ctx)
    # ---- C15.c same identity everywhere ----
    ids = [(b, t) for b, t, fr in once.iter_calls() if fr and lib.tail(mir.fn_name(fr), 1) == "id"]
    spawn = [b for b, t, fr in once.iter_calls() if fr and lib.tail(mir.fn_name(fr), 2) == "Commands::spawn_empty"]
    if not ctx.check(len(ids) == 1 and len(spawn) == 1 and lib.originates_from_call(once, ids[0][1]["args"][0], spawn[0]), "C15.c",
                     "once:fresh-entity", "%s:%d" % (once.file, once.line), "entity = commands.spawn_empty().id()", "the once reactor does not get a freshly spawned entity"):
        return
    idb = ids[0][0]
    is_ent = lambda op: lib.originates_from_call(once, op, idb)
    # SystemCommand(entity)
    sc_aggs = [(b, i, st["rv"]["agg"], st["place"]["l"]) for b, i, st in once.iter_stmts() if st["k"] == "assign" and "agg" in st["rv"]
               and st["rv"]["agg"].get("adt", "").endswith("::SystemCommand")]
    okid = len(sc_aggs) == 1 and is_ent(sc_aggs[0][2]["ops"][0])
    sc_local = sc_aggs[0][3] if sc_aggs else None

    def is_sc(op):
        os_ = origins(once, op)
        return bool(os_) and all(o[0] == "agg" and sc_aggs and o[1] == sc_aggs[0][0] and o[2] == sc_aggs[0][1] for o in os_)
    def is_id(op):
        """the fresh entity, as itself or as the `SystemCommand(entity)` wrapping it (also read back through `*sys_command`)"""
        if is_ent(op) or is_sc(op):
            return True
        os_ = origins(once, op)
        ok_ = bool(os_)
        for o in os_:
            if o[0] == "agg" and sc_aggs and o[1] == sc_aggs[0][0] and o[2] == sc_aggs[0][1]:
                continue        # `.0` of the wrapper (origins keeps the aggregate when the projection is the newtype's field)
            if o[0] == "call":
                t_ = once.blocks[o[1]]["term"]
                f_ = op_fn(t_["func"])
                if f_ and lib.tail(mir.fn_name(f_), 2) in ("Deref::deref", "SystemCommand::deref") and t_["args"] and is_sc(t_["args"][0]):
                    continue
            ok_ = False
        return ok_
    nf = [(b, t) for b, t, fr in once.iter_calls() if fr and lib.tail(mir.fn_name(fr), 2) == "RevokeToken::new_from"]
    reg = [(b, t) for b, t, fr in once.iter_calls() if fr and lib.tail(mir.fn_name(fr), 1) in ("syscall_with_validation", "syscall")
           and any(op_fn(a) and lib.tail(mir.fn_name(op_fn(a)), 1) == "register_reactors" for a in t["args"])]
    okid = okid and len(nf) == 1 and len(reg) == 1
    mode_ok = trig_ok = False
    if okid:
        okid = is_sc(nf[0][1]["args"][0])
        trig_tok = origins(once, nf[0][1]["args"][1])
        agg = None
        for o in origins(once, reg[0][1]["args"][1]):
            if o[0] == "agg":
                agg = once.blocks[o[1]]["stmts"][o[2]]["rv"]["agg"]
        if agg and len(agg["ops"]) == 3:
            okid = okid and is_sc(agg["ops"][1])
            trig_ok = origins(once, agg["ops"][0]) == trig_tok and all(o[0] == "arg" and o[1] == 2 for o in trig_tok)
            for o in origins(once, agg["ops"][2]):
                if o[0] == "agg":
                    ma = once.blocks[o[1]]["stmts"][o[2]]["rv"]["agg"]
                    mode_ok = ma.get("adt", "").endswith("::ReactorMode") and ma.get("vname") == "Revokable"
    ti = [(b, t) for b, t, fr in once.iter_calls() if fr and lib.tail(mir.fn_name(fr), 2) in ("EntityCommands::try_insert", "EntityCommands::insert")]
    ent_ins = False
    if len(ti) == 1:
        for o in origins(once, ti[0][1]["args"][0]):
            if o[0] == "call":
                t0 = once.blocks[o[1]]["term"]
                fr0 = op_fn(t0["func"])
                ent_ins = bool(fr0) and lib.tail(mir.fn_name(fr0), 2) in ("Commands::entity", "Commands::get_entity") and is_id(t0["args"][1])
        ctx.check(lib.tail(mir.fn_name(op_fn(once.blocks[ti[0][0]]["term"]["func"])), 1) == "try_insert", "C15.c", "once:storage-try_insert", once.loc(ti[0][0]),
                  "storage is try_inserted", "the callback storage is inserted with a panicking insert")
    ctx.check(okid and ent_ins, "C15.c", "once:one-identity", "%s:%d" % (once.file, once.line),
              "SystemCommand(entity) is used for the token, the registration and the storage entity",
              "the once reactor's registration, token and storage do not share one system entity")
    ctx.check(trig_ok, "C15.c", "once:token-and-registration-from-same-triggers", "%s:%d" % (once.file, once.line),
              "token and registration are built from the same triggers value", "the token names different triggers than the registration")
    ctx.check(mode_ok, "C15.c", "once:mode-is-Revokable", "%s:%d" % (once.file, once.line), "constant ReactorMode::Revokable",
              "the once reactor is not registered with the constant ReactorMode::Revokable (an empty bundle would never be collected / a Persistent one never dropped)")
    # captured entity / token of the inner closure
    caps = inner_ag["ops"]
    names = lib.upvar_names(inner)
    ent_cap = [i for i, c in enumerate(caps) if is_id(c)]
    tok_cap = []
    for i, c in enumerate(caps):
        os_ = origins(once, c)
        if os_ and all(o[0] == "call" and o[1] == nf[0][0] for o in os_) if nf else False:
            tok_cap.append(i)
    ctx.check(bool(ent_cap) and bool(tok_cap), "C15.c", "once:inner-captures-own-entity-and-token-clone", "%s:%d" % (inner.file, inner.line),
              "inner closure captures the fresh entity and a clone of the returned token", "the inner closure does not capture the reactor's own entity and a clone of the returned token")
    ret_ok = False
    for b, i, st in once.iter_stmts():
        if st["k"] == "assign" and st["place"]["l"] == 0 and not st["place"]["p"] and "use" in st["rv"] and nf:
            ret_ok = lib.originates_from_call(once, st["rv"]["use"], nf[0][0])
    ctx.check(ret_ok, "C15.c", "once:returns-that-token", "%s:%d" % (once.file, once.line), "", "the token returned to the user is not the one whose clone the reactor revokes")


def _locality(ctx):
    """C15.d: a one-off reactor's registrations survive until it fires or is revoked: other revocations remove only
    their own entries (shared with C06.b / C06.f)"""
    import c06
    n = core.adopt(ctx, c06, lambda o: o["rule"] in ("C06.b", "C06.f"), "C15.d")
    ctx.floor("C15.d", n, 25, "shared revoke-locality obligations (C06.b/f)")
    # the self-revoke (issued after the reactor despawned its own entity) and a user revoke before any trigger fires
    # must take effect: the revocation is scheduled on every path and the token lists every bundle member
    n = core.adopt(ctx, c06, lambda o: (o["rule"] == "C06.c" and ("revocation-scheduled-on-every-path" in o["key"] or "schedules-own-token" in o["key"]
                                                              or "visits-every-token-entry" in o["key"]))
                   or (o["rule"] == "C06.e" and ("one-entry-per-bundle-member" in o["key"] or "token-lists-every-bundle-member" in o["key"])), "C15.e")
    ctx.floor("C15.e", n, 4, "shared revocation-effectiveness obligations (C06.c/e)")
    # 'runs on the first of its triggers to fire' - and not before: a `despawn(e)` trigger fires only for a real despawn. The
    # tracker component whose Drop reports the despawn is never removed from (or replaced on) a living entity, and reports
    # exactly once (a spurious report spends the one-off reactor, which then misses the real despawn; shared with C08.c)
    import c08 as _c08
    nh = core.adopt(ctx, _c08, lambda o: o["rule"] == "C08.c" and any(k in o["key"] for k in ("never-removed-from-a-live-entity", "tracker-not-replaced", "sends-parent-once", "one-entity")), "C15.h")
    ctx.floor("C15.h", nh, 3, "shared despawn-tracker obligations (C08.c)")
    # 'runs on the first of its triggers to fire': the system that applies the bundle registers every given trigger with
    # the handle prepared for this reactor (shared with C01.a)
    import c01
    n = core.adopt(ctx, c01, lambda o: o["rule"] == "C01.a" and "register_reactors:" in o["key"], "C15.f")
    ctx.floor("C15.f", n, 1, "shared bundle-registration obligation (C01.a)")

"""C11 - The framework is quiescent between reaction trees (DESIGN.md section 4, C11).
Decides that every path restores every piece of bookkeeping: a conjunction of path rules, one per state item."""
import mir
from mir import op_fn, origins
import lib
import tables as T
import anchors as A
import core

EXPLANATION = (
    "One path rule per piece of tree bookkeeping. Tree counter: written only by the runner, incremented only on the run "
    "path, and every path through the root arm stores 0 after the discard loop. Postponed queue: the root discard loop "
    "has a single exit (queue empty) and the detached queue is re-attached on every path. Pending metadata lists: every "
    "prepare() is followed on every path of its apply() by the runner call carrying the matching setup, each of the "
    "runner's three dispositions leads to exactly one setup.run for the command, and start() removes exactly one entry "
    "on its found path and none otherwise. Reacting flags: the cleanup is consumed exactly once per run (C04), the abort "
    "helper runs it too (C05.d) and end() clears the flag on every path (C03.b). System present: the callback taken is "
    "re-inserted on every path unless the post-run lookup failed (C02.b).")

NOT_DECIDED = [
    "state after a panic unwinds through a tree",
    "user callbacks built with SystemCommandCallback::with that do not call the cleanup",
]


def check(ctx):
    ctx.explanation = EXPLANATION
    ctx.not_decided = NOT_DECIDED
    prog = ctx.prog
    import c02, c03, c04, c05
    R = ctx.anchor("C11.anchor", lambda: A.runner(prog), "runner")
    if R is None:
        return
    # ---- tree counter ----
    n = core.adopt(ctx, c02, lambda o: o["rule"] == "C02.c" and ("counter" in o["key"] or "run-path-always-replays" in o["key"]), "C11.counter")
    ctx.floor("C11.counter", n, 3, "shared counter obligations")
    ct = A.names(prog)["counter_type"]
    writers = set()
    for body in prog.bodies:
        for b, t, fr in body.iter_calls():
            if fr and lib.tail(mir.fn_name(fr), 1) in ("resource_mut", "get_resource_mut", "resource_scope") and lib.has_type(fr.get("args"), ct):
                writers.add(body.path)
            if fr and lib.tail(mir.fn_name(fr), 2) == "DerefMut::deref_mut" and lib.has_type(fr.get("args"), ct):
                writers.add(body.path)
    ctx.check(writers == {R.path}, "C11.counter", "tree-counter:written-only-by-runner", "%s:%d" % (R.file, R.line),
              "only the runner takes the counter mutably", "the tree counter is mutably accessed in %s" % sorted(writers - {R.path}))
    # ---- postponed queue ----
    n = core.adopt(ctx, c02, lambda o: o["rule"] == "C02.c" and any(k in o["key"] for k in ("discard", "detached-queue", "replay-present", "::replay:")), "C11.queue")
    ctx.floor("C11.queue", n, 5, "shared queue obligations")
    # the queue methods themselves: detach returns the whole queue and leaves it empty, attach puts the argument *behind* what
    # was queued meanwhile (an entry pushed between detach and attach must survive), spare buffers are stored empty (C12.b)
    import c12 as _c12
    nq = core.adopt(ctx, _c12, lambda o: o["rule"] == "C12.b", "C11.queue")
    ctx.floor("C11.queue", nq, 4, "shared queue-method contracts (C12.b)")
    q = A.names(prog)["queue_type"]
    qusers = set()
    for body in prog.bodies:
        for b, t, fr in body.iter_calls():
            if fr and lib.tail(mir.fn_name(fr), 1) in ("resource_mut", "get_resource_mut") and any(q in a for a in fr.get("args", [])):
                qusers.add(body.path)
    ctx.check(qusers == {R.path}, "C11.queue", "postponed-queue:used-only-by-runner", "%s:%d" % (R.file, R.line),
              "only the runner touches the postponed queue", "the postponed queue is accessed in %s" % sorted(qusers - {R.path}))
    import writers
    nwr = writers.check(ctx, "C11.queue", ["CobwebCommandQueue", "SystemCommandStorage"])
    ctx.notes.append("who-writes table: %d queue / storage fields with pinned writers checked" % nwr)
    nwr2 = core.adopt(ctx, c03, lambda o: o["rule"] == "C03.h", "C11.prepared")
    ctx.notes.append("C11.prepared adopts %d who-writes obligations of the trackers (C03.h)" % nwr2)
    # ---- pending metadata lists ----
    n = core.adopt(ctx, c03, lambda o: o["rule"] == "C03.a", "C11.prepared")
    n += core.adopt(ctx, c02, lambda o: o["rule"] == "C02.a" and any(k in o["key"] for k in ("single-disposition", "dispositions=", "setup-runs-before-callback", "postpone-carries")), "C11.prepared")
    n += core.adopt(ctx, c05, lambda o: o["rule"] == "C05.d", "C11.prepared")
    n += core.adopt(ctx, c02, lambda o: o["rule"] == "C02.d" and ("one-runner-call-per-path" in o["key"] or "runs-own-system" in o["key"]), "C11.prepared")
    ctx.floor("C11.prepared", n, 18, "shared prepare/setup obligations")
    trackers = A.tracker_types(prog)
    for ty in sorted(trackers):
        tname = ty.split("::")[-1]
        try:
            start = A.method(prog, tname, "start")
            prep = A.method(prog, tname, "prepare")
        except mir.AnchorLost as e:
            ctx.fail("C11.prepared", "anchor-lost:%s" % tname, "", str(e))
            continue
        ctx.touch(start)
        field = c03.pending_field(prog, ty, prep)
        ops = lib.field_method_calls(start, ty, field or "?")
        removes = [b for b, t, n_, ch in ops if mir.strip_generics(n_) in T._norm(T.RELEASE) and T.classify(n_) != "lookup"]
        searches = [b for b, t, n_, ch in ops if T.classify(n_) == "first-match-search"]
        cnt, _, ns = lib.event_counts(start, removes)
        ctx.touch(start, states=ns)
        ok = cnt <= {0, 1} and 1 in cnt
        if ok and searches:
            arms = lib.result_arms(start, searches[0])
            ok = bool(arms) and all(start.dominates(arms[0][1], r) for r in removes)
            w = lib.path_to_return_avoiding(start, [arms[0][1]], removes) if arms else [0]
            ok = ok and w is None
        ctx.check(ok, "C11.prepared", "%s::start:claims-exactly-one-entry" % tname, "%s:%d" % (start.file, start.line),
                  "start() removes exactly one pending entry on the found arm and none otherwise",
                  "start() removes %s pending entries on some path (each prepare must be matched by exactly one claim)" % sorted(cnt))
        # prepare appends exactly one entry
        pops = [b for b, t, n_, ch in lib.field_method_calls(prep, ty, field or "?") if T.classify(n_) == "append-ordered"]
        pc, _, _ = lib.event_counts(prep, pops)
        ctx.check(pc == {1}, "C11.prepared", "%s::prepare:appends-exactly-one-entry" % tname, "%s:%d" % (prep.file, prep.line),
                  "prepare() appends exactly one entry", "prepare() appends %s entries" % sorted(pc))
    # ---- nothing detected is left waiting: the polled schedulers drain completely (shared with C01.b) ----
    import c01
    npol = core.adopt(ctx, c01, lambda o: o["rule"] == "C01.b" and ("schedule_removal_reactions" in o["key"] or "schedule_despawn_reactions" in o["key"]), "C11.polled")
    ctx.floor("C11.polled", npol, 8, "shared polled-scheduler obligations (C01.b)")
    # ... and what an aborted command's cleanup releases is collected and polled in the same tree (shared with C08.e)
    import c08 as _c08
    npol2 = core.adopt(ctx, _c08, lambda o: o["rule"] == "C08.e" and ("abort-helper:" in o["key"] or "runner:" in o["key"]), "C11.polled")
    ctx.floor("C11.polled", npol2, 3, "shared poll-coverage obligations (C08.e)")
    # ... and a poll reads everything that was detected: the despawn scheduler consumes its whole channel and every checker
    # is polled (a poll that stops early leaves a detected reaction waiting for a later tree; shared with C08.c / C08.d)
    npol3 = core.adopt(ctx, _c08, lambda o: (o["rule"] == "C08.c" and "schedule_despawn_reactions" in o["key"]) or
                       (o["rule"] == "C08.d" and "every-checker-is-polled" in o["key"]), "C11.drained")
    ctx.floor("C11.drained", npol3, 3, "shared scheduler-drain obligations (C08.c/d)")
    # ... and the collector itself leaves nothing behind: it drains the channel until it is empty, *including* what its own
    # despawns release (an entity whose last handle is held by an entity collected in this pass; shared with C10.e)
    import c10 as _c10
    ngc = core.adopt(ctx, _c10, lambda o: o["rule"] == "C10.e", "C11.polled")
    ctx.floor("C11.polled", ngc, 3, "shared collector obligations (C10.e)")
    # no event payload outlives its tree: the reader count equals the number of commands queued (shared with C05.a / C05.b)
    import c05 as _c05b
    npay = core.adopt(ctx, _c05b, lambda o: o["rule"] in ("C05.a", "C05.b"), "C11.payload")
    ctx.floor("C11.payload", npay, 4, "shared reader-count obligations (C05.a/b)")

    # ---- reacting flags ----
    n = core.adopt(ctx, c04, lambda o: o["rule"] in ("C04.a", "C04.b"), "C11.flags")
    n += core.adopt(ctx, c03, lambda o: o["rule"] == "C03.b" and "flag" in o["key"], "C11.flags")
    ctx.floor("C11.flags", n, 20, "shared cleanup / flag obligations")
    # ---- system present ----
    n = core.adopt(ctx, c02, lambda o: o["rule"] == "C02.b", "C11.system")
    ctx.floor("C11.system", n, 2, "shared callback-conservation obligations")

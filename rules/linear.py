"""A7 interprocedural effect counting for a linearly used value (the `cleanup` of a run).
summary(body, res) = set of possible numbers of times (0, 1, 2=many) the resource is consumed on a path from entry
to a normal return, composed through crate-local callees and closures by summary (depth bound 5)."""
from collections import defaultdict, deque

import mir
from mir import op_fn, op_place, origins
import lib

TERMINAL_CONSUMERS = {
    # (callee tail, argument index) that consume the resource once
    ("SystemCommandCleanup::run", 0),
    ("FnOnce::call_once", 0),
    ("FnMut::call_mut", 0),
    ("Fn::call", 0),
}
# external callees that take a closure and run it exactly once, later, on the world (deferred consumption)
DEFERRED_CLOSURE_CONSUMERS = {("Commands::queue", 1)}
# external/local callees known to run their closure argument exactly once in-line
INLINE_CLOSURE_CONSUMERS = {("Option::map", 1), ("Result::map", 1)}


class Res:
    """the tracked value inside one body: ('arg', n) whole parameter n, or ('upvar', idx) captured field of the closure env"""
    def __init__(self, kind, idx):
        self.kind, self.idx = kind, idx

    def key(self):
        return (self.kind, self.idx)

    def matches(self, o):
        if self.kind == "arg":
            return o[0] == "arg" and o[1] == self.idx and len(o) == 2
        if self.kind == "field":       # field `idx` (by name) of the by-value `self` parameter
            return o[0] == "arg" and o[1] == 1 and len(o) == 3 and o[2] == "." + str(self.idx)
        return o[0] == "arg" and o[1] == 1 and len(o) == 3 and o[2] == "." + str(self.idx)


def is_res(body, op, res):
    os_ = origins(body, op)
    return bool(os_) and all(res.matches(o) for o in os_)


def agg_of(body, op):
    """if the operand is (only) a freshly built aggregate, return its agg dict"""
    os_ = origins(body, op)
    if len(os_) != 1:
        return None
    o = next(iter(os_))
    if o[0] != "agg" or len(o) != 3:
        return None
    return body.blocks[o[1]]["stmts"][o[2]]["rv"]["agg"]


class Linear:
    def __init__(self, prog):
        self.prog = prog
        self.memo = {}
        self.events = {}     # (body.path, res.key()) -> {block: (multiset, description)}
        self.unknown = []    # (body, block, description) consumption by an unclassified callee
        self.states = 0

    def summary(self, body, res, depth=0):
        key = (body.path, res.key())
        if key in self.memo:
            return self.memo[key]
        if depth > 5:
            return {0, 1, 2}
        self.memo[key] = {1}   # optimistic for recursion
        ev = {}
        for b, t, fr in body.iter_calls():
            mult, desc = self.call_effect(body, b, t, fr, res, depth)
            if mult is not None:
                ev[b] = (mult, desc)
        self.events[key] = ev
        counts = self.count_paths(body, ev)
        self.memo[key] = counts
        return counts

    def call_effect(self, body, b, t, fr, res, depth):
        """(set of multiplicities, description) if this call consumes the resource, else (None, None)"""
        total = None
        descs = []
        name = lib.tail(mir.fn_name(fr), 2) if fr else "<indirect>"
        cb = self.prog.resolve_local(fr) if fr else None
        for i, a in enumerate(t["args"]):
            m = None
            if is_res(body, a, res):
                if (name, i) in TERMINAL_CONSUMERS:
                    m = {1}
                    descs.append("%s(arg %d)" % (name, i))
                elif (name, i) in DEFERRED_CLOSURE_CONSUMERS:
                    # the callable itself is queued as a command (bevy's blanket `impl Command for F: FnOnce(&mut World)` calls
                    # it exactly once when applied): same as queueing `move |w| (f)(w)`
                    m = {1}
                    descs.append("queued as a command with %s" % name)
                elif cb is not None:
                    callee_res = self.param_res(cb, i)
                    if callee_res is not None:
                        m = self.summary(cb, callee_res, depth + 1)
                        descs.append("forwarded to %s" % lib.fkey(cb))
                if m is None:
                    self.unknown.append((body, b, "resource passed to unclassified callee %s (arg %d)" % (mir.fn_name(fr) if fr else "?", i)))
                    m = {0, 1, 2}
            else:
                agg = agg_of(body, a)
                if agg is not None and agg["kind"] == "tuple" and cb is not None and cb.kind == "closure" and i == 1:
                    # closure call convention: args = (env, (a, b, ..)) -> callee locals _2, _3, ..
                    for j, el in enumerate(agg["ops"]):
                        if is_res(body, el, res):
                            m = self.summary(cb, Res("arg", 2 + j), depth + 1)
                            descs.append("passed to closure %s as parameter %d" % (lib.fkey(cb), 2 + j))
                elif agg is not None and agg["kind"] == "tuple" and cb is None and i == 1 and name.split("::")[-1] in ("call_mut", "call_once", "call"):
                    # call of an opaque (boxed / dyn) closure: the resource is handed to it exactly once; what it does with it
                    # is the obligation of whoever built the closure (the closures this crate stores are subjects themselves)
                    for j, el in enumerate(agg["ops"]):
                        if is_res(body, el, res):
                            m = {1}
                            descs.append("handed to the boxed callback as parameter %d" % (2 + j))
                elif agg is not None and agg["kind"] == "adt" and (name, i) in DEFERRED_CLOSURE_CONSUMERS:
                    # a crate command struct holding the resource (`queue(RunCleanup(cleanup))`): applied once, later; what
                    # happens to the resource is what `<Struct as Command>::apply` does with that field of `self`
                    ap_ = None
                    for im in self.prog.type_impls(agg.get("adt"), "Command"):
                        for it_ in im.get("items", []):
                            if it_.get("name") == "apply":
                                ap_ = self.prog.body(it_["path"])
                    for j, el in enumerate(agg["ops"]):
                        if is_res(body, el, res) and ap_ is not None:
                            fname = (agg.get("fields") or [str(j)])[j] if j < len(agg.get("fields") or []) else str(j)
                            inner = self.summary(ap_, Res("field", fname), depth + 1)
                            m = compose({1}, inner)
                            descs.append("held by command %s queued with %s" % (agg.get("adt"), name))
                elif agg is not None and agg["kind"] == "closure":
                    cbody = self.prog.body(agg["closure"])
                    for j, cap in enumerate(agg["ops"]):
                        if is_res(body, cap, res) and cbody is not None:
                            inner = self.summary(cbody, Res("upvar", j), depth + 1)
                            # how often does the callee run this closure argument?
                            if (name, i) in DEFERRED_CLOSURE_CONSUMERS or (name, i) in INLINE_CLOSURE_CONSUMERS:
                                outer = {1}
                            elif cb is not None and self.param_res(cb, i) is not None:
                                outer = self.summary(cb, self.param_res(cb, i), depth + 1)
                            else:
                                self.unknown.append((body, b, "closure capturing the resource passed to unclassified callee %s" % (mir.fn_name(fr) if fr else "?")))
                                outer = {0, 1, 2}
                            m = compose(outer, inner)
                            descs.append("captured by closure given to %s" % name)
            if m is not None:
                total = m if total is None else add_sets(total, m)
        return total, "; ".join(descs)

    def param_res(self, cb, arg_index):
        """Res for the callee local that receives caller argument arg_index (0-based)"""
        if cb.kind == "closure":
            return None if arg_index == 0 else None
        if arg_index + 1 <= cb.arg_count:
            return Res("arg", arg_index + 1)
        return None

    def count_paths(self, body, ev, sat=2):
        seen = set()
        dq = deque([(0, 0)])
        seen.add((0, 0))
        out = set()
        while dq:
            b, c = dq.popleft()
            cs = [c]
            if b in ev:
                cs = sorted({min(sat, c + m) for m in ev[b][0]})
            for c2 in cs:
                if body.blocks[b]["term"]["k"] == "return":
                    out.add(c2)
                for s in body.succ[b]:
                    if (s, c2) not in seen:
                        seen.add((s, c2))
                        dq.append((s, c2))
        self.states += len(seen)
        return out

    def witness(self, body, res, want, sat=2):
        ev = self.events.get((body.path, res.key()), {})
        prev = {(0, 0): None}
        dq = deque([(0, 0)])
        while dq:
            b, c = dq.popleft()
            cs = [c]
            if b in ev:
                cs = sorted({min(sat, c + m) for m in ev[b][0]})
            for c2 in cs:
                if body.blocks[b]["term"]["k"] == "return" and c2 == want:
                    path = []
                    x = (b, c)
                    while x is not None:
                        path.append(x[0])
                        x = prev[x]
                    return list(reversed(path))
                for s in body.succ[b]:
                    if (s, c2) not in prev:
                        prev[(s, c2)] = (b, c)
                        dq.append((s, c2))
        return None


def add_sets(a, b, sat=2):
    return {min(sat, x + y) for x in a for y in b}


def compose(outer, inner, sat=2):
    """outer: how many times the closure is run; inner: consumptions per run"""
    out = set()
    for o in outer:
        if o == 0:
            out.add(0)
        elif o == 1:
            out |= set(inner)
        else:
            out |= {min(sat, 2 * i) if i else 0 for i in inner}
    return out

"""C09 - Depth-first telescoping order with postponed recursion (DESIGN.md section 4, C09).
Decides that nothing in this crate reorders or runs out of band."""
import mir
from mir import op_fn, origins
import lib
import loops as LP
import tables as T
import anchors as A
import core

EXPLANATION = (
    "Order is produced by Bevy's command queue; this check decides that the crate adds nothing that reorders or runs out "
    "of band: the runner is entered only from the Command::apply impls and its own replay (shared with C02.d); the "
    "functions that dispatch reactions only queue commands (they never call the runner or a Command::apply directly) and "
    "their iterators carry no order-destroying adaptor; a command is postponed only when its target is busy and the "
    "runner is nested (C02.a); the replay of postponed commands happens after the callback was re-inserted and before the "
    "return, through the runner itself; the postponed buffer is FIFO (C12.b); a run's own commands are applied after its "
    "cleanup and before it returns (C04.a).")

NOT_DECIDED = [
    "the order relation over all pairs of runs of an arbitrary tree: produced by Bevy's command queue (in-line flush of commands queued by a command), outside this crate and trusted",
    "polled removal/despawn reactions 'at any later boundary'",
]


def check(ctx):
    ctx.explanation = EXPLANATION
    ctx.not_decided = NOT_DECIDED
    prog = ctx.prog
    import c01, c02, c04, c12
    R = ctx.anchor("C09.a", lambda: A.runner(prog), "runner")
    if R is None:
        return
    # ---- C09.a in-line only ----
    n = core.adopt(ctx, c02, lambda o: o["rule"] == "C02.d", "C09.a")
    ctx.floor("C09.a", n, 15, "shared C02.d obligations (who may call the runner, one call per apply path)")
    loops = c01.dispatch_loops(ctx, prog)
    sched = {body.path: body for (body, L, ev, src) in loops}
    applies = {a.path for a in A.command_apply_impls(prog)}
    for p, body in sorted(sched.items()):
        ctx.touch(body)
        bad = []
        for b, t, fr in body.iter_calls():
            if fr is None:
                continue
            n1 = mir.fn_name(fr)
            if n1 == R.path or n1 in applies or lib.tail(n1, 2) == "Command::apply":
                bad.append((body.loc(b), n1))
        ctx.check(not bad, "C09.a", "%s:only-queues" % lib.fkey(body), "%s:%d" % (body.file, body.line),
                  "dispatch only queues commands", "a dispatch function runs a command directly instead of queueing it: %s" % bad)
    ctx.floor("C09.a", len(sched), 7, "dispatch functions")
    for (body, L, events, src) in loops:
        chains = lib.receiver_chains(body, body.blocks[L.driver]["term"]["args"][0])
        names = [n for (_, ch) in chains for n in ch]
        bad = [n for n in names if T.classify(n) == "order-destroying"]
        ctx.check(not bad, "C09.a", "%s:%s:iterates-in-registration-order" % (lib.fkey(body), c01.src_tag(src)), body.loc(L.driver),
                  "iterator chain %s" % [lib.tail(n, 1) for n in names], "dispatch iterator uses %s (reorders the runs)" % bad)
        # commands go to one queue: Commands::queue / Vec::push into the buffer that is drained in order
        for e in events:
            fr = op_fn(body.blocks[e]["term"]["func"])
            ctx.check(lib.tail(mir.fn_name(fr), 2) in ("Commands::queue", "Vec::push"), "C09.a",
                      "%s:%s:queues-at-back" % (lib.fkey(body), c01.src_tag(src)), body.loc(e), "appended at the back",
                      "reaction command is enqueued with %s" % mir.fn_name(fr))
    # ---- C09.b postponed => busy ----
    n = core.adopt(ctx, c02, lambda o: o["rule"] == "C02.a" and ("postpone" in o["key"] or ("single-disposition" in o["key"] or "dispositions=" in o["key"]) or "run-on-take-some-arm" in o["key"]), "C09.b")
    ctx.floor("C09.b", n, 3, "shared C02.a obligations")
    # ---- C09.c replay position ----
    ctx.touch(R)
    runs = lib.call_blocks(R, lib.ends(A.names(prog)["callback_run"]))
    inserts = lib.call_blocks(R, lib.ends(A.names(prog)["storage_insert"]))
    q = A.names(prog)["queue_type"]
    removes = [b for b in lib.call_blocks(R, lambda n: lib.tail(n, 2) == A.names(prog)["queue_detach"]) if any(R.dominates(r, b) for r in runs)]
    retains = [b for b, t, fr in R.iter_calls() if fr and mir.strip_generics(mir.fn_name(fr)).endswith(("VecDeque::retain", "VecDeque::retain_mut"))]
    # loop form of the replay (position scan, validated by C02.c): the replay sites are the runner's calls of itself
    retains += [b for b, t, fr in R.iter_calls() if fr and mir.fn_name(fr) == R.path]
    ok = bool(removes) and bool(inserts) and bool(retains)
    if ok:
        for ib in inserts:
            ok = ok and any(rb in R.reach_from(ib) for rb in retains)
        for rb in retains:
            ok = ok and not any(ib in R.reach_from(rb) for ib in inserts)
            ok = ok and any(R.dominates(r, rb) for r in runs)
    ctx.check(ok, "C09.c", "runner:replay-after-reinsertion", R.loc(retains[0]) if retains else "%s:%d" % (R.file, R.line),
              "replay is reachable from every re-insertion and no re-insertion follows it",
              "postponed commands are replayed before the finished system was re-inserted (they would be postponed again or discarded)")
    n = core.adopt(ctx, c02, lambda o: o["rule"] == "C02.c", "C09.c")      # the whole postponed-recursion replay (present, on every run path, per-element obligations)
    ctx.floor("C09.c", n, 4, "shared replay-closure obligations")
    import c08
    n = core.adopt(ctx, c08, lambda o: o["rule"] == "C08.e" and ("runner:" in o["key"] or "poll:" in o["key"]), "C09.c")
    n += core.adopt(ctx, c01, lambda o: o["rule"] == "C01.b" and ("schedule_removal_reactions" in o["key"] or "schedule_despawn_reactions" in o["key"]), "C09.c")
    ctx.floor("C09.c", n, 10, "shared poll obligations (C08.e, C01.b): everything detected at a boundary is dispatched at that boundary")
    # ... which needs every removal checker to be polled at every boundary (a poll that stops at the first idle checker leaves
    # the later ones' removals for some later tree; shared with C08.d)
    n = core.adopt(ctx, c08, lambda o: o["rule"] == "C08.d" and ("every-checker-is-polled" in o["key"] or "dispatches-what-the-checker-returned" in o["key"]), "C09.f")
    ctx.floor("C09.f", n, 2, "shared removal-checker poll obligations (C08.d)")
    # ---- C09.d FIFO buffer ----
    n = core.adopt(ctx, c12, lambda o: o["rule"] in ("C12.a", "C12.b", "C12.c"), "C09.d")
    ctx.floor("C09.d", n, 8, "shared C12.b/c obligations")
    # ---- C09.e own commands after cleanup, before return ----
    n = core.adopt(ctx, c04, lambda o: o["rule"] == "C04.a", "C09.e")
    ctx.floor("C09.e", n, 6, "shared C04.a obligations")

"""Anchor resolution (DESIGN.md section 2, 'Anchors'): subjects of the rules are found by role wherever the role is
expressible in types / public API, by a short frozen table of crate-internal names otherwise.
Every resolver raises mir.AnchorLost when its subject cannot be found (rules then fail closed)."""
import re

import mir
from mir import op_fn, strip_generics, AnchorLost, fn_name
import lib


# Frozen internal names (role query not unambiguous). One line of reason each.
TABLE = {
    # the per-run callback type: found by name because `run` on a boxed FnMut has no distinguishing signature
    "callback_run": "SystemCommandCallback::run",
    "storage_take": "SystemCommandStorage::take",
    "storage_insert": "SystemCommandStorage::insert",
    # the postponed-command queue methods
    "queue_type": "CobwebCommandQueue",
    # tree-depth counter resource
    "counter_type": "SyscommandCounter",
    "gc": "garbage_collect_entities",
    "poll": "schedule_removal_and_despawn_reactors",
}


_NAMES_CACHE = {}


def names(prog):
    """TABLE with every entry resolved by role where a role is expressible, the frozen name otherwise. A private item may
    be renamed freely; what identifies it is what it does with which types:

    * storage_take / storage_insert: the inherent methods of the crate type that stores an `Option<SystemCommandCallback>`
      (public type name) returning `Option<SystemCommandCallback>` from `&mut self` / accepting a `SystemCommandCallback`;
    * queue_type: the crate resource with a `VecDeque<T>` field that the runner obtains with `resource_mut`;
    * queue_push / queue_pop / queue_detach / queue_attach: its methods by signature role (rules/seqalg.py);
    * counter_type: the crate resource wrapping a single `usize` that the runner reads and writes."""
    key = id(prog)
    if key in _NAMES_CACHE and _NAMES_CACHE[key][0] is prog:
        return _NAMES_CACHE[key][1]
    out = dict(TABLE)
    out.update({"queue_push": TABLE["queue_type"] + "::push", "queue_pop": TABLE["queue_type"] + "::pop_front",
                "queue_detach": TABLE["queue_type"] + "::remove", "queue_attach": TABLE["queue_type"] + "::append",
                "queue_field": "commands"})
    # -- callback storage
    takes, inserts = [], []
    for b in prog.bodies:
        if b.kind != "assoc_fn" or b.raw.get("impl_trait"):
            continue
        ret = b.local_ty(0)
        if b.arg_count == 1 and ret.startswith("core::option::Option<") and ret.rstrip(">").endswith("SystemCommandCallback") and b.local_ty(1).startswith("&mut "):
            takes.append(b)
        if b.arg_count == 2 and ret == "()" and b.local_ty(2).endswith("SystemCommandCallback") and b.local_ty(1).startswith("&mut "):
            inserts.append(b)
    pairs = [(t, i) for t in takes for i in inserts if t.raw.get("impl_self") == i.raw.get("impl_self")]
    if len(pairs) == 1:
        out["storage_take"] = lib.tail(pairs[0][0].path, 2)
        out["storage_insert"] = lib.tail(pairs[0][1].path, 2)
    # -- queue and counter, seen from the runner
    try:
        r = runner(prog)
    except AnchorLost:
        r = None
    res_types = set()
    if r is not None:
        for f in [r] + [c for c in prog.bodies if c.kind == "closure" and c.raw.get("root") == r.path]:
            for b, t, fr in f.iter_calls():
                if fr and lib.tail(fn_name(fr), 1) in ("resource_mut", "resource", "get_resource_mut", "get_resource"):
                    for a in fr.get("args", []):
                        res_types.add(re.sub(r"<.*$", "", a))
    qs, cs = [], []
    for p, adt in prog.adts.items():
        if p not in res_types or adt.get("kind") != "Struct":
            continue
        ftys = [f["ty"] for f in adt["variants"][0]["fields"]]
        if any(t.startswith("alloc::collections::vec_deque::VecDeque<") for t in ftys):
            qs.append((p, adt))
        if ftys == ["usize"]:
            cs.append(p)
    if len(qs) == 1:
        qpath, qadt = qs[0]
        qn = qpath.split("::")[-1]
        out["queue_type"] = qn
        for f in qadt["variants"][0]["fields"]:
            if f["ty"].startswith("alloc::collections::vec_deque::VecDeque<"):
                out["queue_field"] = f["name"]
        import seqalg
        roles = {}
        for m in methods_of(prog, qn):
            try:
                role = seqalg.role_of(m)
            except Exception:
                role = None
            roles.setdefault(role, []).append(m)
        for role, k in (("push", "queue_push"), ("pop", "queue_pop"), ("detach", "queue_detach"), ("attach", "queue_attach")):
            if len(roles.get(role, [])) == 1:
                out[k] = lib.tail(roles[role][0].path, 2)
            else:
                out[k] = qn + "::" + out[k].split("::")[-1]
    if len(cs) == 1:
        out["counter_type"] = cs[0].split("::")[-1]
    # -- setup / cleanup carriers: the types of the runner's 3rd and 4th parameters
    out.update({"setup_type": "SystemCommandSetup", "cleanup_type": "SystemCommandCleanup"})
    if r is not None and r.arg_count >= 4:
        out["setup_type"] = re.sub(r"<.*$", "", r.local_ty(3)).split("::")[-1]
        out["cleanup_type"] = re.sub(r"<.*$", "", r.local_ty(4)).split("::")[-1]
    for k, ty in (("setup", out["setup_type"]), ("cleanup", out["cleanup_type"])):
        out[k + "_run"], out[k + "_new"] = ty + "::run", ty + "::new"
        try:
            consume, construct = carrier_methods(prog, ty)
            out[k + "_run"], out[k + "_new"] = lib.tail(consume.path, 2), lib.tail(construct.path, 2)
        except AnchorLost:
            pass
    _NAMES_CACHE.clear()
    _NAMES_CACHE[key] = (prog, out)
    return out


def command_apply_impls(prog):
    """bodies of `<T as bevy_ecs::world::Command>::apply` for crate types"""
    out = []
    for b in prog.bodies:
        if b.kind == "assoc_fn" and b.raw.get("name") == "apply" and (b.raw.get("impl_trait") or "").endswith("world::Command"):
            out.append(b)
    return out


def apply_impl(prog, self_suffix):
    r = [b for b in command_apply_impls(prog) if re.sub(r"<.*$", "", b.raw.get("impl_self", "")).endswith(self_suffix)]
    if len(r) != 1:
        raise AnchorLost("Command::apply impl for %s: %d matches" % (self_suffix, len(r)))
    return r[0]


def runner(prog):
    """role: the unique crate function called from <SystemCommand as Command>::apply that takes
    (&mut World, SystemCommand, _, _)"""
    ap = apply_impl(prog, "SystemCommand")
    cands = []
    for b, t, fr in ap.iter_calls():
        if fr is None:
            continue
        body = prog.resolve_local(fr)
        if body is None or body.arg_count != 4:
            continue
        if "World" in body.local_ty(1) and body.local_ty(2).endswith("SystemCommand"):
            cands.append(body)
    cands = list({c.path: c for c in cands}.values())
    if len(cands) != 1:
        raise AnchorLost("runner: %d candidates called from SystemCommand::apply" % len(cands))
    return cands[0]


def abort_helper(prog):
    """role: the unique crate function, other than the runner, called from the runner with
    (&mut World, <setup type>, <cleanup type>) where the types are the runner's 3rd and 4th parameter types"""
    r = runner(prog)
    st, ct = r.local_ty(3), r.local_ty(4)
    cands = {}
    for b, t, fr in r.iter_calls():
        if fr is None:
            continue
        body = prog.resolve_local(fr)
        if body is None or body.path == r.path or body.arg_count < 3:
            continue
        # the world, exactly one setup and one cleanup; further parameters may only be labels / ids (`ctx: &'static str`, a
        # flag, the command's own id): they do not change the role
        tys_ = [body.local_ty(i) for i in range(1, body.arg_count + 1)]
        others_ = [t_ for t_ in tys_[1:] if t_ not in (st, ct)]
        extra_ok = all(t_.replace("'static ", "").replace("'_ ", "") in ("&str", "bool", "usize", "u32", "u8", "u64", "i32")
                       or t_.endswith(("::SystemCommand", "entity::Entity")) for t_ in others_)
        if "World" in tys_[0] and tys_.count(st) == 1 and tys_.count(ct) == 1 and extra_ok:
            cands[body.path] = body
    if len(cands) != 1:
        raise AnchorLost("abort helper: %d candidates" % len(cands))
    return list(cands.values())[0]


def abort_positions(prog):
    """(index of the setup parameter, index of the cleanup parameter) of the abort helper (1-based parameter numbers)"""
    r = runner(prog)
    h = abort_helper(prog)
    tys_ = [h.local_ty(i) for i in range(1, h.arg_count + 1)]
    return tys_.index(r.local_ty(3)) + 1, tys_.index(r.local_ty(4)) + 1


def replay_closures(prog):
    """closures defined inside the runner that call the runner"""
    r = runner(prog)
    out = []
    for c in prog.bodies:
        if c.kind == "closure" and c.raw.get("root") == r.path:
            if c.calls_named(lambda n: n == r.path):
                out.append(c)
    return out


def method(prog, type_suffix, name):
    """inherent method `name` of the crate type whose path ends with type_suffix"""
    out = []
    for b in prog.bodies:
        if b.kind != "assoc_fn" or b.raw.get("name") != name or b.raw.get("impl_trait"):
            continue
        st = re.sub(r"<.*$", "", b.raw.get("impl_self", ""))
        if st.endswith("::" + type_suffix) or st == type_suffix:
            out.append(b)
    if len(out) == 0:
        r = _renamed_method(prog, type_suffix, name)
        if r is not None:
            return r
    if len(out) != 1:
        raise AnchorLost("method %s::%s: %d matches" % (type_suffix, name, len(out)))
    return out[0]


_SIGS = None


def _renamed_method(prog, type_suffix, name):
    """a crate-private method that was only renamed: the pinned `Type::name` is gone, and exactly one method of the type that
    is not a pinned method has the pinned method's parameter and return types (rules/signatures.json, rules/vocabulary.json)"""
    global _SIGS
    import inline
    if _SIGS is None:
        _SIGS = (inline.load_sigs(), inline.load_vocab())
    sigs, vocab = _SIGS
    pinned = [k for k in sigs if k.endswith("::%s::%s" % (type_suffix, name)) and not k.startswith("<")]
    if len(pinned) != 1:
        return None
    want = [inline._strip_paths(inline._canon_generic(x)) for x in sigs[pinned[0]]]
    try:
        import json as _json, os as _os
        with open(_os.path.join(_os.path.dirname(_os.path.abspath(__file__)), "returns.json")) as fh:
            want_ret = _json.load(fh).get(pinned[0])
    except OSError:
        want_ret = None
    if want_ret is None:
        return None
    want_ret = inline._strip_paths(inline._canon_generic(want_ret))
    cands = []
    for b in methods_of(prog, type_suffix):
        if mir.strip_generics(b.path) in vocab or b.raw.get("reachable") is True:
            continue
        cs = [inline._strip_paths(inline._canon_generic(b.local_ty(i))) for i in range(1, b.arg_count + 1)]
        if cs == want and inline._strip_paths(inline._canon_generic(b.local_ty(0))) == want_ret:
            cands.append(b)
    if not cands:
        # ... or the receiver of a `Copy` type taken by value instead of by reference (the view has already restored the pinned
        # parameter order of a renamed method, `inline.RENAMED`)
        unref = lambda t_: re.sub(r"^&(?:'\w+ )?(?:mut )?", "", t_)
        for b in methods_of(prog, type_suffix):
            if mir.strip_generics(b.path) in vocab or b.raw.get("reachable") is True or inline.RENAMED.get(mir.strip_generics(b.path)) != pinned[0]:
                continue
            cs = [inline._strip_paths(inline._canon_generic(b.local_ty(i))) for i in range(1, b.arg_count + 1)]
            if [unref(x) for x in cs] == [unref(x) for x in want] and inline._strip_paths(inline._canon_generic(b.local_ty(0))) == want_ret:
                cands.append(b)
    return cands[0] if len(cands) == 1 else None


def methods_of(prog, type_suffix):
    out = []
    for b in prog.bodies:
        if b.kind != "assoc_fn" or b.raw.get("impl_trait"):
            continue
        st = re.sub(r"<.*$", "", b.raw.get("impl_self", ""))
        if st.endswith("::" + type_suffix) or st == type_suffix:
            out.append(b)
    return out


def trait_method(prog, type_suffix, trait_suffix, name):
    out = []
    for b in prog.bodies:
        if b.kind != "assoc_fn" or b.raw.get("name") != name:
            continue
        if not (b.raw.get("impl_trait") or "").endswith(trait_suffix):
            continue
        st = re.sub(r"<.*$", "", b.raw.get("impl_self", ""))
        if st.endswith("::" + type_suffix) or st == type_suffix:
            out.append(b)
    if len(out) != 1:
        raise AnchorLost("<%s as %s>::%s: %d matches" % (type_suffix, trait_suffix, name, len(out)))
    return out[0]


def carrier_methods(prog, type_suffix):
    """role: (consume, construct) of a setup/cleanup carrier type: the inherent method taking (self by value, &mut World)
    and the associated fn without a self parameter that returns the type"""
    ms = methods_of(prog, type_suffix)
    # (self by value, &mut World[, the command's id / a label]) -> ()
    consume = [m for m in ms if m.arg_count >= 2 and re.sub(r"<.*$", "", m.local_ty(1)).endswith("::" + type_suffix) and "World" in m.local_ty(2) and m.local_ty(0) == "()"
               and all(m.local_ty(i).endswith(("::SystemCommand", "entity::Entity")) or m.local_ty(i).replace("'static ", "") in ("&str", "bool", "usize")
                       for i in range(3, m.arg_count + 1))]
    construct = [m for m in ms if re.sub(r"<.*$", "", m.local_ty(0)).endswith("::" + type_suffix) and m.arg_count >= 1
                 and not any(type_suffix in m.local_ty(i) for i in range(1, m.arg_count + 1))]
    if len(consume) != 1 or len(construct) != 1:
        raise AnchorLost("carrier methods of %s: %d consumers, %d constructors" % (type_suffix, len(consume), len(construct)))
    return consume[0], construct[0]


def entity_scheduler(prog):
    """role: the shared entity-scoped scheduler - the unique crate function (free fn or method) that receives an
    `EntityReactors` (by reference or as self), an `Entity` and an `EntityReactionType` and does not look the reactors up
    itself. Returns (body, index of the Entity parameter, index of the EntityReactors parameter)."""
    cands = []
    for b in prog.bodies:
        if b.kind not in ("fn", "assoc_fn") or b.raw.get("impl_trait"):
            continue
        tys = [b.local_ty(i) for i in range(1, b.arg_count + 1)]
        ent = [i + 1 for i, t in enumerate(tys) if t.endswith("entity::Entity")]
        rea = [i + 1 for i, t in enumerate(tys) if re.sub(r"^&(mut )?", "", t).endswith("::EntityReactors")]
        rty = [i + 1 for i, t in enumerate(tys) if t.endswith("::EntityReactionType")]
        buf = [i + 1 for i, t in enumerate(tys) if "ReactionCommand" in t or t.endswith("Commands<'_, '_>")]
        if len(ent) == 1 and len(rea) == 1 and len(rty) == 1 and buf:
            cands.append((b, ent[0], rea[0]))
    if len(cands) != 1:
        raise AnchorLost("shared entity scheduler: %d candidates" % len(cands))
    return cands[0]


def signal_payload_name(prog):
    """role: the private payload type behind the auto-despawn handle - the `T` of `AutoDespawnSignal(Arc<T>)`"""
    try:
        sig = prog.adt_by_name("AutoDespawnSignal")
        for f in sig["variants"][0]["fields"]:
            m = re.match(r"^alloc::sync::Arc<([\w:]+)(?:,.*)?>$", f["ty"])
            if m and m.group(1) in prog.adts:
                return m.group(1).split("::")[-1]
    except (AnchorLost, KeyError, IndexError):
        pass
    return "AutoDespawnSignalInner"


def entity_reactors_field(prog):
    """role: the list field of EntityReactors (its only container field; the private name may change)"""
    try:
        ad = prog.adt_by_name("EntityReactors")
        fs = [f["name"] for f in ad["variants"][0]["fields"] if re.match(r"^(smallvec::SmallVec|alloc::vec::Vec|alloc::collections::vec_deque::VecDeque)<", f["ty"])]
        if len(fs) == 1:
            return fs[0]
    except (AnchorLost, KeyError, IndexError):
        pass
    return "reactors"


def free_fn(prog, name):
    out = [b for b in prog.bodies if b.kind == "fn" and b.raw.get("name") == name]
    if len(out) != 1:
        raise AnchorLost("fn %s: %d matches" % (name, len(out)))
    return out[0]


def tracker_types(prog):
    """role: the T of every World::resource_mut::<T>() whose result receives a `prepare` call inside a
    Command::apply body of this crate. Returns {adt path: set(apply body paths)}"""
    out = {}
    for ap in command_apply_impls(prog):
        for b, t, fr in ap.iter_calls():
            if fr is None:
                continue
            body = prog.resolve_local(fr)
            if body is None or body.raw.get("name") != "prepare":
                continue
            st = re.sub(r"<.*$", "", body.raw.get("impl_self", ""))
            out.setdefault(st, set()).add(ap.path)
    if not out:
        raise AnchorLost("no tracker types (no `prepare` call in any Command::apply)")
    return out


def release_helper(prog):
    """role: the unique crate function (world, entity) that receives the entity returned by a tracker's end()"""
    trackers = tracker_types(prog)
    cands = {}
    for ty in trackers:
        tname = ty.split("::")[-1]
        try:
            end = method(prog, tname, "end")
        except AnchorLost:
            continue
        if end.local_ty(0) == "()":
            continue
        for (body, b, t, fr) in prog.callers_of(lambda n: n == end.path):
            for b2, t2, fr2 in body.iter_calls():
                if fr2 is None or b2 == b:
                    continue
                cb = prog.resolve_local(fr2)
                if cb is None or cb.arg_count != 2 or not cb.local_ty(2).endswith("entity::Entity"):
                    continue
                if any(lib.originates_from_call(body, a, b) for a in t2["args"]):
                    cands[cb.path] = cb
    if len(cands) != 1:
        raise AnchorLost("release helper: %d candidates" % len(cands))
    return list(cands.values())[0]

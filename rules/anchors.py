"""Anchor resolution (DESIGN.md section 2, 'Anchors'): subjects of the rules are found by role wherever the role is
expressible in types / public API, by a short frozen table of crate-internal names otherwise.
Every resolver raises mir.AnchorLost when its subject cannot be found (rules then fail closed)."""
import re

import mir
from mir import op_fn, strip_generics, AnchorLost
import lib


# Frozen internal names (role query not unambiguous). One line of reason each.
TABLE = {
    # the per-run callback type: found by name because `run` on a boxed FnMut has no distinguishing signature
    "callback_run": "SystemCommandCallback::run",
    "storage_take": "SystemCommandStorage::take",
    "storage_insert": "SystemCommandStorage::insert",
    # the postponed-command queue methods
    "queue_type": "CobwebCommandQueue",
    # tree-depth counter resource
    "counter_type": "SyscommandCounter",
    "gc": "garbage_collect_entities",
    "poll": "schedule_removal_and_despawn_reactors",
}


def command_apply_impls(prog):
    """bodies of `<T as bevy_ecs::world::Command>::apply` for crate types"""
    out = []
    for b in prog.bodies:
        if b.kind == "assoc_fn" and b.raw.get("name") == "apply" and (b.raw.get("impl_trait") or "").endswith("world::Command"):
            out.append(b)
    return out


def apply_impl(prog, self_suffix):
    r = [b for b in command_apply_impls(prog) if re.sub(r"<.*$", "", b.raw.get("impl_self", "")).endswith(self_suffix)]
    if len(r) != 1:
        raise AnchorLost("Command::apply impl for %s: %d matches" % (self_suffix, len(r)))
    return r[0]


def runner(prog):
    """role: the unique crate function called from <SystemCommand as Command>::apply that takes
    (&mut World, SystemCommand, _, _)"""
    ap = apply_impl(prog, "SystemCommand")
    cands = []
    for b, t, fr in ap.iter_calls():
        if fr is None:
            continue
        body = prog.resolve_local(fr)
        if body is None or body.arg_count != 4:
            continue
        if "World" in body.local_ty(1) and body.local_ty(2).endswith("SystemCommand"):
            cands.append(body)
    cands = list({c.path: c for c in cands}.values())
    if len(cands) != 1:
        raise AnchorLost("runner: %d candidates called from SystemCommand::apply" % len(cands))
    return cands[0]


def abort_helper(prog):
    """role: the unique crate function, other than the runner, called from the runner with
    (&mut World, <setup type>, <cleanup type>) where the types are the runner's 3rd and 4th parameter types"""
    r = runner(prog)
    st, ct = r.local_ty(3), r.local_ty(4)
    cands = {}
    for b, t, fr in r.iter_calls():
        if fr is None:
            continue
        body = prog.resolve_local(fr)
        if body is None or body.path == r.path or body.arg_count != 3:
            continue
        if "World" in body.local_ty(1) and body.local_ty(2) == st and body.local_ty(3) == ct:
            cands[body.path] = body
    if len(cands) != 1:
        raise AnchorLost("abort helper: %d candidates" % len(cands))
    return list(cands.values())[0]


def replay_closures(prog):
    """closures defined inside the runner that call the runner"""
    r = runner(prog)
    out = []
    for c in prog.bodies:
        if c.kind == "closure" and c.raw.get("root") == r.path:
            if c.calls_named(lambda n: n == r.path):
                out.append(c)
    return out


def method(prog, type_suffix, name):
    """inherent method `name` of the crate type whose path ends with type_suffix"""
    out = []
    for b in prog.bodies:
        if b.kind != "assoc_fn" or b.raw.get("name") != name or b.raw.get("impl_trait"):
            continue
        st = re.sub(r"<.*$", "", b.raw.get("impl_self", ""))
        if st.endswith("::" + type_suffix) or st == type_suffix:
            out.append(b)
    if len(out) != 1:
        raise AnchorLost("method %s::%s: %d matches" % (type_suffix, name, len(out)))
    return out[0]


def methods_of(prog, type_suffix):
    out = []
    for b in prog.bodies:
        if b.kind != "assoc_fn" or b.raw.get("impl_trait"):
            continue
        st = re.sub(r"<.*$", "", b.raw.get("impl_self", ""))
        if st.endswith("::" + type_suffix) or st == type_suffix:
            out.append(b)
    return out


def trait_method(prog, type_suffix, trait_suffix, name):
    out = []
    for b in prog.bodies:
        if b.kind != "assoc_fn" or b.raw.get("name") != name:
            continue
        if not (b.raw.get("impl_trait") or "").endswith(trait_suffix):
            continue
        st = re.sub(r"<.*$", "", b.raw.get("impl_self", ""))
        if st.endswith("::" + type_suffix) or st == type_suffix:
            out.append(b)
    if len(out) != 1:
        raise AnchorLost("<%s as %s>::%s: %d matches" % (type_suffix, trait_suffix, name, len(out)))
    return out[0]


def free_fn(prog, name):
    out = [b for b in prog.bodies if b.kind == "fn" and b.raw.get("name") == name]
    if len(out) != 1:
        raise AnchorLost("fn %s: %d matches" % (name, len(out)))
    return out[0]


def tracker_types(prog):
    """role: the T of every World::resource_mut::<T>() whose result receives a `prepare` call inside a
    Command::apply body of this crate. Returns {adt path: set(apply body paths)}"""
    out = {}
    for ap in command_apply_impls(prog):
        for b, t, fr in ap.iter_calls():
            if fr is None:
                continue
            body = prog.resolve_local(fr)
            if body is None or body.raw.get("name") != "prepare":
                continue
            st = re.sub(r"<.*$", "", body.raw.get("impl_self", ""))
            out.setdefault(st, set()).add(ap.path)
    if not out:
        raise AnchorLost("no tracker types (no `prepare` call in any Command::apply)")
    return out


def release_helper(prog):
    """role: the unique crate function (world, entity) that receives the entity returned by a tracker's end()"""
    trackers = tracker_types(prog)
    cands = {}
    for ty in trackers:
        tname = ty.split("::")[-1]
        try:
            end = method(prog, tname, "end")
        except AnchorLost:
            continue
        if end.local_ty(0) == "()":
            continue
        for (body, b, t, fr) in prog.callers_of(lambda n: n == end.path):
            for b2, t2, fr2 in body.iter_calls():
                if fr2 is None or b2 == b:
                    continue
                cb = prog.resolve_local(fr2)
                if cb is None or cb.arg_count != 2 or not cb.local_ty(2).endswith("entity::Entity"):
                    continue
                if any(lib.originates_from_call(body, a, b) for a in t2["args"]):
                    cands[cb.path] = cb
    if len(cands) != 1:
        raise AnchorLost("release helper: %d candidates" % len(cands))
    return list(cands.values())[0]

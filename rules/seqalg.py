"""A10 - sequence algebra: symbolic execution of the small, loop-free methods of a FIFO wrapper type over the MIR facts.

Every container-typed place (a field of `self`, a by-value argument, a local) holds a *symbolic sequence*: a tuple of
atoms (`S:<field>` = the field's content on entry, `N<k>` = the content of by-value container argument k,
`e<k>` = the single element passed as argument k).  std container calls are interpreted by their contract
(`append`: a := a ++ b, b := []; `mem::swap`; `mem::replace`; `mem::take`; `push_back`; `push_front`; `clear`; ...),
branches on `len()` / `is_empty()` refine the path (an atom known to be empty is erased everywhere), and every
entry->return path of the method yields (final field contents, returned value, values stored into the spare-buffer pool).
Rules then compare these with the contract of the method's *role*, which is derived from its signature:

    attach   (self, Seq) -> ()        fields' = S ++ N           (existing commands stay in front)
    detach   (self)      -> Seq       ret = S, fields' = []
    push     (self, T)   -> ()        fields' = S ++ [e]
    pop      (self)      -> Option<T> ret = pop_front(S), fields' = rest(S)
    attach+detach (self, Seq) -> Seq  ret = S ++ N, fields' = []

and, for every role, "whatever is stored into the pool of spare buffers is empty on that path" (that is what lets
`detach` treat a popped spare as the empty sequence).  A call the table does not know that touches a tracked container
makes the path inconclusive (reported as such by the caller, never silently passed).

This is static: nothing is executed; the facts are the MIR of /repo's current tree.
"""
import re
import mir
from mir import op_place, op_const, fn_name, strip_generics

TOP = ("top",)
MAX_PATHS = 256


def _is_container_ty(ty):
    ty = ty.replace("&mut ", "").replace("&", "").strip()
    return bool(re.match(r"^(alloc::collections::vec_deque::VecDeque|alloc::vec::Vec|smallvec::SmallVec)<", ty))


def _is_pool_ty(ty):
    ty = ty.strip()
    m = re.match(r"^(alloc::vec::Vec|alloc::collections::vec_deque::VecDeque|smallvec::SmallVec)<(.*)>$", ty)
    if not m:
        return False
    inner = m.group(2)
    am = re.match(r"^\[(.*); [^;\]]+\]$", inner)      # SmallVec<[Elem; N]>
    if am:
        inner = am.group(1)
    return _is_container_ty(inner)


def tail2(n):
    sp = strip_generics(n)
    m = re.match(r"^<(.+?) as (.+?)>::(.+)$", sp)
    if m:
        ty = m.group(1).split("<")[0].split("::")[-1]
        tr = m.group(2).split("<")[0].split("::")[-1]
        return "%s::%s" % (tr if ty in ("T", "Self") else ty, m.group(3).split("::")[-1])
    return "::".join(sp.split("::")[-2:])


class Inconclusive(Exception):
    pass


class State:
    __slots__ = ("env", "fields", "empty", "nonempty", "stores", "unknown", "visited", "drops")

    def __init__(self):
        self.env = {}        # local -> value
        self.fields = {}     # field name -> value (lazily initialised)
        self.empty = set()
        self.nonempty = set()
        self.stores = []     # (pool field, value, loc)
        self.unknown = []    # (callee, loc)
        self.visited = ()
        self.drops = []

    def clone(self):
        s = State()
        s.env = dict(self.env)
        s.fields = dict(self.fields)
        s.empty = set(self.empty)
        s.nonempty = set(self.nonempty)
        s.stores = list(self.stores)
        s.unknown = list(self.unknown)
        s.visited = self.visited
        s.drops = list(self.drops)
        return s


def seq(*atoms):
    return ("seq", tuple(atoms))


class Interp:
    def __init__(self, prog, body, adt, depth=0, prefix=""):
        self.prog = prog
        self.body = body
        self.adt = adt            # ADT fact of the wrapper type (or of a nested crate object held in one of its fields)
        self.depth = depth
        self.prefix = prefix      # field-name prefix of a nested object: its fields live in the same state as `<prefix><name>`
        self.ftypes = {}
        for v in adt["variants"]:
            for f in v["fields"]:
                self.ftypes[prefix + f["name"]] = f["ty"]
        self.paths = 0
        self.loop_at = {h: blocks for h, blocks, _ in body.loops()}

    # ---- transfer loops ----------------------------------------------------------------------------------------
    def _loop_def(self, blocks, local):
        """the unique plain assignment to `local` inside the loop"""
        found = []
        for b in sorted(blocks):
            for s in self.body.blocks[b]["stmts"]:
                if s["k"] == "assign" and not s["place"]["p"] and s["place"]["l"] == local:
                    found.append(s["rv"])
        return found[0] if len(found) == 1 else None

    def _loop_place(self, st, blocks, op, depth=0):
        """container key an in-loop reference operand points to"""
        p = op_place(op)
        if p is None or depth > 4:
            return None
        if not p["p"]:
            rv = self._loop_def(blocks, p["l"])
            if rv is None:
                v = st.env.get(p["l"])
                return v[1] if v is not None and v[0] == "ref" else (("L", p["l"]) if v is not None and v[0] in ("iterseq",) else None)
            if "ref" in rv:
                q = rv["ref"]
                if q["p"] and q["p"][0] == "deref" and len(q["p"]) == 1:
                    return self._loop_place(st, blocks, {"copy": {"l": q["l"], "p": []}}, depth + 1)
                return self.key_of(st, q)
            if "use" in rv:
                return self._loop_place(st, blocks, rv["use"], depth + 1)
        return None

    def _flows_from(self, blocks, op, src_local, depth=0):
        p = op_place(op)
        if p is None or depth > 6:
            return False
        if p["l"] == src_local:
            return True
        if p["p"] and not all(isinstance(e, dict) and ("downcast" in e or "f" in e) for e in p["p"]):
            return False
        rv = self._loop_def(blocks, p["l"])
        return bool(rv and "use" in rv and self._flows_from(blocks, rv["use"], src_local, depth + 1))

    def summarise_loop(self, st, header, blocks):
        """`while let Some(x) = A.pop_*() { B.push_*(x) }` and `for x in <drained/moved A> { B.push_*(x) }`
        are summarised as one transfer; anything else is inconclusive"""
        calls = []
        for b in sorted(blocks):
            t = self.body.blocks[b]["term"]
            if t["k"] == "call":
                fr = mir.op_fn(t["func"]) if t.get("func") else None
                calls.append((b, t, tail2(fn_name(fr)).split("::")[-1] if fr else "<indirect>"))
        src = [c for c in calls if c[2] in ("pop_front", "pop_back", "next", "next_back")]
        snk = [c for c in calls if c[2] in ("push_back", "push_front", "push")]
        rest = [c for c in calls if c not in src and c not in snk and c[2] not in ("deref", "deref_mut")]
        exits = sorted({s for b in blocks for s in self.body.succ[b] if s not in blocks})
        if len(src) != 1 or len(snk) != 1 or rest or len(exits) != 1:
            raise Inconclusive("loop at bb%d is not a plain transfer loop" % header)
        (sb, stm, smeth), (kb, ktm, kmeth) = src[0], snk[0]
        a_key = self._loop_place(st, blocks, stm["args"][0])
        b_key = self._loop_place(st, blocks, ktm["args"][0])
        a_val = self.load(st, a_key)
        b_val = self.load(st, b_key)
        if a_val is None or b_val is None or b_val[0] != "seq" or a_val[0] not in ("seq", "iterseq") or \
           len(ktm["args"]) < 2 or not self._flows_from(blocks, ktm["args"][1], stm["dest"]["l"]) or a_key == b_key:
            raise Inconclusive("loop at bb%d: source/sink of the transfer not resolved" % header)
        atoms = a_val[1]
        if smeth in ("pop_back", "next_back") and atoms:
            atoms = (("rev", atoms),)
        if kmeth == "push_front":
            atoms = (("rev", atoms),) if atoms and not (len(atoms) == 1 and isinstance(atoms[0], tuple) and atoms[0][0] == "rev") else \
                (atoms[0][1] if atoms else ())
            self.store(st, b_key, ("seq", tuple(atoms) + b_val[1]))
        else:
            self.store(st, b_key, ("seq", b_val[1] + tuple(atoms)))
        self.store(st, a_key, seq() if a_val[0] == "seq" else ("iterseq", ()))
        st.visited = st.visited + tuple(sorted(blocks))
        return exits[0]

    # ---- places ------------------------------------------------------------------------------------------------
    def field_init(self, name):
        ty = self.ftypes.get(name, "")
        if _is_pool_ty(ty):
            return ("pool", name)
        if _is_container_ty(ty):
            return seq("S:" + name)
        if self._crate_adt(ty) is not None:
            return ("obj", name)
        return ("opaque", "S:" + name)

    def _crate_adt(self, ty):
        base = re.sub(r"<.*$", "", ty.strip())
        return self.prog.adts.get(base)

    def key_of(self, st, place):
        """resolve a MIR place to ('L', n) | ('F', name) | None"""
        l = place["l"]
        projs = place["p"]
        base = ("L", l)
        i = 0
        while i < len(projs):
            e = projs[i]
            if e == "deref":
                v = st.env.get(base[1]) if base[0] == "L" else None
                if v is not None and v[0] == "ref":
                    base = v[1]
                elif v is not None and v[0] == "self":
                    base = ("SELF",)
                else:
                    return None
            elif isinstance(e, dict) and "f" in e:
                if base == ("SELF",):
                    base = ("F", self.prefix + e.get("name"))
                elif base[0] in ("L", "F", "D"):
                    base = ("P", base, e.get("name") if e.get("name") is not None else e["f"])
                else:
                    return None
            elif isinstance(e, dict) and "downcast" in e:
                base = ("D", base, e.get("name") or e["downcast"])
            else:
                return None
            i += 1
        return base

    def load(self, st, key):
        if key is None:
            return None
        if key[0] == "L":
            return st.env.get(key[1])
        if key[0] == "F":
            if key[1] not in st.fields:
                st.fields[key[1]] = self.field_init(key[1])
            return st.fields[key[1]]
        if key[0] == "SELF":
            return ("selfval",)
        if key[0] == "P":
            inner = self.load(st, key[1])
            if inner is not None and inner[0] == "optspare":
                return seq()
            if inner is not None and inner[0] == "some":
                return inner[1]
            return None
        if key[0] == "D":
            return self.load(st, key[1])
        return None

    def store(self, st, key, val):
        if key is None:
            return
        if key[0] == "L":
            st.env[key[1]] = val
        elif key[0] == "F":
            st.fields[key[1]] = val

    def val(self, st, op):
        p = op_place(op)
        if p is not None:
            return self.load(st, self.key_of(st, p))
        c = op_const(op)
        if c is not None and "val" in c:
            try:
                return ("const", int(c["val"]))
            except Exception:
                return ("const", c["val"])
        return None

    def _op_ty(self, op):
        p = op_place(op)
        if p is not None and not p["p"]:
            return self.body.locals[p["l"]]["ty"]
        c = op_const(op)
        return c.get("ty") if c else None

    def cont_key(self, st, op):
        """key of the container place an operand refers to (through a reference), and its value"""
        v = self.val(st, op)
        if v is not None and v[0] == "ref":
            return v[1], self.load(st, v[1])
        return None, v

    # ---- refinement --------------------------------------------------------------------------------------------
    def assume(self, st, sc, truth):
        """returns False if the path is infeasible"""
        if sc is None:
            return True
        k = sc[0]
        if k == "not":
            return self.assume(st, sc[1], not truth)
        if k == "const":
            return bool(sc[1]) == truth
        if k == "isempty":
            return self._set_empty(st, sc[1], truth)
        if k == "cmp":
            op, a, b = sc[1], sc[2], sc[3]
            if a is not None and b is not None and a[0] == "const" and b[0] == "len":
                flip = {"Gt": "Lt", "Lt": "Gt", "Ge": "Le", "Le": "Ge", "Eq": "Eq", "Ne": "Ne"}
                op, a, b = flip.get(op, op), b, a
            if a is None or b is None or a[0] != "len" or b[0] != "const":
                return True
            n = b[1]
            # (len OP n) <=> empty / nonempty ?
            table = {("Gt", 0): False, ("Ne", 0): False, ("Ge", 1): False, ("Eq", 0): True, ("Le", 0): True, ("Lt", 1): True}
            if (op, n) not in table:
                return True
            means_empty = table[(op, n)]
            return self._set_empty(st, a[1], means_empty if truth else not means_empty)
        return True

    def _set_empty(self, st, atoms, empty):
        atoms = tuple(a for a in atoms if a not in st.empty)
        if empty:
            if any(a in st.nonempty or a.startswith("e") for a in atoms):
                return False
            for a in atoms:
                st.empty.add(a)
            self._erase(st)
            return True
        if not atoms:
            return False
        if len(atoms) == 1:
            st.nonempty.add(atoms[0])
        return True

    def _erase(self, st):
        def fa(atoms):
            out = []
            for a in atoms:
                if isinstance(a, tuple) and a[0] in ("rev", "rest_front", "rest_back"):
                    inner = fa(a[1])
                    if inner:
                        out.append((a[0], inner))
                elif a not in st.empty:
                    out.append(a)
            return tuple(out)

        def fix(v):
            if v is not None and v[0] in ("seq", "iterseq"):
                return (v[0], fa(v[1]))
            if v is not None and v[0] in ("len", "isempty"):
                return (v[0], tuple(a for a in v[1] if a not in st.empty))
            return v
        for k in list(st.env):
            st.env[k] = fix(st.env[k])
        for k in list(st.fields):
            st.fields[k] = fix(st.fields[k])
        st.stores = [(f, fix(v), loc) for f, v, loc in st.stores]

    # ---- execution ---------------------------------------------------------------------------------------------
    def run(self, init):
        """returns list of final States (env[0] = return value)"""
        out = []
        work = [(0, init)]
        while work:
            b, st = work.pop()
            self.paths += 1
            if self.paths > MAX_PATHS:
                raise Inconclusive("more than %d paths" % MAX_PATHS)
            if b in st.visited:
                raise Inconclusive("loop through bb%d" % b)
            st.visited = st.visited + (b,)
            if b in self.loop_at:
                exit_bb = self.summarise_loop(st, b, self.loop_at[b])
                work.append((exit_bb, st))
                continue
            blk = self.body.blocks[b]
            if blk["cleanup"]:
                continue
            for s in blk["stmts"]:
                self.stmt(st, s)
            t = blk["term"]
            k = t["k"]
            if k == "return":
                out.append(st)
            elif k == "goto":
                work.append((t["t"], st))
            elif k in ("drop", "assert"):
                if k == "drop":
                    v = self.load(st, self.key_of(st, t["place"])) if t.get("place") else None
                    if v is not None and v[0] == "seq" and v[1]:
                        st.drops.append((v, self.body.loc(b)))
                work.append((t["t"], st))
            elif k == "switch":
                sc = self.val(st, t["op"])
                arms = [(v, bb) for v, bb in t["targets"]] + [(None, t["otherwise"])]
                if sc is not None and sc[0] in ("cmp", "isempty", "not", "const") and len(t["targets"]) == 1 and t["targets"][0][0] == 0:
                    for truth, bb in ((False, t["targets"][0][1]), (True, t["otherwise"])):
                        s2 = st.clone()
                        if self.assume(s2, sc, truth):
                            work.append((bb, s2))
                elif sc is not None and sc[0] == "discr" and sc[1] is not None and sc[1][0] in ("optspare", "some", "none", "poprslt"):
                    inner = sc[1]
                    for v, bb in arms:
                        if self.body.is_unreachable_block(bb):
                            continue
                        if inner[0] == "some" and v == 0:
                            continue
                        if inner[0] == "none" and v == 1:
                            continue
                        work.append((bb, st.clone()))
                else:
                    for v, bb in arms:
                        if self.body.is_unreachable_block(bb):
                            continue
                        work.append((bb, st.clone()))
            elif k == "call":
                for s2 in self.call(st, b, t):
                    if t["t"] is not None:
                        work.append((t["t"], s2))
            elif k == "unreachable":
                continue
            else:
                continue
        return out

    def stmt(self, st, s):
        if s["k"] != "assign":
            return
        key = self.key_of(st, s["place"])
        rv = s["rv"]
        v = None
        if "use" in rv:
            v = self.val(st, rv["use"])
            p = op_place(rv["use"])
            if "move" in rv["use"] and p is not None:
                src = self.key_of(st, p)
                if v is not None and v[0] == "seq" and src is not None and src[0] in ("L", "F"):
                    self.store(st, src, ("moved",))
        elif "ref" in rv:
            k2 = self.key_of(st, rv["ref"])
            if k2 == ("SELF",):
                v = ("self",)
            elif k2 is not None:
                v = ("ref", k2)
        elif "bin" in rv:
            b = rv["bin"]
            v = ("cmp", b["op"], self.val(st, b["l"]), self.val(st, b["r"]))
        elif "un" in rv:
            if rv["un"]["op"] == "Not":
                v = ("not", self.val(st, rv["un"]["x"]))
        elif "discr" in rv:
            v = ("discr", self.load(st, self.key_of(st, rv["discr"])))
        elif "agg" in rv:
            a = rv["agg"]
            if a["kind"] == "adt" and a["adt"].endswith("Option") and a.get("vname") == "Some" and a["ops"]:
                v = ("some", self.val(st, a["ops"][0]))
            elif a["kind"] == "adt" and a["adt"].endswith("Option") and a.get("vname") == "None":
                v = ("none",)
        self.store(st, key, v)

    def call(self, st, b, t):
        fr = mir.op_fn(t["func"]) if t.get("func") else None
        name = fn_name(fr) if fr else None
        dest = self.key_of(st, t["dest"]) if t.get("dest") else None
        loc = self.body.loc(b)
        args = t["args"]
        if name is None:
            self.touch_unknown(st, args, "<indirect>", loc)
            self.store(st, dest, None)
            return [st]
        tn = tail2(name)
        meth = tn.split("::")[-1]
        recv_key, recv = (self.cont_key(st, args[0]) if args else (None, None))

        def is_seq(v):
            return v is not None and v[0] == "seq"

        # --- reference plumbing
        if tn in ("Deref::deref", "DerefMut::deref_mut", "BorrowMut::borrow_mut", "Borrow::borrow", "AsMut::as_mut", "AsRef::as_ref") or \
           meth in ("deref", "deref_mut") and args:
            self.store(st, dest, self.val(st, args[0]))
            return [st]
        # --- queries
        if meth == "len" and is_seq(recv):
            self.store(st, dest, ("len", recv[1]))
            return [st]
        if meth == "is_empty" and is_seq(recv):
            self.store(st, dest, ("isempty", recv[1]))
            return [st]
        if meth in ("len", "is_empty", "capacity") and recv is not None and recv[0] == "pool":
            self.store(st, dest, None)
            return [st]
        if meth in ("capacity", "front", "back", "get", "iter", "contains", "first", "last") and is_seq(recv):
            self.store(st, dest, None)
            return [st]
        if meth in ("reserve", "shrink_to_fit", "shrink_to", "reserve_exact") and (is_seq(recv) or (recv and recv[0] == "pool")):
            self.store(st, dest, ("const", 0))
            return [st]
        # --- constructors
        if meth in ("new", "default", "with_capacity") and ("VecDeque" in name or "Vec" in name or "Default" in tn) and \
           t.get("dest") is not None and _is_container_ty(self.body.locals[t["dest"]["l"]]["ty"]) and not t["dest"]["p"]:
            self.store(st, dest, seq())
            return [st]
        # --- mutators of a sequence
        if is_seq(recv) and recv_key is not None:
            if meth == "append" and len(args) > 1:
                k2, v2 = self.cont_key(st, args[1])
                if is_seq(v2) and k2 is not None:
                    self.store(st, recv_key, ("seq", recv[1] + v2[1]))
                    self.store(st, k2, seq())
                    self.store(st, dest, ("const", 0))
                    return [st]
            if meth in ("push_back", "push") and len(args) > 1:
                v2 = self.val(st, args[1])
                a = v2[1] if (v2 is not None and v2[0] == "elem") else None
                if a is not None:
                    self.store(st, recv_key, ("seq", recv[1] + (a,)))
                    self.store(st, dest, ("const", 0))
                    return [st]
            if meth == "push_front" and len(args) > 1:
                v2 = self.val(st, args[1])
                a = v2[1] if (v2 is not None and v2[0] == "elem") else None
                if a is not None:
                    self.store(st, recv_key, ("seq", (a,) + recv[1]))
                    self.store(st, dest, ("const", 0))
                    return [st]
            if meth == "pop_front":
                self.store(st, dest, ("poprslt", ("pop_front", recv[1])))
                self.store(st, recv_key, ("seq", (("rest_front", recv[1]),)) if recv[1] else seq())
                return [st]
            if meth in ("pop_back", "pop"):
                self.store(st, dest, ("poprslt", ("pop_back", recv[1])))
                self.store(st, recv_key, ("seq", (("rest_back", recv[1]),)) if recv[1] else seq())
                return [st]
            if meth in ("clear",):
                if recv[1]:
                    st.drops.append((recv, loc))
                self.store(st, recv_key, seq())
                self.store(st, dest, ("const", 0))
                return [st]
            if meth in ("extend",) and len(args) > 1:
                v2 = self.val(st, args[1])
                if is_seq(v2) or (v2 is not None and v2[0] == "iterseq"):
                    self.store(st, recv_key, ("seq", recv[1] + v2[1]))
                    p = op_place(args[1])
                    if p is not None:
                        self.store(st, self.key_of(st, p), ("moved",))
                    self.store(st, dest, ("const", 0))
                    return [st]
            if meth == "drain" and len(args) > 1 and "RangeFull" in (self._op_ty(args[1]) or ""):
                self.store(st, dest, ("iterseq", recv[1]))
                self.store(st, recv_key, seq())
                return [st]
        a0v = self.val(st, args[0]) if args else None
        if meth == "into_iter" and a0v is not None and a0v[0] in ("seq", "iterseq"):
            self.store(st, dest, ("iterseq", a0v[1]))
            p = op_place(args[0])
            if p is not None and a0v[0] == "seq":
                self.store(st, self.key_of(st, p), ("moved",))
            return [st]
        if meth == "rev" and a0v is not None and a0v[0] == "iterseq":
            self.store(st, dest, ("iterseq", (("rev", a0v[1]),) if a0v[1] else ()))
            return [st]
        # --- mem::*
        if tn == "mem::swap" and len(args) == 2:
            ka, va = self.cont_key(st, args[0])
            kb, vb = self.cont_key(st, args[1])
            if ka is not None and kb is not None:
                self.store(st, ka, vb)
                self.store(st, kb, va)
                self.store(st, dest, ("const", 0))
                return [st]
        if tn == "mem::replace" and len(args) == 2:
            ka, va = self.cont_key(st, args[0])
            vb = self.val(st, args[1])
            if ka is not None:
                self.store(st, dest, va)
                self.store(st, ka, vb)
                return [st]
        if tn == "mem::take" and len(args) == 1:
            ka, va = self.cont_key(st, args[0])
            if ka is not None and is_seq(va):
                self.store(st, dest, va)
                self.store(st, ka, seq())
                return [st]
        if tn == "mem::drop" and len(args) == 1:
            v = self.val(st, args[0])
            if is_seq(v) and v[1]:
                st.drops.append((v, loc))
            self.store(st, dest, ("const", 0))
            return [st]
        # --- pool of spare buffers
        if recv is not None and recv[0] == "pool":
            if meth in ("pop", "pop_back", "pop_front"):
                self.store(st, dest, ("optspare",))
                return [st]
            if meth in ("push", "push_back", "push_front") and len(args) > 1:
                v2 = self.val(st, args[1])
                st.stores.append((recv[1], v2, loc))
                p = op_place(args[1])
                if p is not None and "move" in args[1]:
                    self.store(st, self.key_of(st, p), ("moved",))
                self.store(st, dest, ("const", 0))
                return [st]
            if meth in ("clear", "truncate"):
                self.store(st, dest, ("const", 0))
                return [st]
        a0 = self.val(st, args[0]) if args else None
        if a0 is not None and a0[0] == "optspare":
            if meth in ("unwrap_or_default", "unwrap_or_else", "unwrap_or"):
                if meth == "unwrap_or" and len(args) > 1:
                    v2 = self.val(st, args[1])
                    if not (is_seq(v2) and not v2[1]):
                        self.touch_unknown(st, args, name, loc)
                self.store(st, dest, seq())
                return [st]
            if meth in ("unwrap", "expect"):
                self.store(st, dest, seq())
                return [st]
        # --- Option plumbing around pop results
        # --- crate-local method on self: interpret the callee
        if fr is not None and a0 is not None and a0[0] == "self" and self.depth < 3:
            callee = self.prog.resolve_local(fr) if hasattr(self.prog, "resolve_local") else None
            if callee is not None:
                return self.inline_call(st, callee, args, dest, loc)
        # --- crate-local method on a nested crate object held in a field (e.g. a spare-buffer pool type)
        if fr is not None and a0 is not None and a0[0] == "ref" and a0[1][0] == "F" and self.depth < 3:
            tgt = self.load(st, a0[1])
            callee = self.prog.resolve_local(fr)
            if tgt is not None and tgt[0] == "obj" and callee is not None:
                nested = self._crate_adt(self.ftypes.get(a0[1][1], ""))
                if nested is not None:
                    return self.inline_call(st, callee, args, dest, loc, adt=nested, prefix=a0[1][1] + ".", self_arg=0)
        self.touch_unknown(st, args, name, loc)
        self.store(st, dest, None)
        return [st]

    def inline_call(self, st, callee, args, dest, loc, adt=None, prefix=None, self_arg=None):
        sub = Interp(self.prog, callee, adt or self.adt, self.depth + 1, self.prefix if prefix is None else prefix)
        if adt is not None:
            sub.ftypes.update(self.ftypes)
        init = State()
        init.fields = st.fields          # shared by reference on purpose: cloned per path below
        init = st.clone()
        init.env = {}
        init.visited = ()
        for i, a in enumerate(args):
            init.env[i + 1] = ("self",) if i == self_arg else self.val(st, a)
            p = op_place(a)
            if p is not None and "move" in a:
                v = self.val(st, a)
                if v is not None and v[0] == "seq":
                    self.store(st, self.key_of(st, p), ("moved",))
        outs = []
        for fin in sub.run(init):
            s2 = st.clone()
            s2.fields = fin.fields
            s2.empty = fin.empty
            s2.nonempty = fin.nonempty
            s2.stores = fin.stores
            s2.unknown = fin.unknown
            s2.drops = fin.drops
            self._erase(s2)
            self.store(s2, dest, fin.env.get(0))
            outs.append(s2)
        self.paths += sub.paths
        for k, v in sub.ftypes.items():
            self.ftypes.setdefault(k, v)
        return outs

    def touch_unknown(self, st, args, name, loc):
        hit = False
        for a in args:
            k, v = self.cont_key(st, a)
            if k is not None and v is not None and v[0] in ("seq", "pool", "top"):
                self.store(st, k, TOP)
                hit = True
            else:
                v = self.val(st, a)
                if v is not None and v[0] in ("seq", "self"):
                    hit = True
                    if v[0] == "self":
                        for f in list(self.ftypes):
                            st.fields[f] = TOP
        if hit:
            st.unknown.append((name, loc))


def _opt_elem(ret_ty, gens):
    m = re.match(r"^core::option::Option<(\w+)>$", ret_ty)
    return bool(m) and m.group(1) in gens


def role_of(body):
    """signature role of a wrapper method (see module docstring)"""
    sig_args = [body.locals[i + 1]["ty"] for i in range(body.arg_count)]
    ret_ty = body.locals[0]["ty"]
    if not sig_args or "&" not in sig_args[0]:
        return "static"
    cont_args = [i for i, ty in enumerate(sig_args[1:], start=2) if _is_container_ty(ty) and not ty.startswith("&")]
    gens = set(body.raw.get("generics") or ["T"]) | {"T"}
    elem_args = [i for i, ty in enumerate(sig_args[1:], start=2) if ty in gens]
    if cont_args and _is_container_ty(ret_ty):
        return "attach+detach"
    if cont_args and ret_ty == "()":
        return "attach"
    if _is_container_ty(ret_ty) and len(sig_args) == 1:
        return "detach"
    if elem_args and ret_ty == "()":
        return "push"
    if _opt_elem(ret_ty, gens) and len(sig_args) == 1:
        return "pop"
    return "other"


def analyse_method(prog, body, adt):
    """returns dict(role, paths=[{fields, ret, stores, unknown, drops}], error=None)"""
    sig_args = [body.locals[i + 1]["ty"] for i in range(body.arg_count)]
    ret_ty = body.locals[0]["ty"]
    res = {"role": None, "paths": [], "error": None, "args": sig_args, "ret": ret_ty}
    if not sig_args or "&" not in sig_args[0]:
        res["role"] = "static"
        return res
    it = Interp(prog, body, adt)
    init = State()
    init.env[1] = ("self",)
    cont_args = []
    elem_args = []
    for i, ty in enumerate(sig_args[1:], start=2):
        if _is_container_ty(ty) and not ty.startswith("&"):
            init.env[i] = seq("N%d" % i)
            cont_args.append(i)
        elif not ty.startswith("&") and ty in adt.get("generics", ["T"]) or ty == "T" or ty in (body.raw.get("generics") or []):
            init.env[i] = ("elem", "e%d" % i)
            elem_args.append(i)
        else:
            init.env[i] = None
    ret_cont = _is_container_ty(ret_ty)
    ret_opt_elem = _opt_elem(ret_ty, set(body.raw.get("generics") or ["T"]) | {"T"})
    if cont_args and ret_cont:
        role = "attach+detach"
    elif cont_args and ret_ty == "()":
        role = "attach"
    elif ret_cont and len(sig_args) == 1:
        role = "detach"
    elif elem_args and ret_ty == "()":
        role = "push"
    elif ret_opt_elem and len(sig_args) == 1:
        role = "pop"
    else:
        role = "other"
    res["role"] = role
    res["cont_args"] = cont_args
    res["elem_args"] = elem_args
    try:
        finals = it.run(init)
    except Inconclusive as e:
        res["error"] = str(e)
        return res
    for st in finals:
        fields = {}
        for f, ty in it.ftypes.items():
            if _is_container_ty(ty) and not _is_pool_ty(ty):
                fields[f] = st.fields.get(f, seq("S:" + f))
                if fields[f] is not None and fields[f][0] == "seq":
                    fields[f] = ("seq", tuple(a for a in fields[f][1] if a not in st.empty))
        res["paths"].append({"fields": fields, "ret": st.env.get(0), "stores": st.stores, "unknown": st.unknown,
                             "drops": st.drops, "empty": sorted(st.empty), "nonempty": sorted(st.nonempty), "blocks": st.visited})
    res["explored"] = it.paths
    return res


def fmt(v):
    if v is None:
        return "?"
    if v[0] == "seq":
        return "[" + " ++ ".join(str(a) for a in v[1]) + "]"
    return str(v)


def check_contract(res, qfield):
    """returns list of (key-suffix, ok, detail) for one analysed method"""
    out = []
    role = res["role"]
    if res["error"]:
        return [("inconclusive:" + res["error"].split(" ")[0], False, "sequence analysis inconclusive: " + res["error"])]
    S = "S:" + qfield
    for i, p in enumerate(res["paths"]):
        tag = "" if len(res["paths"]) == 1 else ""
        if p["unknown"]:
            for name, loc in p["unknown"]:
                out.append(("unclassified-callee:%s" % tail2(name), False, "%s touches the queue and is not modelled (%s)" % (strip_generics(name), loc)))
            continue
        f = p["fields"].get(qfield)
        ret = p["ret"]
        for pool, v, loc in p["stores"]:
            ok = v is not None and v[0] == "seq" and not v[1]
            out.append(("spare-buffer-stored-empty", ok,
                        "value stored into the spare-buffer pool %s at %s is %s on the path where %s" % (pool, loc, fmt(v), _cond(p))))
        N = tuple("N%d" % k for k in res.get("cont_args", []))
        E = tuple("e%d" % k for k in res.get("elem_args", []))
        S_eff = tuple(a for a in (S,) if a not in p["empty"])
        N_eff = tuple(a for a in N if a not in p["empty"])
        if role == "attach":
            want = ("seq", S_eff + N_eff)
            out.append(("content=existing++argument", f == want, "final %s = %s, contract %s (path where %s)" % (qfield, fmt(f), fmt(want), _cond(p))))
        elif role == "detach":
            want = ("seq", S_eff)
            out.append(("returns-whole-queue", ret == want, "returns %s, contract %s (path where %s)" % (fmt(ret), fmt(want), _cond(p))))
            out.append(("leaves-queue-empty", f == seq(), "final %s = %s, contract [] (path where %s)" % (qfield, fmt(f), _cond(p))))
        elif role == "attach+detach":
            want = ("seq", S_eff + N_eff)
            out.append(("returns-existing++argument", ret == want, "returns %s, contract %s" % (fmt(ret), fmt(want))))
            out.append(("leaves-queue-empty", f == seq(), "final %s = %s, contract []" % (qfield, fmt(f))))
        elif role == "push":
            want = ("seq", S_eff + E)
            out.append(("content=existing++element", f == want, "final %s = %s, contract %s" % (qfield, fmt(f), fmt(want))))
        elif role == "pop":
            want_ret = ("poprslt", ("pop_front", S_eff))
            want_f = ("seq", (("rest_front", S_eff),)) if S_eff else seq()
            out.append(("pops-front", ret == want_ret and f == want_f, "returns %s leaving %s; contract pop_front(%s)" % (fmt(ret), fmt(f), fmt(("seq", S_eff)))))
        else:
            want = ("seq", S_eff)
            out.append(("leaves-queue-unchanged", f == want, "final %s = %s, contract %s" % (qfield, fmt(f), fmt(want))))
    return out


def _cond(p):
    c = []
    if p["empty"]:
        c.append("empty: " + ",".join(p["empty"]))
    if p["nonempty"]:
        c.append("non-empty: " + ",".join(p["nonempty"]))
    return "; ".join(c) or "always"


if __name__ == "__main__":
    import sys, os
    sys.path.insert(0, os.path.dirname(os.path.abspath(__file__)))
    import facts as F
    import anchors as A
    data, meta = F.get_facts(())
    prog = mir.Program(data)
    qn = A.TABLE["queue_type"]
    adt = [v for k, v in prog.adts.items() if k.endswith("::" + qn)][0]
    for m in A.methods_of(prog, qn):
        r = analyse_method(prog, m, adt)
        print(m.path, r["role"], r["error"])
        for p in r["paths"]:
            print("   ", {k: fmt(v) for k, v in p["fields"].items()}, "ret", fmt(p["ret"]), "stores", [(a, fmt(b)) for a, b, _ in p["stores"]], p["unknown"], "|", _cond(p))
        for k, ok, d in check_contract(r, "commands"):
            print("     ", "ok " if ok else "FAIL", k, "-", d)

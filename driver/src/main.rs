// cobweb-facts: MIR / type fact extractor for the bevy_cobweb verification rules.
//
// Runs as RUSTC_WORKSPACE_WRAPPER (argv[1] = real rustc, dropped). For the crates named in
// COBWEB_FACTS_CRATES (default: bevy_cobweb,bevy_cobweb_derive) it writes one JSON file
// $COBWEB_FACTS_OUT/<crate>.json with every function / method / closure body (polymorphic MIR,
// after drop elaboration, no optimisation), the crate's ADTs, trait impls and unsafe uses.
// It decides nothing; all rules live in /verif/rules.
#![feature(rustc_private)]
#![allow(clippy::all)]

extern crate rustc_abi;
extern crate rustc_driver;
extern crate rustc_hir;
extern crate rustc_interface;
extern crate rustc_middle;
extern crate rustc_session;
extern crate rustc_span;

use rustc_hir::def::DefKind;
use rustc_hir::intravisit::{self, Visitor};
use rustc_hir::def_id::{DefId, LocalDefId, LOCAL_CRATE};
use rustc_middle::mir::*;
use rustc_middle::ty::print::{with_no_trimmed_paths, with_no_visible_paths};
use rustc_middle::ty::{self, Instance, Ty, TyCtxt, TypingEnv};
use rustc_span::Span;
use std::fmt::Write as _;

macro_rules! nt { ($e:expr) => { with_no_visible_paths!(with_no_trimmed_paths!($e)) } }

// ---------------------------------------------------------------------------------------------
// tiny JSON value

enum J {
    Null,
    B(bool),
    N(i128),
    S(String),
    A(Vec<J>),
    O(Vec<(&'static str, J)>),
}

fn esc(s: &str, out: &mut String) {
    out.push('"');
    for c in s.chars() {
        match c {
            '"' => out.push_str("\\\""),
            '\\' => out.push_str("\\\\"),
            '\n' => out.push_str("\\n"),
            '\r' => out.push_str("\\r"),
            '\t' => out.push_str("\\t"),
            c if (c as u32) < 0x20 => {
                let _ = write!(out, "\\u{:04x}", c as u32);
            }
            c => out.push(c),
        }
    }
    out.push('"');
}

impl J {
    fn write(&self, out: &mut String) {
        match self {
            J::Null => out.push_str("null"),
            J::B(b) => out.push_str(if *b { "true" } else { "false" }),
            J::N(n) => {
                let _ = write!(out, "{}", n);
            }
            J::S(s) => esc(s, out),
            J::A(v) => {
                out.push('[');
                for (i, x) in v.iter().enumerate() {
                    if i > 0 {
                        out.push(',');
                    }
                    x.write(out);
                }
                out.push(']');
            }
            J::O(v) => {
                out.push('{');
                for (i, (k, x)) in v.iter().enumerate() {
                    if i > 0 {
                        out.push(',');
                    }
                    esc(k, out);
                    out.push(':');
                    x.write(out);
                }
                out.push('}');
            }
        }
    }
}

fn s<T: ToString>(x: T) -> J {
    J::S(x.to_string())
}
fn opt_s(x: Option<String>) -> J {
    match x {
        Some(v) => J::S(v),
        None => J::Null,
    }
}

// ---------------------------------------------------------------------------------------------

struct UnsafeCounter {
    n: i128,
    lines: Vec<i128>,
}

impl<'v> Visitor<'v> for UnsafeCounter {
    fn visit_block(&mut self, b: &'v rustc_hir::Block<'v>) {
        if let rustc_hir::BlockCheckMode::UnsafeBlock(src) = b.rules {
            if matches!(src, rustc_hir::UnsafeSource::UserProvided) && !b.span.from_expansion() {
                self.n += 1;
            }
        }
        intravisit::walk_block(self, b);
    }
}

struct Cx<'tcx> {
    tcx: TyCtxt<'tcx>,
}

impl<'tcx> Cx<'tcx> {
    fn path(&self, did: DefId) -> String {
        nt!(self.tcx.def_path_str(did))
    }

    fn ty_s(&self, t: Ty<'tcx>) -> String {
        nt!(format!("{}", t))
    }

    fn line(&self, sp: Span) -> (String, i128, i128) {
        let sm = self.tcx.sess.source_map();
        let sp = sp.source_callsite();
        let lo = sm.lookup_char_pos(sp.lo());
        let hi = sm.lookup_char_pos(sp.hi());
        let f = match &lo.file.name {
            rustc_span::FileName::Real(r) => match r.local_path() {
                Some(p) => p.to_string_lossy().to_string(),
                None => format!("{:?}", r),
            },
            other => format!("{:?}", other),
        };
        (f, lo.line as i128, hi.line as i128)
    }

    fn expn(&self, sp: Span) -> J {
        if !sp.from_expansion() {
            return J::Null;
        }
        let data = sp.ctxt().outer_expn_data();
        match data.macro_def_id {
            Some(d) => s(self.path(d)),
            None => s(format!("{:?}", data.kind)),
        }
    }

    fn place(&self, body: &Body<'tcx>, p: &Place<'tcx>) -> J {
        let mut projs = Vec::new();
        for (i, elem) in p.projection.iter().enumerate() {
            let base_ty = Place::ty_from(p.local, &p.projection[..i], &body.local_decls, self.tcx);
            let j = match elem {
                ProjectionElem::Deref => s("deref"),
                ProjectionElem::Field(f, fty) => {
                    let mut o = vec![("f", J::N(f.as_usize() as i128)), ("ty", s(self.ty_s(fty)))];
                    match base_ty.ty.kind() {
                        ty::Adt(def, _) => {
                            let v = base_ty.variant_index.unwrap_or(rustc_abi::FIRST_VARIANT);
                            if def.is_enum() || def.is_struct() || def.is_union() {
                                if let Some(vd) = def.variants().get(v) {
                                    if let Some(fd) = vd.fields.get(f) {
                                        o.push(("name", s(fd.name.as_str())));
                                    }
                                    if def.is_enum() {
                                        o.push(("variant", s(vd.name.as_str())));
                                    }
                                }
                                o.push(("adt", s(self.path(def.did()))));
                            }
                        }
                        ty::Closure(did, _) => {
                            o.push(("closure", s(self.path(*did))));
                        }
                        _ => {}
                    }
                    J::O(o)
                }
                ProjectionElem::Downcast(name, v) => J::O(vec![
                    ("downcast", J::N(v.as_usize() as i128)),
                    ("name", opt_s(name.map(|n| n.as_str().to_string()))),
                ]),
                ProjectionElem::Index(l) => J::O(vec![("index", J::N(l.as_usize() as i128))]),
                other => s(format!("{:?}", other)),
            };
            projs.push(j);
        }
        J::O(vec![("l", J::N(p.local.as_usize() as i128)), ("p", J::A(projs))])
    }

    fn fn_ref(&self, owner: DefId, did: DefId, args: ty::GenericArgsRef<'tcx>) -> J {
        let tcx = self.tcx;
        let mut o = vec![
            ("path", s(self.path(did))),
            ("args", J::A(args.iter().map(|a| s(nt!(format!("{}", a)))).collect())),
            ("krate", s(tcx.crate_name(did.krate).as_str())),
        ];
        // trait / impl context of the callee
        if let Some(assoc) = tcx.opt_associated_item(did) {
            let cont = assoc.container_id(tcx);
            match tcx.def_kind(cont) {
                DefKind::Trait => o.push(("trait", s(self.path(cont)))),
                DefKind::Impl { .. } => {
                    o.push(("impl_self", s(self.ty_s(tcx.type_of(cont).instantiate_identity().skip_norm_wip()))));
                    if let Some(tr) = tcx.impl_opt_trait_ref(cont) {
                        o.push(("impl_trait", s(self.path(tr.skip_binder().def_id))));
                    }
                }
                _ => {}
            }
        }
        // try to resolve trait calls to the impl item
        let env = TypingEnv::post_analysis(tcx, owner);
        if let Ok(Some(inst)) = Instance::try_resolve(tcx, env, did, args) {
            let rd = inst.def_id();
            if rd != did {
                o.push(("resolved", s(self.path(rd))));
                o.push(("resolved_args", J::A(inst.args.iter().map(|a| s(nt!(format!("{}", a)))).collect())));
                o.push(("resolved_krate", s(tcx.crate_name(rd.krate).as_str())));
            }
        }
        J::O(o)
    }

    fn operand(&self, owner: DefId, body: &Body<'tcx>, op: &Operand<'tcx>) -> J {
        match op {
            Operand::Copy(p) => J::O(vec![("copy", self.place(body, p))]),
            Operand::Move(p) => J::O(vec![("move", self.place(body, p))]),
            Operand::Constant(c) => {
                let cty = c.const_.ty();
                let mut o = vec![("ty", s(self.ty_s(cty)))];
                match cty.kind() {
                    ty::FnDef(did, args) => {
                        o.push(("fn", self.fn_ref(owner, *did, args)));
                    }
                    ty::Closure(did, _) => {
                        o.push(("closure", s(self.path(*did))));
                    }
                    _ => {
                        let env = TypingEnv::post_analysis(self.tcx, owner);
                        if cty.is_integral() || cty.is_bool() || cty.is_char() {
                            if let Some(si) = c.const_.try_eval_scalar_int(self.tcx, env) {
                                let bits = si.to_bits_unchecked();
                                o.push(("val", J::N(bits as i128)));
                            }
                        }
                        o.push(("repr", s(nt!(format!("{}", c.const_)))));
                    }
                }
                J::O(vec![("const", J::O(o))])
            }
            #[allow(unreachable_patterns)]
            other => J::O(vec![("otherop", s(format!("{:?}", other)))]),
        }
    }

    fn rvalue(&self, owner: DefId, body: &Body<'tcx>, rv: &Rvalue<'tcx>) -> J {
        match rv {
            Rvalue::Use(op, ..) => J::O(vec![("use", self.operand(owner, body, op))]),
            Rvalue::Ref(_, bk, p) => J::O(vec![
                ("ref", self.place(body, p)),
                ("mut", J::B(matches!(bk, BorrowKind::Mut { .. }))),
            ]),
            Rvalue::RawPtr(_, p) => J::O(vec![("rawptr", self.place(body, p))]),
            Rvalue::CopyForDeref(p) => J::O(vec![("use", J::O(vec![("copy", self.place(body, p))]))]),
            Rvalue::Cast(kind, op, t) => J::O(vec![(
                "cast",
                J::O(vec![
                    ("kind", s(format!("{:?}", kind))),
                    ("op", self.operand(owner, body, op)),
                    ("ty", s(self.ty_s(*t))),
                ]),
            )]),
            Rvalue::Discriminant(p) => J::O(vec![("discr", self.place(body, p))]),
            Rvalue::BinaryOp(op, lr) => J::O(vec![(
                "bin",
                J::O(vec![
                    ("op", s(format!("{:?}", op))),
                    ("l", self.operand(owner, body, &lr.0)),
                    ("r", self.operand(owner, body, &lr.1)),
                ]),
            )]),
            Rvalue::UnaryOp(op, x) => J::O(vec![(
                "un",
                J::O(vec![("op", s(format!("{:?}", op))), ("x", self.operand(owner, body, x))]),
            )]),
            Rvalue::Aggregate(kind, ops) => {
                let mut o: Vec<(&'static str, J)> = Vec::new();
                match &**kind {
                    AggregateKind::Adt(did, vidx, _args, _, _) => {
                        let def = self.tcx.adt_def(*did);
                        o.push(("kind", s("adt")));
                        o.push(("adt", s(self.path(*did))));
                        o.push(("variant", J::N(vidx.as_usize() as i128)));
                        let vd = def.variant(*vidx);
                        o.push(("vname", s(vd.name.as_str())));
                        o.push(("fields", J::A(vd.fields.iter().map(|f| s(f.name.as_str())).collect())));
                    }
                    AggregateKind::Tuple => o.push(("kind", s("tuple"))),
                    AggregateKind::Array(_) => o.push(("kind", s("array"))),
                    AggregateKind::Closure(did, _) => {
                        o.push(("kind", s("closure")));
                        o.push(("closure", s(self.path(*did))));
                    }
                    other => {
                        o.push(("kind", s("other")));
                        o.push(("dbg", s(format!("{:?}", other))));
                    }
                }
                o.push(("ops", J::A(ops.iter().map(|x| self.operand(owner, body, x)).collect())));
                J::O(vec![("agg", J::O(o))])
            }
            other => J::O(vec![("other", s(format!("{:?}", other)))]),
        }
    }

    fn unwind(&self, u: &UnwindAction) -> J {
        match u {
            UnwindAction::Cleanup(bb) => J::N(bb.as_usize() as i128),
            _ => J::Null,
        }
    }

    fn body(&self, ldid: LocalDefId) -> Option<J> {
        let tcx = self.tcx;
        let did = ldid.to_def_id();
        let kind = tcx.def_kind(did);
        let kind_s = match kind {
            DefKind::Fn => "fn",
            DefKind::AssocFn => "assoc_fn",
            DefKind::Closure => "closure",
            _ => return None,
        };
        if !tcx.is_mir_available(did) {
            return None;
        }
        let body: &Body<'tcx> = tcx.optimized_mir(did);
        let (file, lo, hi) = self.line(tcx.def_span(did));
        let (_, _, body_hi) = self.line(body.span);
        let mut o: Vec<(&'static str, J)> = vec![
            ("path", s(self.path(did))),
            ("kind", s(kind_s)),
            ("file", s(file)),
            ("line", J::N(lo)),
            ("line_hi", J::N(hi.max(body_hi))),
            ("arg_count", J::N(body.arg_count as i128)),
        ];
        // name of the item itself (last path segment) and parent
        if let Some(name) = tcx.opt_item_name(did) {
            o.push(("name", s(name.as_str())));
        }
        let parent = tcx.parent(did);
        o.push(("parent", s(self.path(parent))));
        if matches!(kind, DefKind::Closure) {
            // typeck root = enclosing fn
            let root = tcx.typeck_root_def_id(did);
            o.push(("root", s(self.path(root))));
        }
        {
            // generic parameter names in GenericArgs order (parent generics first), aligned with `args` of fn refs
            let generics = tcx.generics_of(did);
            let mut names = Vec::new();
            for i in 0..generics.count() {
                names.push(s(generics.param_at(i, tcx).name.as_str()));
            }
            o.push(("generics", J::A(names)));
        }
        if matches!(kind, DefKind::Fn | DefKind::AssocFn) {
            o.push(("vis", s(format!("{:?}", tcx.visibility(did)))));
            o.push(("reachable", J::B(tcx.effective_visibilities(()).is_reachable(ldid))));
            let sig = tcx.fn_sig(did).instantiate_identity().skip_norm_wip();
            o.push(("sig", s(nt!(format!("{}", sig)))));
            o.push(("unsafe_fn", J::B(!sig.safety().is_safe())));
            // generics + predicates (bounds)
            let preds = tcx.predicates_of(did).instantiate_identity(tcx);
            let mut ps = Vec::new();
            for (p, _) in preds.into_iter() {
                ps.push(s(nt!(format!("{}", p.skip_norm_wip()))));
            }
            o.push(("preds", J::A(ps)));
        }
        if let Some(assoc) = tcx.opt_associated_item(did) {
            let cont = assoc.container_id(tcx);
            if let DefKind::Impl { .. } = tcx.def_kind(cont) {
                o.push(("impl_self", s(self.ty_s(tcx.type_of(cont).instantiate_identity().skip_norm_wip()))));
                if let Some(tr) = tcx.impl_opt_trait_ref(cont) {
                    let tr = tr.instantiate_identity().skip_norm_wip();
                    o.push(("impl_trait", s(self.path(tr.def_id))));
                    o.push(("impl_trait_ref", s(nt!(format!("{}", tr)))));
                }
            } else if let DefKind::Trait = tcx.def_kind(cont) {
                o.push(("in_trait", s(self.path(cont))));
            }
        }
        // user-written unsafe blocks in this body (nested closures are separate bodies and not descended into)
        {
            let hir_body = tcx.hir_body_owned_by(ldid);
            let mut uc = UnsafeCounter { n: 0, lines: Vec::new() };
            uc.visit_expr(hir_body.value);
            o.push(("unsafe_blocks", J::N(uc.n)));
        }
        // locals
        let mut names: Vec<Option<String>> = vec![None; body.local_decls.len()];
        let mut upvars = Vec::new();
        for vdi in &body.var_debug_info {
            if let VarDebugInfoContents::Place(p) = &vdi.value {
                if p.projection.is_empty() {
                    names[p.local.as_usize()] = Some(vdi.name.as_str().to_string());
                } else {
                    upvars.push(J::O(vec![("name", s(vdi.name.as_str())), ("place", self.place(body, p))]));
                }
            }
        }
        let mut locals = Vec::new();
        for (l, decl) in body.local_decls.iter_enumerated() {
            locals.push(J::O(vec![
                ("ty", s(self.ty_s(decl.ty))),
                ("name", opt_s(names[l.as_usize()].clone())),
            ]));
        }
        o.push(("locals", J::A(locals)));
        o.push(("upvars", J::A(upvars)));
        // promoted constants of this body (`&ReactorMode::Persistent` in `*self == ReactorMode::Persistent`): the
        // statements of each promoted body, printed, so that a rule can read which value a `promoted[i]` operand stands for
        {
            let mut proms = Vec::new();
            for pbody in tcx.promoted_mir(did).iter() {
                let mut sts = Vec::new();
                for data in pbody.basic_blocks.iter() {
                    for st in &data.statements {
                        if let StatementKind::Assign(_) = &st.kind {
                            sts.push(s(nt!(format!("{:?}", st))));
                        }
                    }
                }
                proms.push(J::A(sts));
            }
            o.push(("promoted", J::A(proms)));
        }
        // blocks
        let mut blocks = Vec::new();
        for (_bb, data) in body.basic_blocks.iter_enumerated() {
            let mut stmts = Vec::new();
            for st in &data.statements {
                let (_, ln, _) = self.line(st.source_info.span);
                match &st.kind {
                    StatementKind::Assign(b) => {
                        let (p, rv) = &**b;
                        stmts.push(J::O(vec![
                            ("k", s("assign")),
                            ("place", self.place(body, p)),
                            ("rv", self.rvalue(did, body, rv)),
                            ("line", J::N(ln)),
                            ("exp", self.expn(st.source_info.span)),
                        ]));
                    }
                    StatementKind::SetDiscriminant { place, variant_index } => {
                        stmts.push(J::O(vec![
                            ("k", s("setdiscr")),
                            ("place", self.place(body, place)),
                            ("variant", J::N(variant_index.as_usize() as i128)),
                            ("line", J::N(ln)),
                        ]));
                    }
                    _ => {}
                }
            }
            let term = data.terminator();
            let (_, tln, _) = self.line(term.source_info.span);
            let mut t: Vec<(&'static str, J)> = vec![("line", J::N(tln)), ("exp", self.expn(term.source_info.span))];
            match &term.kind {
                TerminatorKind::Goto { target } => {
                    t.push(("k", s("goto")));
                    t.push(("t", J::N(target.as_usize() as i128)));
                }
                TerminatorKind::SwitchInt { discr, targets } => {
                    t.push(("k", s("switch")));
                    t.push(("op", self.operand(did, body, discr)));
                    let mut ts = Vec::new();
                    for (v, bb) in targets.iter() {
                        ts.push(J::A(vec![J::N(v as i128), J::N(bb.as_usize() as i128)]));
                    }
                    t.push(("targets", J::A(ts)));
                    t.push(("otherwise", J::N(targets.otherwise().as_usize() as i128)));
                }
                TerminatorKind::Return => t.push(("k", s("return"))),
                TerminatorKind::Unreachable => t.push(("k", s("unreachable"))),
                TerminatorKind::UnwindResume => t.push(("k", s("resume"))),
                TerminatorKind::UnwindTerminate(_) => t.push(("k", s("terminate"))),
                TerminatorKind::Drop { place, target, unwind, .. } => {
                    t.push(("k", s("drop")));
                    t.push(("place", self.place(body, place)));
                    t.push(("t", J::N(target.as_usize() as i128)));
                    t.push(("unwind", self.unwind(unwind)));
                }
                TerminatorKind::Call { func, args, destination, target, unwind, fn_span, .. } => {
                    t.push(("k", s("call")));
                    t.push(("func", self.operand(did, body, func)));
                    t.push(("args", J::A(args.iter().map(|a| self.operand(did, body, &a.node)).collect())));
                    t.push(("dest", self.place(body, destination)));
                    t.push(("t", match target {
                        Some(bb) => J::N(bb.as_usize() as i128),
                        None => J::Null,
                    }));
                    t.push(("unwind", self.unwind(unwind)));
                    let (_, fl, _) = self.line(*fn_span);
                    t.push(("fn_line", J::N(fl)));
                }
                TerminatorKind::Assert { cond, expected, target, unwind, msg } => {
                    t.push(("k", s("assert")));
                    t.push(("cond", self.operand(did, body, cond)));
                    t.push(("expected", J::B(*expected)));
                    t.push(("t", J::N(target.as_usize() as i128)));
                    t.push(("unwind", self.unwind(unwind)));
                    t.push(("msg", s(format!("{:?}", msg))));
                }
                TerminatorKind::FalseEdge { real_target, .. } => {
                    t.push(("k", s("goto")));
                    t.push(("t", J::N(real_target.as_usize() as i128)));
                }
                TerminatorKind::FalseUnwind { real_target, .. } => {
                    t.push(("k", s("goto")));
                    t.push(("t", J::N(real_target.as_usize() as i128)));
                }
                other => {
                    t.push(("k", s("other")));
                    t.push(("dbg", s(format!("{:?}", other))));
                }
            }
            blocks.push(J::O(vec![
                ("cleanup", J::B(data.is_cleanup)),
                ("stmts", J::A(stmts)),
                ("term", J::O(t)),
            ]));
        }
        o.push(("blocks", J::A(blocks)));
        Some(J::O(o))
    }

    fn adts(&self) -> J {
        let tcx = self.tcx;
        let mut out = Vec::new();
        for id in tcx.hir_free_items() {
            let ldid = id.owner_id.def_id;
            let did = ldid.to_def_id();
            let kind = tcx.def_kind(did);
            if !matches!(kind, DefKind::Struct | DefKind::Enum | DefKind::Union) {
                continue;
            }
            let def = tcx.adt_def(did);
            let (file, lo, _) = self.line(tcx.def_span(did));
            let mut variants = Vec::new();
            for (vi, v) in def.variants().iter_enumerated() {
                let mut fields = Vec::new();
                for f in v.fields.iter() {
                    let fty = tcx.type_of(f.did).instantiate_identity().skip_norm_wip();
                    fields.push(J::O(vec![
                        ("name", s(f.name.as_str())),
                        ("ty", s(self.ty_s(fty))),
                        ("vis", s(format!("{:?}", f.vis))),
                    ]));
                }
                variants.push(J::O(vec![
                    ("idx", J::N(vi.as_usize() as i128)),
                    ("name", s(v.name.as_str())),
                    ("fields", J::A(fields)),
                ]));
            }
            out.push(J::O(vec![
                ("path", s(self.path(did))),
                ("kind", s(format!("{:?}", kind))),
                ("file", s(file)),
                ("line", J::N(lo)),
                ("vis", s(format!("{:?}", tcx.visibility(did)))),
                ("reachable", J::B(tcx.effective_visibilities(()).is_reachable(ldid))),
                ("variants", J::A(variants)),
            ]));
        }
        J::A(out)
    }

    fn impls(&self) -> J {
        let tcx = self.tcx;
        let mut out = Vec::new();
        for id in tcx.hir_free_items() {
            let ldid = id.owner_id.def_id;
            let did = ldid.to_def_id();
            if !matches!(tcx.def_kind(did), DefKind::Impl { .. }) {
                continue;
            }
            let self_ty = tcx.type_of(did).instantiate_identity().skip_norm_wip();
            let (file, lo, _) = self.line(tcx.def_span(did));
            let mut o = vec![
                ("self_ty", s(self.ty_s(self_ty))),
                ("file", s(file)),
                ("line", J::N(lo)),
                ("derived", J::B(tcx.is_automatically_derived(did))),
            ];
            if let ty::Adt(ad, _) = self_ty.kind() {
                o.push(("self_adt", s(self.path(ad.did()))));
            }
            if let Some(tr) = tcx.impl_opt_trait_ref(did) {
                let tr = tr.instantiate_identity().skip_norm_wip();
                o.push(("trait", s(self.path(tr.def_id))));
                o.push(("trait_ref", s(nt!(format!("{}", tr)))));
            }
            let mut items = Vec::new();
            for it in tcx.associated_items(did).in_definition_order() {
                items.push(J::O(vec![
                    ("name", s(it.name().as_str())),
                    ("path", s(self.path(it.def_id))),
                    ("kind", s(format!("{:?}", it.tag()))),
                ]));
            }
            o.push(("items", J::A(items)));
            let preds = tcx.predicates_of(did).instantiate_identity(tcx);
            let mut ps = Vec::new();
            for (p, _) in preds.into_iter() {
                ps.push(s(nt!(format!("{}", p.skip_norm_wip()))));
            }
            o.push(("preds", J::A(ps)));
            out.push(J::O(o));
        }
        J::A(out)
    }
}

fn dump(tcx: TyCtxt<'_>) {
    let cx = Cx { tcx };
    let name = tcx.crate_name(LOCAL_CRATE).as_str().to_string();
    let out_dir = std::env::var("COBWEB_FACTS_OUT").unwrap_or_else(|_| ".".to_string());
    let nonce = std::env::var("COBWEB_FACTS_NONCE").unwrap_or_default();
    let mut bodies = Vec::new();
    let mut skipped = 0i128;
    for ldid in tcx.hir_body_owners() {
        match cx.body(ldid) {
            Some(b) => bodies.push(b),
            None => skipped += 1,
        }
    }
    let n_bodies = bodies.len() as i128;
    let features: Vec<J> = {
        let mut v: Vec<String> = Vec::new();
        for (k, val) in tcx.sess.config.iter() {
            if k.as_str() == "feature" {
                if let Some(val) = val {
                    v.push(val.as_str().to_string());
                }
            }
        }
        v.sort();
        v.into_iter().map(J::S).collect()
    };
    let root = J::O(vec![
        ("crate", s(&name)),
        ("nonce", s(nonce)),
        ("rustc", s(rustc_interface::util::rustc_version_str().unwrap_or("unknown"))),
        ("features", J::A(features)),
        ("n_bodies", J::N(n_bodies)),
        ("n_skipped_owners", J::N(skipped)),
        ("bodies", J::A(bodies)),
        ("adts", cx.adts()),
        ("impls", cx.impls()),
    ]);
    let mut text = String::new();
    root.write(&mut text);
    let crate_types: Vec<String> = tcx.crate_types().iter().map(|c| format!("{:?}", c)).collect();
    let fname = format!("{}/{}-{}.json", out_dir, name, crate_types.join("_").to_lowercase());
    std::fs::write(&fname, text).expect("cobweb-facts: cannot write fact file");
}

struct Cb {
    wanted: Vec<String>,
}

impl rustc_driver::Callbacks for Cb {
    fn after_analysis<'tcx>(
        &mut self,
        _compiler: &rustc_interface::interface::Compiler,
        tcx: TyCtxt<'tcx>,
    ) -> rustc_driver::Compilation {
        let name = tcx.crate_name(LOCAL_CRATE).as_str().to_string();
        if self.wanted.iter().any(|w| *w == name) {
            dump(tcx);
        }
        rustc_driver::Compilation::Continue
    }
}

fn main() {
    let mut args: Vec<String> = std::env::args().collect();
    // RUSTC_WORKSPACE_WRAPPER: argv[1] is the path of the real rustc.
    if args.len() > 1 && (args[1].ends_with("rustc") || args[1].contains("/rustc")) {
        args.remove(1);
    }
    let wanted: Vec<String> = std::env::var("COBWEB_FACTS_CRATES")
        .unwrap_or_else(|_| "bevy_cobweb,bevy_cobweb_derive".to_string())
        .split(',')
        .map(|x| x.trim().to_string())
        .collect();
    let mut cb = Cb { wanted };
    rustc_driver::run_compiler(&args, &mut cb);
}

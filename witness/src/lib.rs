//! E3 - compile-fail / compile-pass witnesses (DESIGN.md section 2, E3) for the type-level remainder: who may name,
//! construct or call what from *outside* the crate. Each `compile_fail,E0xxx` witness is paired with a compiling twin
//! that differs only in the offending line, so a witness whose path is merely wrong cannot pass.
//! Run with `cargo +nightly test --doc --offline` (stable ignores the error code).

/// C04.d / C03: tracker types are not nameable outside the crate.
/// ```compile_fail,E0603
/// use bevy_cobweb::react::EventAccessTracker;
/// fn main() {}
/// ```
/// twin:
/// ```
/// use bevy_cobweb::react::BroadcastEvent;
/// fn main() {}
/// ```
pub struct W01TrackerNotNameable;

/// C04.d: the other three trackers.
/// ```compile_fail,E0603
/// use bevy_cobweb::react::EntityReactionAccessTracker;
/// fn main() {}
/// ```
/// ```compile_fail,E0603
/// use bevy_cobweb::react::SystemEventAccessTracker;
/// fn main() {}
/// ```
/// ```compile_fail,E0603
/// use bevy_cobweb::react::DespawnAccessTracker;
/// fn main() {}
/// ```
pub struct W02OtherTrackers;

/// C13.a: the callback storage component is not nameable outside the crate.
/// ```compile_fail,E0603
/// use bevy_cobweb::react::SystemCommandStorage;
/// fn main() {}
/// ```
/// twin:
/// ```
/// use bevy_cobweb::react::SystemCommandCallback;
/// fn main() {}
/// ```
pub struct W03StorageNotNameable;

/// C02.d / C09.a: the runner is not nameable outside the crate.
/// ```compile_fail,E0603
/// use bevy_cobweb::react::syscommand_runner;
/// fn main() {}
/// ```
/// twin:
/// ```
/// use bevy_cobweb::react::schedule_removal_and_despawn_reactors;
/// fn main() {}
/// ```
pub struct W04RunnerNotNameable;

/// C10.c: the despawner's receiving end is crate-private.
/// ```compile_fail,E0624
/// use bevy_cobweb::prelude::*;
/// fn f(d: &AutoDespawner) { let _ = d.try_recv(); }
/// fn main() {}
/// ```
/// twin:
/// ```
/// use bevy_cobweb::prelude::*;
/// use bevy::prelude::*;
/// fn f(d: &AutoDespawner) { let _ = d.prepare(Entity::PLACEHOLDER); }
/// fn main() {}
/// ```
pub struct W05TryRecvPrivate;

/// C10.c: a signal cannot be forged from outside (private tuple field).
/// ```compile_fail,E0423
/// use bevy_cobweb::prelude::*;
/// fn f(s: AutoDespawnSignal) -> AutoDespawnSignal { let AutoDespawnSignal(inner) = s; AutoDespawnSignal(inner) }
/// fn main() {}
/// ```
/// twin:
/// ```
/// use bevy_cobweb::prelude::*;
/// fn f(s: AutoDespawnSignal) -> AutoDespawnSignal { s.clone() }
/// fn main() {}
/// ```
pub struct W06SignalNotForgeable;

/// C10.d: the signal can be moved to and dropped on any thread.
/// ```
/// use bevy_cobweb::prelude::*;
/// fn assert_send_sync<T: Send + Sync + 'static>() {}
/// fn main() { assert_send_sync::<AutoDespawnSignal>(); assert_send_sync::<ReactorHandle>(); }
/// ```
pub struct W07SignalSendSync;

/// C13.c: a stored callback cannot be cloned (one state per registration).
/// ```compile_fail,E0277
/// use bevy_cobweb::prelude::*;
/// fn need<T: Clone>(_: &T) {}
/// fn f(c: &SystemCommandCallback) { need(c); }
/// fn main() {}
/// ```
/// twin:
/// ```
/// use bevy_cobweb::prelude::*;
/// fn need<T: Send>(_: &T) {}
/// fn f(c: &SystemCommandCallback) { need(c); }
/// fn main() {}
/// ```
pub struct W08CallbackNotClone;

/// C16.a: the world reactor's system id is not obtainable from outside.
/// ```compile_fail,E0624
/// use bevy_cobweb::prelude::*;
/// struct R;
/// impl EntityWorldReactor for R {
///     type Triggers = EntityEventTrigger<()>;
///     type Local = ();
///     fn reactor(self) -> SystemCommandCallback { SystemCommandCallback::new(|| {}) }
/// }
/// fn f(r: EntityReactor<R>) { let _ = r.system(); }
/// fn main() {}
/// ```
/// twin:
/// ```
/// use bevy_cobweb::prelude::*;
/// struct R;
/// impl EntityWorldReactor for R {
///     type Triggers = EntityEventTrigger<()>;
///     type Local = ();
///     fn reactor(self) -> SystemCommandCallback { SystemCommandCallback::new(|| {}) }
/// }
/// fn f(r: EntityReactor<R>) { let _ = &r; }
/// fn main() {}
/// ```
pub struct W09ReactorSystemPrivate;

/// C04.d / C05: payload components and the reader counter are crate-private.
/// ```compile_fail,E0603
/// use bevy_cobweb::react::DataEntityCounter;
/// fn main() {}
/// ```
/// ```compile_fail,E0603
/// use bevy_cobweb::react::SystemEventData;
/// fn main() {}
/// ```
pub struct W10PayloadPrivate;

/// C03.c: React's entity field cannot be rewritten from outside (reads report the owning entity).
/// ```compile_fail,E0616
/// use bevy_cobweb::prelude::*;
/// use bevy::prelude::*;
/// #[derive(ReactComponent)] struct A;
/// fn f(r: &mut React<A>) { r.entity = Entity::PLACEHOLDER; }
/// fn main() {}
/// ```
pub struct W11ReactEntityPrivate;

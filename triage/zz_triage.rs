use bevy_cobweb::prelude::*;
use bevy::prelude::*;
use crate::*;

#[derive(Resource, Default)]
struct Log(Vec<String>);

// C12: four system events sent by a run of S to itself (S busy) -> order observed.
#[test]
fn triage_c12_four_system_events_to_busy_target()
{
    let mut app = App::new();
    app.add_plugins(ReactPlugin).init_resource::<Log>();
    let world = app.world_mut();
    let cmd = world.spawn_system_command(
        |mut ev: SystemEvent<usize>, mut c: Commands, mut log: ResMut<Log>, saved: Res<SavedSystemCommand>|
        {
            match ev.take() {
                Ok(0) => {
                    let me = saved.0.unwrap();
                    for i in 1..=4usize { c.send_system_event(me, i); }
                    log.0.push("start".into());
                }
                Ok(n) => log.0.push(format!("{n}")),
                Err(_) => log.0.push("none".into()),
            }
        }
    );
    world.insert_resource(SavedSystemCommand(Some(cmd)));
    world.send_system_event(cmd, 0usize);
    let log = &world.resource::<Log>().0;
    println!("C12 LOG = {:?}", log);
}

// C14: insert on an entity that is despawned before the insert command is applied.
#[test]
fn triage_c14_insert_on_dead_entity()
{
    let mut app = App::new();
    app.add_plugins(ReactPlugin).init_resource::<Log>();
    let world = app.world_mut();
    world.react(|rc| rc.on_persistent(insertion::<TestComponent>(),
        |ev: InsertionEvent<TestComponent>, mut log: ResMut<Log>, q: Query<&React<TestComponent>>|
        {
            let e = ev.entity();
            log.0.push(format!("insertion reaction, component present = {}", q.get(e).is_ok()));
        }));
    let e = world.spawn_empty().id();
    world.syscall(e, |In(e): In<Entity>, mut c: Commands| {
        c.entity(e).despawn();
        c.react().insert(e, TestComponent(1));
    });
    let log = &world.resource::<Log>().0;
    println!("C14 LOG = {:?} entity alive = {}", log, world.get_entity(e).is_ok());
}

// C03: cross-kind metadata mix: pending entity event + mutation reaction for busy S, nested entity event.
#[test]
fn triage_c03_cross_kind_mix()
{
    let mut app = App::new();
    app.add_plugins(ReactPlugin).init_resource::<Log>();
    let world = app.world_mut();
    let e = world.spawn_empty().id();
    world.react(|rc| rc.insert(e, TestComponent(0)));
    #[derive(Resource)] struct Target(Entity);
    world.insert_resource(Target(e));
    #[derive(Resource, Default)] struct Phase(usize);
    world.insert_resource(Phase(0));
    let cmd = world.spawn_system_command(
        |ee: EntityEvent<usize>, me: MutationEvent<TestComponent>, mut c: Commands, mut log: ResMut<Log>,
         mut phase: ResMut<Phase>, t: Res<Target>, mut q: Query<&mut React<TestComponent>>|
        {
            let ee_v = ee.try_read().ok().map(|(_, v)| *v);
            let me_v = me.get().ok().is_some();
            log.0.push(format!("run phase={} entity_event={:?} mutation_event={}", phase.0, ee_v, me_v));
            let p = phase.0;
            phase.0 += 1;
            if p == 0 {
                // S busy: queue entity event 1 then a mutation
                c.react().entity_event(t.0, 1usize);
                q.get_mut(t.0).unwrap().get_mut(&mut c).0 += 1;
            } else if p == 1 {
                // replay of entity event 1: send nested entity event 3 to self
                c.react().entity_event(t.0, 3usize);
            }
        }
    );
    world.react(|rc| { rc.with((entity_event::<usize>(e), entity_mutation::<TestComponent>(e)), cmd, ReactorMode::Persistent); });
    world.react(|rc| rc.commands().queue(cmd));
    let log = &world.resource::<Log>().0;
    for l in log { println!("C03 {l}"); }
}
